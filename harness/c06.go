package main

// C06 driver: extension-field towers and GT. Every exported method of the tower types of the pairing
// curves (E2/E3/E4/E6/E12/E24 through the curve packages' aliases) and of the small-field extensions
// (koalabear/babybear E2, E4; goldilocks E2) is discovered by reflection and driven over operand
// lattices (0, 1, -1, every subset of zero sub-coordinates, single non-zero leaves, sub-field elements,
// seeded random; cyclotomic-subgroup and GT elements for the routines documented as requiring them).
// Package-level functions and unexported helpers of internal/fptower come through the overlay shim
// (hooks/ecc/<curve>/verif_shim_c06.go). One ndjson event per call with RAW limbs only; the trace
// specification spec/C06_tower/TraceTower.tla is the judge.

import (
	"flag"
	"fmt"
	"math/big"
	"reflect"
	"regexp"
	"sort"
	"strings"
)

func init() { register("c06", runC06) }

type c06SmallReg struct {
	Types map[string]reflect.Type
	Funcs map[string]any
}

// ---------------------------------------------------------------------------------------
// tower context

type c06Ctx struct {
	name, kind string
	base       *Field
	rOrder     *big.Int // group order r (curves only)
	types      map[string]reflect.Type
	tnames     []string // ascending level
	lvl        map[reflect.Type]int
	fn         map[string]reflect.Value
	curve      *Curve
	rng        *Rng
	tier       string
	out        string
	seed       uint64
	// sharding
	t        *TraceWriter
	shard    int
	cost     float64
	budget   float64
	maxBytes int64
	declared map[string]bool
	total    int
	files    []string
	// statistics
	uncovered map[string]bool
	covered   map[string]int
	pools     map[reflect.Type][]reflect.Value
	cyc, gt   []reflect.Value
	nwit      int
	top       reflect.Type
}

func (c *c06Ctx) level(t reflect.Type) int {
	if l, ok := c.lvl[t]; ok {
		return l
	}
	if isElem(t) {
		return 0
	}
	if t.Kind() != reflect.Struct || t.NumField() == 0 {
		return -1
	}
	l := c.level(t.Field(0).Type)
	if l < 0 {
		return -1
	}
	c.lvl[t] = l + 1
	return l + 1
}

func (c *c06Ctx) isTowerT(t reflect.Type) bool {
	if isElem(t) {
		return t == c.base.ElemT
	}
	return t.Kind() == reflect.Struct && c.level(t) > 0 && c.leafType(t) == c.base.ElemT
}

func (c *c06Ctx) leafType(t reflect.Type) reflect.Type {
	for !isElem(t) {
		if t.Kind() != reflect.Struct || t.NumField() == 0 {
			return nil
		}
		t = t.Field(0).Type
	}
	return t
}

// per-multiplication cost estimate (ms of TLC time) of a level: schoolbook count of base products
func (c *c06Ctx) mulCost(t reflect.Type) float64 {
	n := 1.0
	for !isElem(t) {
		d := float64(t.NumField())
		n *= d * d
		t = t.Field(0).Type
	}
	return 0.02 * n * (1 + float64(c.base.Q.BitLen())/512)
}

func (c *c06Ctx) openShard() {
	if c.t != nil {
		c.total += c.t.Close()
	}
	c.shard++
	nm := fmt.Sprintf("c06_%s_%02d", c.name, c.shard)
	hdr := Ev{"property": "C06", "ctx": c.name, "kind": c.kind, "seed": int(c.seed % (1 << 30)), "tier": c.tier}
	if c.kind == "curve" {
		hdr["curve"] = c.name
	} else {
		hdr["field"] = c.name
	}
	c.t = newTrace(c.out, nm, hdr)
	c.files = append(c.files, nm)
	c.cost = 0
	c.declared = map[string]bool{}
}

func (c *c06Ctx) emit(e Ev, cost float64) {
	c.t.Emit(e)
	c.cost += cost + 1
	if s, ok := e["op"].(string); ok {
		c.covered[s]++
	}
}

// rollover starts a new shard when the estimated validation cost of the current one is used up;
// only called between independent groups of events (declarations are per shard).
func (c *c06Ctx) rollover() {
	if c.cost > c.budget {
		c.openShard()
		return
	}
	// TLC holds a whole trace in memory: bound the file size as well
	c.t.w.Flush()
	if fi, err := c.t.f.Stat(); err == nil && fi.Size() > c.maxBytes {
		c.openShard()
	}
}

// ---------------------------------------------------------------------------------------
// elements

func (c *c06Ctx) leaves(v reflect.Value) []reflect.Value {
	if isElem(v.Type()) {
		return []reflect.Value{v}
	}
	var out []reflect.Value
	for i := 0; i < v.NumField(); i++ {
		out = append(out, c.leaves(v.Field(i))...)
	}
	return out
}

// mk builds an element of type t whose i-th leaf has the (non-Montgomery) value f(i).
func (c *c06Ctx) mk(t reflect.Type, f func(i int) *big.Int) reflect.Value {
	p := reflect.New(t)
	for i, l := range c.leaves(p.Elem()) {
		v := f(i)
		if v == nil {
			v = new(big.Int)
		}
		c.base.SetRaw(l.Addr(), c.base.ToMont(new(big.Int).Mod(v, c.base.Q)))
	}
	return p
}

func (c *c06Ctx) rnd(t reflect.Type) reflect.Value {
	return c.mk(t, func(int) *big.Int { return c.rng.Below(c.base.Q) })
}

func (c *c06Ctx) nzRand() *big.Int {
	for {
		x := c.rng.Below(c.base.Q)
		if x.Sign() != 0 {
			return x
		}
	}
}

func (c *c06Ctx) konst(t reflect.Type, v int64) reflect.Value {
	return c.mk(t, func(i int) *big.Int {
		if i == 0 {
			return big.NewInt(v)
		}
		return nil
	})
}

func c06Leaves(t reflect.Type) int {
	if isElem(t) {
		return 1
	}
	return t.NumField() * c06Leaves(t.Field(0).Type)
}

// pool returns the operand lattice of a type (built once per context).
func (c *c06Ctx) pool(t reflect.Type) []reflect.Value {
	if p, ok := c.pools[t]; ok {
		return p
	}
	var p []reflect.Value
	p = append(p, c.konst(t, 0), c.konst(t, 1), c.konst(t, -1), c.konst(t, 2), c.rnd(t), c.rnd(t))
	n := c06Leaves(t)
	if n > 1 {
		// a single non-zero leaf (sub-field elements for leaf 0)
		for i := 0; i < n; i++ {
			if n > 12 && c.tier != "thorough" && i%3 == 1 {
				continue
			}
			ii := i
			p = append(p, c.mk(t, func(j int) *big.Int {
				if j == ii {
					return c.nzRand()
				}
				return nil
			}))
		}
		// every proper non-empty subset of the direct children is zero
		d := t.NumField()
		per := n / d
		for mask := 1; mask < (1<<d)-1; mask++ {
			m := mask
			p = append(p, c.mk(t, func(j int) *big.Int {
				if m>>(j/per)&1 == 1 {
					return c.nzRand()
				}
				return nil
			}))
		}
		// quadratic-over-cubic types: subsets of the six middle coordinates
		if d == 2 && !isElem(t.Field(0).Type) && t.Field(0).Type.NumField() == 3 {
			per6 := n / 6
			var masks []int
			if c.tier == "thorough" {
				for m := 1; m < 63; m++ {
					masks = append(masks, m)
				}
			} else {
				for i := 0; i < 6; i++ {
					masks = append(masks, 63&^(1<<i))
				}
				for i := 0; i < 6; i++ {
					masks = append(masks, 1+c.rng.Intn(62))
				}
			}
			for _, m := range masks {
				mm := m
				p = append(p, c.mk(t, func(j int) *big.Int {
					if mm>>(j/per6)&1 == 1 {
						return c.nzRand()
					}
					return nil
				}))
			}
		}
		// element of the sub-field one level below (first child only), and (q-1)/2 patterns
		p = append(p, c.mk(t, func(j int) *big.Int {
			if j < per {
				return c.nzRand()
			}
			return nil
		}))
		half := new(big.Int).Rsh(c.base.Q, 1)
		p = append(p, c.mk(t, func(j int) *big.Int { return new(big.Int).Add(half, big.NewInt(int64(j%2))) }))
	} else {
		half := new(big.Int).Rsh(c.base.Q, 1)
		p = append(p, c.mk(t, func(int) *big.Int { return half }), c.mk(t, func(int) *big.Int { return new(big.Int).Add(half, big.NewInt(1)) }))
	}
	if c.tier == "thorough" {
		for i := 0; i < 20; i++ {
			p = append(p, c.rnd(t))
		}
	}
	c.pools[t] = p
	return p
}

func (c *c06Ctx) tagged(v reflect.Value) map[string]any {
	for v.Kind() == reflect.Ptr {
		v = v.Elem()
	}
	return map[string]any{"l": c.level(v.Type()), "v": enc(v)}
}

func (c *c06Ctx) key(v reflect.Value) string { return fmt.Sprint(enc(v)) }

// declare emits (once per shard) the claim that x belongs to the cyclotomic subgroup / to GT; the
// specification verifies the claim with generic arithmetic and remembers the element.
func (c *c06Ctx) declare(x reflect.Value, dom string) {
	k := dom + ":" + c.key(x)
	if c.declared[k] {
		return
	}
	c.declared[k] = true
	cost := 20 * c.mulCost(c.top)
	if dom == "gt" {
		cost += 1.5 * float64(c.rOrder.BitLen()) * c.mulCost(c.top)
	}
	c.emit(Ev{"op": "Decl", "dom": dom, "args": []any{c.tagged(x)}}, cost)
}

// ---------------------------------------------------------------------------------------
// method table

type c06Spec struct {
	recvOp bool   // the receiver's previous value is the first operand
	mut0   bool   // ... and it is overwritten with the result
	dom    string // "", "cyc", "gt", "mixed": domain of the operands of the receiver's type
	custom string // handled by a dedicated routine
	costK  float64
}

var c06Methods = map[string]c06Spec{
	"Add": {}, "Sub": {}, "Mul": {}, "Div": {costK: 6}, "Neg": {}, "Double": {}, "Square": {}, "Inverse": {costK: 6}, "Set": {},
	"Conjugate": {costK: 8}, "MulByElement": {}, "MulByE2": {}, "MulByNonResidue": {}, "MulByNonResidueInv": {costK: 4},
	"MulBybTwistCurveCoeff": {}, "Frobenius": {costK: 4}, "FrobeniusSquare": {costK: 8}, "FrobeniusCube": {costK: 12},
	"FrobeniusQuad": {costK: 16},
	"Halve": {recvOp: true, mut0: true}, "MulAssign": {recvOp: true, mut0: true},
	"MulBy034": {recvOp: true, mut0: true}, "MulBy34": {recvOp: true, mut0: true}, "MulBy01234": {recvOp: true, mut0: true},
	"MulBy014": {recvOp: true, mut0: true}, "MulBy01": {recvOp: true, mut0: true}, "MulBy1": {recvOp: true, mut0: true},
	"MulBy12": {recvOp: true, mut0: true}, "MulBy01245": {recvOp: true, mut0: true},
	"IsZero": {recvOp: true}, "IsOne": {recvOp: true}, "Equal": {recvOp: true}, "Cmp": {recvOp: true},
	"LexicographicallyLargest": {recvOp: true}, "Clone": {recvOp: true},
	"Legendre": {recvOp: true, custom: "legendre"}, "Sqrt": {custom: "sqrt"},
	"IsInSubGroup": {recvOp: true, custom: "subgroup"},
	"CyclotomicSquare": {dom: "cyc"}, "CyclotomicSquareCompressed": {dom: "cyc"}, "InverseUnitary": {dom: "cyc"},
	"Expt": {dom: "cyc", costK: 100}, "ExptHalf": {dom: "cyc", costK: 100}, "ExptMinus1": {dom: "cyc", costK: 100},
	"ExptPlus1": {dom: "cyc", costK: 100}, "ExptMinus1Div3": {dom: "cyc", costK: 100}, "ExptMinus1Square": {dom: "cyc", costK: 200},
	"ExptMinus1Squared": {dom: "cyc", costK: 100}, "ExptSquarePlus1": {dom: "cyc", costK: 100}, "Expc1": {dom: "cyc", costK: 8},
	"Expc2": {dom: "cyc", costK: 12},
	"CompressTorus": {recvOp: true, custom: "torus"}, "DecompressTorus": {recvOp: true, custom: "skip-handled-by-torus"},
	"DecompressKarabina": {custom: "karabina"},
	"Exp": {custom: "exp"}, "CyclotomicExp": {custom: "exp", dom: "cyc"}, "ExpGLV": {custom: "exp", dom: "gt"},
	"Select": {custom: "select"}, "SetOne": {custom: "const"}, "SetZero": {custom: "const"},
}

// methods deliberately left to other properties (codecs: C07; randomness; string conversion)
var c06Skipped = map[string]bool{"String": true, "SetString": true, "Bytes": true, "SetBytes": true, "Marshal": true,
	"Unmarshal": true, "SetRandom": true, "MustSetRandom": true, "Bits": true}

var c06NRPower = regexp.MustCompile(`^MulByNonResidue(\d)Power(\d)$`)

// ---------------------------------------------------------------------------------------
// generic invocation

type c06Call struct {
	ops  []reflect.Value // operands (pointers) in parameter order, arrays flattened; receiver first when recvOp
	k    *big.Int
	ival int
	hasI bool
}

// invoke calls method m of recv. It builds the Go arguments from the operand list following the parameter types.
func (c *c06Ctx) invoke(op string, ty reflect.Type, recv reflect.Value, sp c06Spec, in c06Call, extra Ev, cost float64) {
	m := recv.MethodByName(op)
	mt := m.Type()
	e := Ev{"op": op, "ty": ty.Name(), "L": c.level(ty)}
	for k, v := range extra {
		e[k] = v
	}
	var logged []reflect.Value
	rest := in.ops
	if sp.recvOp {
		logged = append(logged, recv)
	}
	var args []reflect.Value
	var kcopy *big.Int
	for i := 0; i < mt.NumIn(); i++ {
		pt := mt.In(i)
		switch {
		case pt == reflect.TypeOf((*big.Int)(nil)):
			kcopy = new(big.Int).Set(in.k)
			e["k"] = zint(in.k)
			args = append(args, reflect.ValueOf(kcopy))
		case pt.Kind() == reflect.Int:
			e["c"] = in.ival
			args = append(args, reflect.ValueOf(in.ival))
		case pt.Kind() == reflect.Ptr && pt.Elem().Kind() == reflect.Array && !isElem(pt.Elem()):
			n := pt.Elem().Len()
			arr := reflect.New(pt.Elem())
			for j := 0; j < n; j++ {
				arr.Elem().Index(j).Set(rest[j].Elem())
				logged = append(logged, arr.Elem().Index(j).Addr())
			}
			rest = rest[n:]
			args = append(args, arr)
		case pt.Kind() == reflect.Ptr:
			a := clonePtr(rest[0])
			rest = rest[1:]
			logged = append(logged, a)
			args = append(args, a)
		default: // by value
			a := clonePtr(rest[0])
			rest = rest[1:]
			logged = append(logged, a)
			args = append(args, a.Elem())
		}
	}
	before := make([]any, len(logged))
	for i, a := range logged {
		before[i] = c.tagged(a)
	}
	e["args"] = before
	if sp.mut0 {
		e["mut0"] = true
	}
	out, pm, pk := call(m, args...)
	if pk {
		e["panic"] = pm
		c.emit(e, cost)
		return
	}
	after := make([]any, len(logged))
	for i, a := range logged {
		after[i] = c.tagged(a)
	}
	e["after"] = after
	if kcopy != nil {
		e["kafter"] = zint(kcopy)
	}
	// results
	resultIsRecv := true
	for i, o := range out {
		ot := o.Type()
		switch {
		case ot.Kind() == reflect.Bool:
			e["ret"] = o.Bool()
			resultIsRecv = false
		case ot.Kind() == reflect.Int:
			e["ret"] = int(o.Int())
			resultIsRecv = false
		case ot.Implements(reflect.TypeOf((*error)(nil)).Elem()):
			if !o.IsNil() {
				e["err"] = fmt.Sprint(o.Interface())
			}
		case ot.Kind() == reflect.Ptr:
			if o.IsNil() {
				e["nil"] = true
				resultIsRecv = false
			} else if o.Pointer() != recv.Pointer() {
				e["out"] = c.tagged(o)
				resultIsRecv = false
			}
		case ot.Kind() == reflect.Array && !isElem(ot):
			var outs []any
			for j := 0; j < o.Len(); j++ {
				outs = append(outs, c.tagged(o.Index(j)))
			}
			e["outs"] = outs
			resultIsRecv = false
		case ot.Kind() == reflect.Struct || isElem(ot):
			e["out"] = c.tagged(o)
			resultIsRecv = false
		}
		_ = i
	}
	if resultIsRecv && !(sp.recvOp && !sp.mut0) {
		e["out"] = c.tagged(recv)
	}
	c.emit(e, cost)
}

// operand types of a method (receiver first when recvOp); ok=false when a parameter is not understood
func (c *c06Ctx) operandTypes(ty reflect.Type, mt reflect.Type, sp c06Spec) (ts []reflect.Type, hasK, hasI, ok bool) {
	if sp.recvOp {
		ts = append(ts, ty)
	}
	for i := 0; i < mt.NumIn(); i++ {
		pt := mt.In(i)
		switch {
		case pt == reflect.TypeOf((*big.Int)(nil)):
			hasK = true
		case pt.Kind() == reflect.Int:
			hasI = true
		case pt.Kind() == reflect.Ptr && pt.Elem().Kind() == reflect.Array && !isElem(pt.Elem()):
			if !c.isTowerT(pt.Elem().Elem()) {
				return nil, false, false, false
			}
			for j := 0; j < pt.Elem().Len(); j++ {
				ts = append(ts, pt.Elem().Elem())
			}
		case pt.Kind() == reflect.Ptr && c.isTowerT(pt.Elem()):
			ts = append(ts, pt.Elem())
		case c.isTowerT(pt):
			ts = append(ts, pt)
		default:
			return nil, false, false, false
		}
	}
	return ts, hasK, hasI, true
}

func (c *c06Ctx) domPool(t reflect.Type, dom string) []reflect.Value {
	if t == c.top {
		switch dom {
		case "cyc":
			return c.cyc
		case "gt":
			return c.gt
		}
	}
	return c.pool(t)
}

func (c *c06Ctx) declareAll(ops []reflect.Value, dom string) {
	if dom == "" {
		return
	}
	for _, o := range ops {
		if o.Elem().Type() == c.top {
			c.declare(o, dom)
		}
	}
}

// driveGeneric runs a method over its operand lattice.
func (c *c06Ctx) driveGeneric(ty reflect.Type, op string, sp c06Spec) {
	recv0 := reflect.New(ty)
	mt := recv0.MethodByName(op).Type()
	ts, _, _, ok := c.operandTypes(ty, mt, sp)
	if !ok {
		c.uncovered[ty.Name()+"."+op+" (signature)"] = true
		return
	}
	extra := Ev{}
	if mm := c06NRPower.FindStringSubmatch(op); mm != nil {
		extra["pi"] = int(mm[1][0] - '0')
		extra["pj"] = int(mm[2][0] - '0')
	}
	pools := make([][]reflect.Value, len(ts))
	n := 1
	for i, t := range ts {
		pools[i] = c.domPool(t, sp.dom)
		if len(pools[i]) > n {
			n = len(pools[i])
		}
	}
	if len(ts) >= 2 {
		n += n / 2
	}
	costK := sp.costK
	if costK == 0 {
		costK = 1
	}
	cost := costK * c.mulCost(ty)
	if sp.dom != "" && c.tier != "thorough" && costK >= 100 && n > 3 {
		n = 3
	}
	strides := []int{1, 3, 7, 5, 11, 13, 17}
	run := func(choice func(i int) reflect.Value) {
		ops := make([]reflect.Value, len(ts))
		for i := range ts {
			ops[i] = choice(i)
		}
		c.declareAll(ops, sp.dom)
		var recv reflect.Value
		in := c06Call{}
		if sp.recvOp {
			recv = clonePtr(ops[0])
			in.ops = ops[1:]
		} else {
			recv = c.rnd(ty) // destination pre-filled with an unrelated value
			in.ops = ops
		}
		c.invoke(op, ty, recv, sp, in, extra, cost)
	}
	if op == "InverseUnitary" && sp.dom == "" {
		// a level below the top: unitary operands conj(x)/x (the specification checks x*conj(x) = 1 itself)
		pools[0] = append([]reflect.Value{}, pools[0]...) // private copy: the lattice itself is shared
		for i := range pools[0] {
			x := pools[0][i]
			u := reflect.New(ty)
			method(u, "Conjugate").Call([]reflect.Value{x})
			iv := reflect.New(ty)
			method(iv, "Inverse").Call([]reflect.Value{x})
			method(u, "Mul").Call([]reflect.Value{u, iv})
			pools[0][i] = u
		}
	}
	for it := 0; it < n; it++ {
		i0 := it
		run(func(i int) reflect.Value {
			p := pools[i]
			return p[(i0*strides[i%len(strides)]+i*2)%len(p)]
		})
	}
	// binary operations of one type: cross product with the structural corner cases
	if len(ts) == 2 && ts[0] == ts[1] && sp.dom == "" {
		corner := pools[0]
		if len(corner) > 8 && c.tier != "thorough" {
			corner = corner[:8]
		}
		if len(corner) > 22 {
			corner = corner[:22]
		}
		for _, a := range corner {
			for _, b := range corner {
				aa, bb := a, b
				run(func(i int) reflect.Value {
					if i == 0 {
						return aa
					}
					return bb
				})
			}
		}
	}
	c.rollover()
}

// ---------------------------------------------------------------------------------------
// dedicated routines

func (c *c06Ctx) exponents(heavy bool) []*big.Int {
	one := big.NewInt(1)
	out := []*big.Int{big.NewInt(0), big.NewInt(1), big.NewInt(-1), big.NewInt(2), big.NewInt(-2), big.NewInt(3), big.NewInt(-5), big.NewInt(255), big.NewInt(256)}
	if c.rOrder != nil {
		out = append(out, new(big.Int).Set(c.rOrder), new(big.Int).Neg(c.rOrder))
		if !heavy || c.tier == "thorough" {
			out = append(out, new(big.Int).Add(c.rOrder, one), new(big.Int).Sub(c.rOrder, one))
		}
	} else {
		out = append(out, new(big.Int).Set(c.base.Q), new(big.Int).Neg(new(big.Int).Sub(c.base.Q, one)))
	}
	out = append(out, new(big.Int).Add(new(big.Int).Lsh(one, 256), one), c.rng.Big(200), new(big.Int).Neg(c.rng.Big(130)))
	// word-aligned exponents (every low 64-bit word zero): 2^64, -3*2^64, 5*2^128
	out = append(out, new(big.Int).Lsh(one, 64), new(big.Int).Neg(new(big.Int).Lsh(big.NewInt(3), 64)), new(big.Int).Lsh(big.NewInt(5), 128))
	if c.tier == "thorough" {
		out = append(out, new(big.Int).Neg(new(big.Int).Add(new(big.Int).Lsh(one, 300), one)), c.rng.Big(256), c.rng.Big(64),
			new(big.Int).Lsh(one, 64), new(big.Int).Sub(new(big.Int).Lsh(one, 128), one), c.rng.Big(700))
	}
	return out
}

func (c *c06Ctx) driveExp(ty reflect.Type, op string, sp c06Spec) {
	var bases []reflect.Value
	switch sp.dom {
	case "cyc":
		bases = c.cyc
	case "gt":
		bases = c.gt
	default:
		p := c.pool(ty)
		bases = []reflect.Value{p[0], p[1], p[2], p[4], p[len(p)-1]}
	}
	heavy := c.mulCost(ty) > 1
	if heavy && c.tier != "thorough" && len(bases) > 3 {
		bases = bases[:3]
	}
	if c.mulCost(ty) > 10 && c.tier != "thorough" && len(bases) > 2 {
		bases = bases[1:3] // 24th-degree level: two bases in the quick tier
	}
	exps := c.exponents(heavy)
	for bi, b := range bases {
		for ei, k := range exps {
			if k.BitLen() > 64 && c.tier != "thorough" && heavy && (bi+ei)%2 == 1 {
				continue // quick tier: every other large exponent per base on the expensive levels
			}
			c.declareAll([]reflect.Value{b}, sp.dom)
			cost := 1.5 * float64(k.BitLen()+4) * c.mulCost(ty)
			c.invoke(op, ty, c.rnd(ty), sp, c06Call{ops: []reflect.Value{b}, k: k}, nil, cost)
			c.rollover()
		}
	}
}

func (c *c06Ctx) driveSelect(ty reflect.Type, op string, sp c06Spec) {
	p := c.pool(ty)
	for i, cond := range []int{0, 1, -1, 2, 1 << 20, 0} {
		c.invoke(op, ty, c.rnd(ty), sp, c06Call{ops: []reflect.Value{p[(i+4)%len(p)], p[(i+5)%len(p)]}, ival: cond, hasI: true}, nil, 1)
	}
}

func (c *c06Ctx) driveConst(ty reflect.Type, op string, sp c06Spec) {
	for i := 0; i < 2; i++ {
		c.invoke(op, ty, c.rnd(ty), sp, c06Call{}, nil, 1)
	}
}

func (c *c06Ctx) driveLegendreSqrt(ty reflect.Type, op string, sp c06Spec) {
	p := c.pool(ty)
	bits := float64(c.base.Q.BitLen() * c06Leaves(ty))
	cost := 1.5 * bits * c.mulCost(ty)
	n := len(p)
	if c.tier != "thorough" && n > 14 {
		n = 14
	}
	for i := 0; i < n; i++ {
		x := p[i]
		if op == "Legendre" {
			c.invoke(op, ty, clonePtr(x), sp, c06Call{}, nil, cost)
		} else {
			// Sqrt is documented for squares only (the caller tests Legendre); drive it on squares and on arbitrary values,
			// the specification judges the result only when a root exists
			c.invoke(op, ty, c.rnd(ty), sp, c06Call{ops: []reflect.Value{x}}, nil, cost+c.mulCost(ty))
			sq := reflect.New(ty)
			method(sq, "Square").Call([]reflect.Value{x})
			c.invoke(op, ty, c.rnd(ty), sp, c06Call{ops: []reflect.Value{sq}}, nil, cost+c.mulCost(ty))
		}
		c.rollover()
	}
}

func (c *c06Ctx) driveSubgroup(ty reflect.Type, op string, sp c06Spec) {
	cost := 1.5 * float64(c.rOrder.BitLen()) * c.mulCost(ty)
	p := c.pool(ty)
	// The routine is specified on the cyclotomic subgroup: GT elements (TRUE), cyclotomic elements outside GT (FALSE),
	// products of both. 0, -1 and random field elements are logged as probes only (outside the domain: not judged).
	var xs []reflect.Value
	xs = append(xs, c.gt...)
	ncyc := 3
	if c.tier == "thorough" {
		ncyc = len(c.cyc)
	}
	for i := 1; i < len(c.cyc) && i <= ncyc; i++ {
		xs = append(xs, c.cyc[i]) // cyclotomic, in general outside GT
	}
	mixed := reflect.New(ty)
	method(mixed, "Mul").Call([]reflect.Value{c.gt[1], c.cyc[1]})
	xs = append(xs, mixed)
	nJudged := len(xs)
	xs = append(xs, p[0], p[2], p[4])
	for xi, x := range xs {
		isGT := false
		for _, g := range c.gt {
			if c.key(g) == c.key(x) {
				isGT = true
			}
		}
		if isGT {
			c.declare(x, "gt")
		} else if xi < nJudged {
			c.declare(x, "cyc")
		}
		var extra Ev
		if c.allZeroRaw(x) {
			extra = Ev{"zero": true} // every raw limb of the operand is 0 (input class label; the zero element is an unjudged probe)
		}
		c.invoke(op, ty, clonePtr(x), sp, c06Call{}, extra, cost)
		c.rollover()
	}
}

func (c *c06Ctx) allZeroRaw(x reflect.Value) bool {
	for _, l := range c.leaves(x.Elem()) {
		if rawOfElem(l).Sign() != 0 {
			return false
		}
	}
	return true
}

// setCoord overwrites one of the six middle coordinates (quadratic-over-cubic element) with src's.
func c06Mid(v reflect.Value, i int) reflect.Value { return v.Elem().Field(i / 3).Field(i % 3) }

func (c *c06Ctx) driveKarabina(ty reflect.Type, sp c06Spec) {
	// (a) x = a cyclotomic element with unrelated values in the two slots that the compressed form does not carry (g0, g4)
	// (b) x = CyclotomicSquareCompressed(y) computed by the library into a zeroed / a dirty destination; witness y^2
	bt := c06Mid(reflect.New(ty), 0).Type()
	for i, y := range c.cyc {
		c.declare(y, "cyc")
		x := clonePtr(y)
		if i%2 == 0 {
			c06Mid(x, 0).Set(c.rnd(bt).Elem())
			c06Mid(x, 4).Set(c.rnd(bt).Elem())
		} else {
			c06Mid(x, 0).Set(reflect.Zero(bt))
			c06Mid(x, 4).Set(reflect.Zero(bt))
		}
		c.karabinaEvent(ty, sp, x, y, false)
		c.karabinaEvent(ty, sp, x, y, true)
		// through the library's compressed squaring
		y2 := reflect.New(ty)
		method(y2, "Square").Call([]reflect.Value{y})
		c.declare(y2, "cyc")
		var z reflect.Value
		if i%2 == 0 {
			z = reflect.New(ty)
		} else {
			z = c.rnd(ty)
		}
		method(z, "CyclotomicSquareCompressed").Call([]reflect.Value{y})
		c.karabinaEvent(ty, sp, z, y2, false)
		c.karabinaEvent(ty, sp, z, y2, true)
		c.rollover()
	}
	// batch version (shim)
	if f, ok := c.fn["BatchDecompressKarabina"]; ok {
		for bi, n := range []int{0, 1, 3, 4} {
			sl := reflect.MakeSlice(reflect.SliceOf(ty), n, n)
			var args, wit []any
			for i := 0; i < n; i++ {
				y := c.cyc[i%len(c.cyc)]
				if bi == 3 { // the tail of c.cyc holds the elements with a vanishing coordinate
					y = c.cyc[len(c.cyc)-1-i%len(c.cyc)]
				}
				c.declare(y, "cyc")
				x := clonePtr(y)
				c06Mid(x, 0).Set(c.rnd(bt).Elem())
				c06Mid(x, 4).Set(c.rnd(bt).Elem())
				sl.Index(i).Set(x.Elem())
				args = append(args, c.tagged(x))
				wit = append(wit, c.tagged(y))
			}
			if args == nil {
				args, wit = []any{}, []any{}
			}
			e := Ev{"op": "BatchDecompressKarabina", "ty": ty.Name(), "L": c.level(ty), "args": args, "wit": wit}
			out, pm, pk := call(f, sl)
			if pk {
				e["panic"] = pm
			} else {
				outs := []any{}
				for i := 0; i < out[0].Len(); i++ {
					outs = append(outs, c.tagged(out[0].Index(i)))
				}
				e["outs"] = outs
			}
			c.emit(e, 10*c.mulCost(ty))
		}
	}
}

func (c *c06Ctx) karabinaEvent(ty reflect.Type, sp c06Spec, x, witness reflect.Value, alias bool) {
	// alias=true: z.DecompressKarabina(z), the way every internal caller uses it; false: a distinct destination
	xin := clonePtr(x)
	recv := c.rnd(ty)
	if alias {
		recv = xin
	}
	e := Ev{"op": "DecompressKarabina", "ty": ty.Name(), "L": c.level(ty), "args": []any{c.tagged(xin)}, "wit": c.tagged(witness), "alias": alias}
	_, pm, pk := call(recv.MethodByName("DecompressKarabina"), xin)
	if pk {
		e["panic"] = pm
	} else {
		e["out"] = c.tagged(recv)
		if !alias {
			e["after"] = []any{c.tagged(xin)}
		}
	}
	c.emit(e, 10*c.mulCost(ty))
}

func (c *c06Ctx) driveTorus(ty reflect.Type, sp c06Spec) {
	// CompressTorus on cyclotomic elements (error exactly when C1 = 0: the identity), DecompressTorus on the results
	var comp []reflect.Value
	half := reflect.New(ty).Elem().Field(0).Type()
	for _, y := range c.cyc {
		c.declare(y, "cyc")
		recv := clonePtr(y)
		e := Ev{"op": "CompressTorus", "ty": ty.Name(), "L": c.level(ty), "args": []any{c.tagged(recv)}}
		out, pm, pk := call(recv.MethodByName("CompressTorus"))
		if pk {
			e["panic"] = pm
		} else {
			e["out"] = c.tagged(out[0])
			if !out[1].IsNil() {
				e["err"] = fmt.Sprint(out[1].Interface())
			} else {
				cp := reflect.New(half)
				cp.Elem().Set(out[0])
				comp = append(comp, cp)
			}
			e["after"] = []any{c.tagged(recv)}
		}
		c.emit(e, 25*c.mulCost(ty))
		c.rollover()
	}
	for i, cp := range comp {
		recv := clonePtr(cp)
		e := Ev{"op": "DecompressTorus", "ty": half.Name(), "L": c.level(half), "args": []any{c.tagged(recv)}}
		out, pm, pk := call(recv.MethodByName("DecompressTorus"))
		if pk {
			e["panic"] = pm
		} else {
			e["out"] = c.tagged(out[0])
			e["after"] = []any{c.tagged(recv)}
		}
		_ = i
		c.emit(e, 12*c.mulCost(ty))
	}
	// batch versions (shim)
	if f, ok := c.fn["BatchCompressTorus"]; ok {
		for _, idx := range [][]int{{}, {1}, {1, 2, 3}, {1, 0, 2}} { // index 0 of c.cyc is the identity (C1 = 0)
			sl := reflect.MakeSlice(reflect.SliceOf(ty), len(idx), len(idx))
			args := []any{}
			for i, j := range idx {
				y := c.cyc[j%len(c.cyc)]
				c.declare(y, "cyc")
				sl.Index(i).Set(y.Elem())
				args = append(args, c.tagged(y))
			}
			e := Ev{"op": "BatchCompressTorus", "ty": ty.Name(), "L": c.level(ty), "args": args}
			out, pm, pk := call(f, sl)
			if pk {
				e["panic"] = pm
			} else {
				outs := []any{}
				for i := 0; i < out[0].Len(); i++ {
					outs = append(outs, c.tagged(out[0].Index(i)))
				}
				e["outs"] = outs
				if !out[1].IsNil() {
					e["err"] = fmt.Sprint(out[1].Interface())
				}
				after := []any{}
				for i := 0; i < sl.Len(); i++ {
					after = append(after, c.tagged(sl.Index(i)))
				}
				e["after"] = after
			}
			c.emit(e, float64(25*len(idx))*c.mulCost(ty))
		}
	}
	if f, ok := c.fn["BatchDecompressTorus"]; ok {
		for _, n := range []int{0, 1, 3} {
			if n > len(comp) {
				continue
			}
			sl := reflect.MakeSlice(reflect.SliceOf(half), n, n)
			args := []any{}
			for i := 0; i < n; i++ {
				sl.Index(i).Set(comp[i].Elem())
				args = append(args, c.tagged(comp[i]))
			}
			e := Ev{"op": "BatchDecompressTorus", "ty": half.Name(), "L": c.level(half), "args": args}
			out, pm, pk := call(f, sl)
			if pk {
				e["panic"] = pm
			} else {
				outs := []any{}
				for i := 0; i < out[0].Len(); i++ {
					outs = append(outs, c.tagged(out[0].Index(i)))
				}
				e["outs"] = outs
				if !out[1].IsNil() {
					e["err"] = fmt.Sprint(out[1].Interface())
				}
				after := []any{}
				for i := 0; i < sl.Len(); i++ {
					after = append(after, c.tagged(sl.Index(i)))
				}
				e["after"] = after
			}
			c.emit(e, float64(12*n)*c.mulCost(ty))
		}
	}
	c.rollover()
}

// package-level functions: BatchInvertE*, sparse-by-sparse products, MulAccE4
func (c *c06Ctx) driveFuncs() {
	var names []string
	for n := range c.fn {
		names = append(names, n)
	}
	sort.Strings(names)
	for _, n := range names {
		f := c.fn[n]
		ft := f.Type()
		switch {
		case strings.HasPrefix(n, "BatchInvertE"):
			ty := ft.In(0).Elem()
			p := c.pool(ty)
			for _, idx := range [][]int{{}, {0}, {4}, {0, 0}, {4, 0, 5, 1, 0, 2, 6}, {1, 2, 3, 4, 5, 6, 7, 8}} {
				sl := reflect.MakeSlice(reflect.SliceOf(ty), len(idx), len(idx))
				args := []any{}
				for i, j := range idx {
					sl.Index(i).Set(p[j%len(p)].Elem())
					args = append(args, c.tagged(sl.Index(i)))
				}
				e := Ev{"op": "BatchInvert", "fn": n, "ty": ty.Name(), "L": c.level(ty), "args": args}
				out, pm, pk := call(f, sl)
				if pk {
					e["panic"] = pm
				} else {
					outs, after := []any{}, []any{}
					for i := 0; i < out[0].Len(); i++ {
						outs = append(outs, c.tagged(out[0].Index(i)))
					}
					for i := 0; i < sl.Len(); i++ {
						after = append(after, c.tagged(sl.Index(i)))
					}
					e["outs"], e["after"] = outs, after
				}
				c.emit(e, float64(6*len(idx)+1)*c.mulCost(ty))
			}
		case n == "Mul034By034" || n == "Mul34By34" || n == "Mul014By014" || n == "Mul01By01":
			bt := ft.In(0).Elem()
			p := c.pool(bt)
			reps := len(p) + 6
			for it := 0; it < reps; it++ {
				var args []reflect.Value
				la := []any{}
				for i := 0; i < ft.NumIn(); i++ {
					a := clonePtr(p[(it*(2*i+1)+i)%len(p)])
					if it >= len(p) {
						a = c.rnd(bt)
					}
					args = append(args, a)
					la = append(la, c.tagged(a))
				}
				e := Ev{"op": n, "ty": c.top.Name(), "L": c.level(c.top), "args": la}
				out, pm, pk := call(f, args...)
				if pk {
					e["panic"] = pm
				} else {
					outs, after := []any{}, []any{}
					for j := 0; j < out[0].Len(); j++ {
						outs = append(outs, c.tagged(out[0].Index(j)))
					}
					for _, a := range args {
						after = append(after, c.tagged(a))
					}
					e["outs"], e["after"] = outs, after
				}
				c.emit(e, 2*c.mulCost(c.top))
			}
		case n == "MulAccE4":
			c.driveMulAcc(f)
		case strings.HasPrefix(n, "new.") || strings.Contains(n, ".nSquare") || n == "BatchDecompressKarabina" ||
			n == "BatchCompressTorus" || n == "BatchDecompressTorus":
			// handled elsewhere
		default:
			c.uncovered["func "+n] = true
		}
		c.rollover()
	}
}

func (c *c06Ctx) driveMulAcc(f reflect.Value) {
	e4 := c.types["E4"]
	fr := c.base.ElemT
	p4 := c.pool(e4)
	p0 := c.pool(fr)
	lens := [][2]int{{0, 0}, {1, 1}, {2, 2}, {3, 3}, {4, 4}, {5, 5}, {7, 7}, {8, 8}, {12, 12}, {16, 16}, {17, 17}, {4, 3}, {3, 4}, {0, 4}, {4, 0}, {8, 7}}
	if c.tier == "thorough" {
		lens = append(lens, [2]int{64, 64}, [2]int{100, 100}, [2]int{33, 33}, [2]int{128, 128})
	}
	for it, ln := range lens {
		alpha := clonePtr(p4[(it*3+4)%len(p4)])
		// windows into larger arrays at every offset modulo 4 (a fresh allocation is 64-byte aligned, a window is not:
		// vector kernels must not assume alignment)
		off := it % 4
		scale := reflect.MakeSlice(reflect.SliceOf(fr), ln[0]+off+3, ln[0]+off+3).Slice(off, off+ln[0])
		res := reflect.MakeSlice(reflect.SliceOf(e4), ln[1]+off+3, ln[1]+off+3).Slice(off, off+ln[1])
		sc, rs := []any{}, []any{}
		for i := 0; i < ln[0]; i++ {
			scale.Index(i).Set(p0[(i+it)%len(p0)].Elem())
			if i%3 == 2 {
				scale.Index(i).Set(c.rnd(fr).Elem())
			}
			sc = append(sc, c.tagged(scale.Index(i)))
		}
		for i := 0; i < ln[1]; i++ {
			res.Index(i).Set(p4[(i*5+it)%len(p4)].Elem())
			if i%2 == 1 {
				res.Index(i).Set(c.rnd(e4).Elem())
			}
			rs = append(rs, c.tagged(res.Index(i)))
		}
		e := Ev{"op": "MulAccE4", "ty": "E4", "L": 2, "args": []any{c.tagged(alpha)}, "scale": sc, "res": rs}
		_, pm, pk := call(f, alpha, scale, res)
		if pk {
			e["panic"] = pm
		} else {
			outs, sa := []any{}, []any{}
			for i := 0; i < res.Len(); i++ {
				outs = append(outs, c.tagged(res.Index(i)))
			}
			for i := 0; i < scale.Len(); i++ {
				sa = append(sa, c.tagged(scale.Index(i)))
			}
			e["outs"], e["scaleafter"], e["after"] = outs, sa, []any{c.tagged(alpha)}
		}
		c.emit(e, float64(ln[1]+1))
	}
}

// nSquare / nSquareCompressed (unexported, literal re-implementation in the shim is NOT the library's code) are not driven.

// ---------------------------------------------------------------------------------------
// cyclotomic and GT elements (construction only: the specification re-verifies membership)

func (c *c06Ctx) buildDomains() {
	ty := c.top
	m := func(z reflect.Value, name string, args ...reflect.Value) reflect.Value {
		method(z, name).Call(args)
		return z
	}
	has := func(name string) bool { return reflect.New(ty).MethodByName(name).IsValid() }
	easy := func(x reflect.Value) reflect.Value {
		// x^((p^(n/2)-1)(p^(n/6)+1))
		a := m(reflect.New(ty), "Conjugate", x)
		b := m(reflect.New(ty), "Inverse", x)
		a = m(a, "Mul", a, b)
		fr := reflect.New(ty)
		switch {
		case has("FrobeniusQuad"):
			m(fr, "FrobeniusQuad", a)
		case has("FrobeniusSquare"):
			m(fr, "FrobeniusSquare", a)
		default:
			m(fr, "Frobenius", a)
		}
		return m(fr, "Mul", fr, a)
	}
	one := c.konst(ty, 1)
	c.cyc = []reflect.Value{one}
	n := 3
	if c.tier == "thorough" {
		n = 6
	}
	for i := 0; i < n; i++ {
		c.cyc = append(c.cyc, easy(c.rnd(ty)))
	}
	// cyclotomic elements with a vanishing middle coordinate (degenerate branches of the Karabina decompression)
	coords := []int{3, 5}
	if c.tier == "thorough" {
		coords = []int{3, 5, 3, 5, 3} // (g1, g2, g4 vanish on no element but 1: no roots exist)
	}
	for _, co := range coords {
		if w, ok := c.cycloWitness(co); ok {
			c.cyc = append(c.cyc, w)
			c.nwit++
		}
	}
	// GT: pairings of multiples of the generators
	c.gt = []reflect.Value{one}
	g1 := c.curve.Group("G1")
	g2 := c.curve.Group("G2")
	ng := 2
	if c.tier == "thorough" {
		ng = 4
	}
	for i := 0; i < ng; i++ {
		a, b := c.rng.Below(c.rOrder), c.rng.Below(c.rOrder)
		if i == 0 {
			a, b = big.NewInt(1), big.NewInt(1)
		}
		P := g1.MulGen(a)
		Q := g2.MulGen(b)
		ps := reflect.MakeSlice(reflect.SliceOf(g1.AffT), 1, 1)
		qs := reflect.MakeSlice(reflect.SliceOf(g2.AffT), 1, 1)
		ps.Index(0).Set(P.Elem())
		qs.Index(0).Set(Q.Elem())
		out := c.curve.Funcs["Pair"].Call([]reflect.Value{ps, qs})
		if !out[1].IsNil() {
			fatal("Pair: %v", out[1].Interface())
		}
		g := reflect.New(ty)
		g.Elem().Set(out[0])
		c.gt = append(c.gt, g)
	}
}

// ---------------------------------------------------------------------------------------

func (c *c06Ctx) driveType(ty reflect.Type) {
	p := reflect.New(ty)
	pt := p.Type()
	for i := 0; i < pt.NumMethod(); i++ {
		op := pt.Method(i).Name
		full := ty.Name() + "." + op
		if c06Skipped[op] {
			c.uncovered[full+" (codec/random/string: other properties)"] = true
			continue
		}
		sp, ok := c06Methods[op]
		if !ok {
			if c06NRPower.MatchString(op) {
				sp = c06Spec{costK: 30}
			} else {
				c.uncovered[full] = true
				continue
			}
		}
		if sp.dom != "" && ty != c.top {
			sp.dom = ""
		}
		switch sp.custom {
		case "":
			c.driveGeneric(ty, op, sp)
		case "exp":
			c.driveExp(ty, op, sp)
		case "select":
			c.driveSelect(ty, op, sp)
		case "const":
			c.driveConst(ty, op, sp)
		case "legendre", "sqrt":
			c.driveLegendreSqrt(ty, op, sp)
		case "subgroup":
			c.driveSubgroup(ty, op, sp)
		case "karabina":
			c.driveKarabina(ty, sp)
		case "torus":
			c.driveTorus(ty, sp)
		case "skip-handled-by-torus":
		}
		c.rollover()
	}
}

func (c *c06Ctx) run() {
	c.openShard()
	if c.kind == "curve" {
		c.buildDomains()
	}
	for _, tn := range c.tnames {
		c.driveType(c.types[tn])
	}
	c.driveFuncs()
	c.total += c.t.Close()
}

func c06NewCtx(name, kind string, base *Field, types map[string]reflect.Type, out, tier string, seed uint64, budget float64) *c06Ctx {
	c := &c06Ctx{name: name, kind: kind, base: base, types: map[string]reflect.Type{}, lvl: map[reflect.Type]int{}, fn: map[string]reflect.Value{},
		out: out, tier: tier, seed: seed, budget: budget, uncovered: map[string]bool{}, covered: map[string]int{}, pools: map[reflect.Type][]reflect.Value{}}
	h := uint64(0)
	for _, ch := range name {
		h = h*131 + uint64(ch)
	}
	c.rng = newRng(seed*104729 + h)
	c.maxBytes = 8 << 20
	if tier == "thorough" {
		c.maxBytes = 24 << 20
	}
	seen := map[reflect.Type]bool{}
	// tower types: the exported aliases (E2, ..., GT) and every nested coordinate type (bls24-317 only exports GT)
	var walk func(t reflect.Type)
	walk = func(t reflect.Type) {
		if isElem(t) || t.Kind() != reflect.Struct || seen[t] || !regexp.MustCompile(`^E\d+$`).MatchString(t.Name()) {
			return
		}
		seen[t] = true
		c.types[t.Name()] = t
		c.tnames = append(c.tnames, t.Name())
		for i := 0; i < t.NumField(); i++ {
			walk(t.Field(i).Type)
		}
	}
	for n, t := range types {
		if n == "GT" || regexp.MustCompile(`^E\d+$`).MatchString(n) {
			walk(t)
		}
	}
	sort.Slice(c.tnames, func(i, j int) bool { return c.level(c.types[c.tnames[i]]) < c.level(c.types[c.tnames[j]]) })
	if len(c.tnames) == 0 {
		fatal("no tower types for %s: %v", name, types)
	}
	c.top = c.types[c.tnames[len(c.tnames)-1]]
	return c
}

func runC06(args []string) {
	fs := flag.NewFlagSet("c06", flag.ExitOnError)
	out := fs.String("out", ".", "output directory")
	seed := fs.Uint64("seed", 1, "seed")
	tier := fs.String("tier", "quick", "quick|thorough")
	only := fs.String("only", "", "comma separated contexts (curve or small-field names; default all)")
	budget := fs.Float64("budget", 0, "estimated validation cost per shard in ms (default by tier)")
	fs.Parse(args)
	if *budget == 0 {
		// cost units are ~0.3 ms of TLC time; a JVM costs ~7 s of CPU to start, so shards are kept large
		*budget = 100000
		if *tier == "thorough" {
			*budget = 400000
		}
	}
	want := map[string]bool{}
	if *only != "" {
		for _, n := range strings.Split(*only, ",") {
			want[n] = true
		}
	}
	total := 0
	var files []string
	unc := map[string]bool{}
	cov := map[string]int{}
	var ctxs []*c06Ctx
	for _, name := range curveNames {
		cv := curves[name]
		if _, ok := cv.Funcs["Pair"]; !ok {
			continue
		}
		if len(want) > 0 && !want[name] {
			continue
		}
		c := c06NewCtx(name, "curve", cv.Fp, cv.Types, *out, *tier, *seed, *budget)
		c.curve = cv
		c.rOrder = cv.Fr.Q
		for k, f := range c06Shims[name] {
			c.fn[k] = reflect.ValueOf(f)
		}
		ctxs = append(ctxs, c)
	}
	var snames []string
	for n := range c06Small {
		snames = append(snames, n)
	}
	sort.Strings(snames)
	for _, name := range snames {
		if len(want) > 0 && !want[name] {
			continue
		}
		reg := c06Small[name]
		c := c06NewCtx(name, "small", fields[name], reg.Types, *out, *tier, *seed, *budget)
		for k, f := range reg.Funcs {
			c.fn[k] = reflect.ValueOf(f)
		}
		ctxs = append(ctxs, c)
	}
	for _, c := range ctxs {
		c.run()
		total += c.total
		files = append(files, c.files...)
		for k := range c.uncovered {
			unc[c.name+": "+k] = true
		}
		for k, v := range c.covered {
			cov[k] += v
		}
	}
	var ul []string
	for k := range unc {
		ul = append(ul, k)
	}
	sort.Strings(ul)
	for _, u := range ul {
		fmt.Println("UNCOVERED " + u)
	}
	var cl []string
	for k, v := range cov {
		cl = append(cl, fmt.Sprintf("%s=%d", k, v))
	}
	sort.Strings(cl)
	fmt.Println("OPS " + strings.Join(cl, " "))
	nw := 0
	for _, c := range ctxs {
		nw += c.nwit
	}
	fmt.Printf("WITNESSES %d\n", nw)
	fmt.Printf("c06: %d events in %d traces\n", total, len(files))
}
