package main

// `harness params` prints spec/params/FieldParams.tla. It was run ONCE on the pinned tree and the
// output committed; checks never regenerate it (a changed constant in the tree must disagree with
// the frozen specification, not move it). TLC re-validates the records (primality etc.).

import (
	"fmt"
	"strings"
)

func tlaDigits(d []int) string {
	s := make([]string, len(d))
	for i, v := range d {
		s[i] = fmt.Sprint(v)
	}
	return "<<" + strings.Join(s, ", ") + ">>"
}

func init() { register("params", runParams) }

func runParams(args []string) {
	fmt.Println("---------------------------- MODULE FieldParams ----------------------------")
	fmt.Println("(* Frozen parameters of the 23 prime fields: modulus q (BigNat digits), word size and   *)")
	fmt.Println("(* number of limbs of the Montgomery representation (R = 2^(w*n)), byte length.        *)")
	fmt.Println("(* Generated once by `harness params` from the pinned tree; validated by ParamsCheck.  *)")
	fmt.Println("FieldNames == {" + func() string {
		q := make([]string, len(fieldNames))
		for i, n := range fieldNames {
			q[i] = `"` + n + `"`
		}
		return strings.Join(q, ", ")
	}() + "}")
	fmt.Println("FieldP(name) ==")
	fmt.Println("  CASE")
	for i, n := range fieldNames {
		f := fields[n]
		sep := "  [] "
		if i == 0 {
			sep = "     "
		}
		fmt.Printf("%sname = \"%s\" -> [q |-> %s, w |-> %d, n |-> %d, bytes |-> %d, bits |-> %d]\n", sep, n, tlaDigits(digits(f.Q)), f.WBits, f.Limbs, f.NBytes, f.Q.BitLen())
	}
	fmt.Println("=============================================================================")
}
