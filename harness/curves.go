package main

// Reflective access to the curve packages: generic raw encoder (field elements -> digit arrays,
// tower elements -> nested arrays, points -> objects with their coordinate names), point builders.

import (
	"math/big"
	"reflect"
	"sort"
	"strings"
)

type Curve struct {
	Name   string
	Funcs  map[string]reflect.Value
	Types  map[string]reflect.Type
	Shim   map[string]any
	MsmCs  []int // window sizes implemented by the curve's MSM (frozen at registry generation)
	Fp, Fr *Field
}

var curves = map[string]*Curve{}
var curveNames []string

func registerCurve(c *Curve) {
	curves[c.Name] = c
	curveNames = append(curveNames, c.Name)
	sort.Strings(curveNames)
}

// linkRegistries resolves cross references once every init() has run.
func linkRegistries() {
	for _, c := range curves {
		c.Fp = fields[c.Name+"/fp"]
		c.Fr = fields[c.Name+"/fr"]
	}
}

func (c *Curve) HasG2() bool { _, ok := c.Types["G2Affine"]; return ok }

func (c *Curve) shim(name string) reflect.Value {
	f, ok := c.Shim[name]
	if !ok {
		return reflect.Value{}
	}
	return reflect.ValueOf(f)
}

// isElem reports whether t is a prime-field element type ([N]uint64 / [1]uint32).
func isElem(t reflect.Type) bool {
	return t.Kind() == reflect.Array && (t.Elem().Kind() == reflect.Uint64 || t.Elem().Kind() == reflect.Uint32)
}

func rawOfElem(a reflect.Value) *big.Int {
	x := new(big.Int)
	w := uint(a.Type().Elem().Bits())
	for i := a.Len() - 1; i >= 0; i-- {
		x.Lsh(x, w).Or(x, new(big.Int).SetUint64(a.Index(i).Uint()))
	}
	return x
}

func isPointStruct(t reflect.Type) bool {
	n := t.Name()
	return strings.HasPrefix(n, "G1") || strings.HasPrefix(n, "G2") || strings.HasPrefix(n, "g1") || strings.HasPrefix(n, "g2") ||
		strings.HasPrefix(n, "Point")
}

// enc walks any gnark-crypto value and returns its raw JSON form.
func enc(v reflect.Value) any {
	for v.Kind() == reflect.Ptr || v.Kind() == reflect.Interface {
		v = v.Elem()
	}
	t := v.Type()
	switch {
	case t.Kind() == reflect.String:
		return v.String()
	case t.Kind() == reflect.Slice && t.Elem().Kind() == reflect.Uint8:
		return bytesToInts(v.Bytes())
	case isElem(t):
		return digits(rawOfElem(v))
	case t.Kind() == reflect.Struct:
		if isPointStruct(t) {
			m := map[string]any{}
			for i := 0; i < t.NumField(); i++ {
				m[strings.ToUpper(t.Field(i).Name)] = enc(v.Field(i))
			}
			return m
		}
		out := make([]any, t.NumField())
		for i := range out {
			out[i] = enc(v.Field(i))
		}
		return out
	case t.Kind() == reflect.Slice || t.Kind() == reflect.Array:
		out := make([]any, v.Len())
		for i := range out {
			out[i] = enc(v.Index(i))
		}
		return out
	case t.Kind() == reflect.Bool:
		return v.Bool()
	case t.Kind() == reflect.Int || t.Kind() == reflect.Int64:
		return int(v.Int())
	case t.Kind() == reflect.Uint64 || t.Kind() == reflect.Uint32 || t.Kind() == reflect.Uint8 || t.Kind() == reflect.Uint:
		return digits(new(big.Int).SetUint64(v.Uint()))
	}
	fatal("enc: unsupported type %s", t)
	return nil
}

// deep copy of a struct value behind a pointer
func clonePtr(p reflect.Value) reflect.Value {
	n := reflect.New(p.Elem().Type())
	n.Elem().Set(p.Elem())
	return n
}

// group describes one group (G1 or G2) of a curve for the generic drivers.
type Group struct {
	C        *Curve
	G        string // "G1" or "G2"
	AffT     reflect.Type
	JacT     reflect.Type
	ExtT     reflect.Type // g1JacExtended (may be nil when no shim)
	CoordT   reflect.Type // type of a coordinate (fp.Element, E2, E4)
	GenAff   reflect.Value
	GenJac   reflect.Value
	lower    string
	bCoeff   reflect.Value // *Coord: y^2 - x^3 - a x at the generator (input construction only)
	aIsZero  bool
}

func (c *Curve) Group(g string) *Group {
	gr := &Group{C: c, G: g, lower: strings.ToLower(g)}
	gr.AffT = c.Types[g+"Affine"]
	gr.JacT = c.Types[g+"Jac"]
	if gr.AffT == nil {
		return nil
	}
	if nf := c.shim("new." + gr.lower + "JacExtended"); nf.IsValid() {
		gr.ExtT = nf.Call(nil)[0].Elem().Type()
	}
	gr.CoordT = gr.AffT.Field(0).Type
	gens := c.Funcs["Generators"].Call(nil)
	// Generators() returns (g1Jac, g2Jac, g1Aff, g2Aff) on pairing curves, (g1Jac, g1Aff) otherwise
	for _, o := range gens {
		if o.Type() == gr.AffT {
			gr.GenAff = reflect.New(gr.AffT)
			gr.GenAff.Elem().Set(o)
		}
		if o.Type() == gr.JacT {
			gr.GenJac = reflect.New(gr.JacT)
			gr.GenJac.Elem().Set(o)
		}
	}
	return gr
}

func (g *Group) NewAff() reflect.Value { return reflect.New(g.AffT) }
func (g *Group) NewJac() reflect.Value { return reflect.New(g.JacT) }
func (g *Group) NewExt() reflect.Value { return reflect.New(g.ExtT) }

// coordinate arithmetic through the coordinate type's own methods (input construction only)
func coordCall(z reflect.Value, name string, args ...reflect.Value) reflect.Value {
	method(z, name).Call(args)
	return z
}

// MulAff returns [k]G as affine, computed by the library (input construction).
func (g *Group) MulGen(k *big.Int) reflect.Value {
	p := g.NewAff()
	method(p, "ScalarMultiplication").Call([]reflect.Value{g.GenAff, reflect.ValueOf(k)})
	return p
}

func (g *Group) ToJac(a reflect.Value) reflect.Value {
	j := g.NewJac()
	method(j, "FromAffine").Call([]reflect.Value{a})
	return j
}

// Rescale multiplies a Jacobian representative by lambda: (l^2 X, l^3 Y, l Z).
func (g *Group) RescaleJac(j reflect.Value, lam reflect.Value) reflect.Value {
	out := clonePtr(j)
	l2 := reflect.New(g.CoordT)
	l3 := reflect.New(g.CoordT)
	coordCall(l2, "Square", lam)
	coordCall(l3, "Mul", l2, lam)
	X, Y, Z := out.Elem().Field(0).Addr(), out.Elem().Field(1).Addr(), out.Elem().Field(2).Addr()
	coordCall(X, "Mul", X, l2)
	coordCall(Y, "Mul", Y, l3)
	coordCall(Z, "Mul", Z, lam)
	return out
}

// randCoord fills a coordinate with random canonical leaves.
func (g *Group) RandCoord(r *Rng) reflect.Value {
	z := reflect.New(g.CoordT)
	var fill func(v reflect.Value)
	fill = func(v reflect.Value) {
		if isElem(v.Type()) {
			g.C.Fp.SetRaw(v.Addr(), r.Below(g.C.Fp.Q))
			return
		}
		for i := 0; i < v.NumField(); i++ {
			fill(v.Field(i))
		}
	}
	fill(z.Elem())
	return z
}

// ToExt converts an affine point into extended Jacobian coordinates (X, Y, ZZ=1, ZZZ=1) or infinity.
func (g *Group) ToExt(a reflect.Value) reflect.Value {
	e := g.NewExt()
	// the zero value (ZZ = 0) is the point at infinity
	if method(a, "IsInfinity").Call(nil)[0].Bool() {
		return e
	}
	g.C.shim(g.lower + "JacExtended.addMixed").Call([]reflect.Value{e, a})
	return e
}

// RescaleExt: (X l^2, Y l^3, ZZ l^2, ZZZ l^3)
func (g *Group) RescaleExt(e reflect.Value, lam reflect.Value) reflect.Value {
	out := clonePtr(e)
	l2 := reflect.New(g.CoordT)
	l3 := reflect.New(g.CoordT)
	coordCall(l2, "Square", lam)
	coordCall(l3, "Mul", l2, lam)
	X, Y, ZZ, ZZZ := out.Elem().Field(0).Addr(), out.Elem().Field(1).Addr(), out.Elem().Field(2).Addr(), out.Elem().Field(3).Addr()
	coordCall(X, "Mul", X, l2)
	coordCall(Y, "Mul", Y, l3)
	coordCall(ZZ, "Mul", ZZ, l2)
	coordCall(ZZZ, "Mul", ZZZ, l3)
	return out
}

// curveB returns b (or the twist coefficient) as y^2 - x^3 - a*x at the generator, through the
// coordinate type's methods.
func (g *Group) curveRHS(x reflect.Value) reflect.Value {
	// b = yG^2 - xG^3 (- xG when a = 1: stark-curve)
	gx, gy := g.GenAff.Elem().Field(0).Addr(), g.GenAff.Elem().Field(1).Addr()
	b := reflect.New(g.CoordT)
	t := reflect.New(g.CoordT)
	coordCall(b, "Square", gy)
	coordCall(t, "Square", gx)
	coordCall(t, "Mul", t, gx)
	coordCall(b, "Sub", b, t)
	if g.C.Name == "stark-curve" {
		coordCall(b, "Sub", b, gx)
	}
	rhs := reflect.New(g.CoordT)
	coordCall(rhs, "Square", x)
	coordCall(rhs, "Mul", rhs, x)
	if g.C.Name == "stark-curve" {
		coordCall(rhs, "Add", rhs, x)
	}
	coordCall(rhs, "Add", rhs, b)
	return rhs
}

// RandOnCurve returns a random affine point of the curve (not necessarily in the subgroup).
func (g *Group) RandOnCurve(r *Rng) reflect.Value {
	for {
		x := g.RandCoord(r)
		rhs := g.curveRHS(x)
		if method(rhs, "Legendre").Call(nil)[0].Int() != 1 {
			continue
		}
		y := reflect.New(g.CoordT)
		method(y, "Sqrt").Call([]reflect.Value{rhs})
		p := g.NewAff()
		p.Elem().Field(0).Set(x.Elem())
		p.Elem().Field(1).Set(y.Elem())
		return p
	}
}
