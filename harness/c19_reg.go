package main

// C19: packages that the shared registries (reg_gen.go, reg_curves_gen.go, reg_edwards_gen.go) do not
// list: the polynomial packages of the scalar fields and the small-field extension towers.

import (
	"reflect"

	p_bls12377 "github.com/consensys/gnark-crypto/ecc/bls12-377/fr/polynomial"
	p_bls12381 "github.com/consensys/gnark-crypto/ecc/bls12-381/fr/polynomial"
	p_bls24315 "github.com/consensys/gnark-crypto/ecc/bls24-315/fr/polynomial"
	p_bls24317 "github.com/consensys/gnark-crypto/ecc/bls24-317/fr/polynomial"
	p_bn254 "github.com/consensys/gnark-crypto/ecc/bn254/fr/polynomial"
	p_bw6633 "github.com/consensys/gnark-crypto/ecc/bw6-633/fr/polynomial"
	p_bw6761 "github.com/consensys/gnark-crypto/ecc/bw6-761/fr/polynomial"
	p_grumpkin "github.com/consensys/gnark-crypto/ecc/grumpkin/fr/polynomial"
	x_babybear "github.com/consensys/gnark-crypto/field/babybear/extensions"
	x_goldilocks "github.com/consensys/gnark-crypto/field/goldilocks/extensions"
	x_koalabear "github.com/consensys/gnark-crypto/field/koalabear/extensions"

	c19_bw6761 "github.com/consensys/gnark-crypto/ecc/bw6-761"
	"github.com/consensys/gnark-crypto/field/eisenstein"
)

// internal tower types that no exported alias reaches (exposed by hooks/ecc/<curve>/verif_c19.go)
var c19InternalTypes = map[string]map[string]reflect.Type{
	"bw6-761": c19_bw6761.VerifC19Types,
}

// arbitrary-precision rings living next to the fields
var c19BigRings = map[string]reflect.Type{
	"eisenstein": reflect.TypeOf(eisenstein.ComplexNumber{}),
}

// c19PolyPkg: the exported types of one ecc/<curve>/fr/polynomial package.
type c19PolyPkg struct {
	Field string // name of the coefficient field in the field registry
	Types map[string]reflect.Type
}

var c19Polys = map[string]*c19PolyPkg{
	"bls12-377": {"bls12-377/fr", map[string]reflect.Type{"Polynomial": reflect.TypeOf(p_bls12377.Polynomial{}), "MultiLin": reflect.TypeOf(p_bls12377.MultiLin{})}},
	"bls12-381": {"bls12-381/fr", map[string]reflect.Type{"Polynomial": reflect.TypeOf(p_bls12381.Polynomial{}), "MultiLin": reflect.TypeOf(p_bls12381.MultiLin{})}},
	"bls24-315": {"bls24-315/fr", map[string]reflect.Type{"Polynomial": reflect.TypeOf(p_bls24315.Polynomial{}), "MultiLin": reflect.TypeOf(p_bls24315.MultiLin{})}},
	"bls24-317": {"bls24-317/fr", map[string]reflect.Type{"Polynomial": reflect.TypeOf(p_bls24317.Polynomial{}), "MultiLin": reflect.TypeOf(p_bls24317.MultiLin{})}},
	"bn254":     {"bn254/fr", map[string]reflect.Type{"Polynomial": reflect.TypeOf(p_bn254.Polynomial{}), "MultiLin": reflect.TypeOf(p_bn254.MultiLin{})}},
	"bw6-633":   {"bw6-633/fr", map[string]reflect.Type{"Polynomial": reflect.TypeOf(p_bw6633.Polynomial{}), "MultiLin": reflect.TypeOf(p_bw6633.MultiLin{})}},
	"bw6-761":   {"bw6-761/fr", map[string]reflect.Type{"Polynomial": reflect.TypeOf(p_bw6761.Polynomial{}), "MultiLin": reflect.TypeOf(p_bw6761.MultiLin{})}},
	"grumpkin":  {"grumpkin/fr", map[string]reflect.Type{"Polynomial": reflect.TypeOf(p_grumpkin.Polynomial{}), "MultiLin": reflect.TypeOf(p_grumpkin.MultiLin{})}},
}

// c19ExtPkg: the extension tower of a small field (field/<name>/extensions).
type c19ExtPkg struct {
	Field string
	Types map[string]reflect.Type
}

var c19Exts = map[string]*c19ExtPkg{
	"babybear":   {"babybear", map[string]reflect.Type{"E2": reflect.TypeOf(x_babybear.E2{}), "E4": reflect.TypeOf(x_babybear.E4{})}},
	"goldilocks": {"goldilocks", map[string]reflect.Type{"E2": reflect.TypeOf(x_goldilocks.E2{})}},
	"koalabear":  {"koalabear", map[string]reflect.Type{"E2": reflect.TypeOf(x_koalabear.E2{}), "E4": reflect.TypeOf(x_koalabear.E4{})}},
}
