package main

// C09 driver for the babybear-specific kernels (E4 extension, FFT kernels, Poseidon2, ring-SIS).
// c09_babybear.go is GENERATED from c09_koalabear.go by tools/gen_c09.sh. DO NOT EDIT.

import (
	"math/big"
	"reflect"

	babybear "github.com/consensys/gnark-crypto/field/babybear"
	babybearext "github.com/consensys/gnark-crypto/field/babybear/extensions"
	babybearfft "github.com/consensys/gnark-crypto/field/babybear/fft"
	babybearp2 "github.com/consensys/gnark-crypto/field/babybear/poseidon2"
	babybearsis "github.com/consensys/gnark-crypto/field/babybear/sis"
)

func init() { c09Small["babybear"] = c09Babybear }

func c09Babybear(t *TraceWriter, r *Rng, tier string) {
	q := babybear.Modulus()
	rnd := func() babybear.Element {
		var e babybear.Element
		e.SetBigInt(r.Below(q))
		return e
	}
	special := []uint64{0, 1, 2, q.Uint64() - 1, q.Uint64() - 2, (q.Uint64() - 1) / 2, 1 << 30, 1<<31 - 1}
	elem := func(i int) babybear.Element {
		if i < len(special) {
			var e babybear.Element
			e.SetUint64(special[i] % q.Uint64())
			return e
		}
		return rnd()
	}
	emit := func(op string, in any, f func() any) {
		e := Ev{"op": op, "in": in}
		func() {
			defer func() {
				if rec := recover(); rec != nil {
					e["panic"] = true
				}
			}()
			e["out"] = f()
		}()
		t.Emit(e)
	}
	// ---- E4: every binary / unary method through reflection
	e4T := reflect.TypeOf(babybearext.E4{})
	mkE4 := func(k int) reflect.Value {
		p := reflect.New(e4T)
		z := p.Interface().(*babybearext.E4)
		z.B0.A0, z.B0.A1, z.B1.A0, z.B1.A1 = elem(k), elem(k+3), elem(k+5), elem(k+11)
		if k%4 == 1 {
			z.B1.A0.SetZero()
			z.B1.A1.SetZero()
		}
		return p
	}
	for k := 0; k < 14; k++ {
		for j := 0; j < 3; j++ {
			x, y := mkE4(k), mkE4(k*3+j)
			for _, name := range []string{"Add", "Sub", "Mul", "Div"} {
				z := reflect.New(e4T)
				emit("E4."+name, []any{enc(x), enc(y)}, func() any { method(z, name).Call([]reflect.Value{x, y}); return enc(z) })
			}
		}
		x := mkE4(k)
		for _, name := range []string{"Square", "Double", "Neg", "Inverse", "Conjugate", "MulByNonResidue"} {
			z := reflect.New(e4T)
			emit("E4."+name, []any{enc(x)}, func() any { method(z, name).Call([]reflect.Value{x}); return enc(z) })
		}
		sc := elem(k + 1)
		z := reflect.New(e4T)
		emit("E4.MulByElement", []any{enc(x), enc(reflect.ValueOf(&sc))}, func() any {
			z.Interface().(*babybearext.E4).MulByElement(x.Interface().(*babybearext.E4), &sc)
			return enc(z)
		})
		emit("E4.Legendre", []any{enc(x)}, func() any { return x.Interface().(*babybearext.E4).Legendre() })
		emit("E4.Exp", []any{enc(x), k}, func() any {
			var o babybearext.E4
			o.Exp(*x.Interface().(*babybearext.E4), big.NewInt(int64(k*k+3)))
			return enc(reflect.ValueOf(&o))
		})
	}
	// ---- MulAccE4 and BatchInvertE4 for every length (AVX-512 path needs N % 4 == 0)
	for n := 0; n <= 40; n++ {
		alpha := mkE4(n).Interface().(*babybearext.E4)
		scale := make([]babybear.Element, n)
		res := make([]babybearext.E4, n)
		for i := range scale {
			scale[i] = elem(i + n)
			res[i] = *mkE4(i * 7).Interface().(*babybearext.E4)
		}
		emit("MulAccE4", []any{enc(reflect.ValueOf(alpha)), enc(reflect.ValueOf(scale)), enc(reflect.ValueOf(res))}, func() any {
			babybearext.MulAccE4(alpha, scale, res)
			return enc(reflect.ValueOf(res))
		})
		in := make([]babybearext.E4, n)
		for i := range in {
			in[i] = *mkE4(i + 2*n).Interface().(*babybearext.E4)
			if i%5 == 4 {
				in[i] = babybearext.E4{}
			}
		}
		emit("BatchInvertE4", []any{enc(reflect.ValueOf(in))}, func() any { return enc(reflect.ValueOf(babybearext.BatchInvertE4(in))) })
	}
	emit("MulAccE4", []any{"mismatch"}, func() any {
		babybearext.MulAccE4(mkE4(1).Interface().(*babybearext.E4), make([]babybear.Element, 4), make([]babybearext.E4, 8))
		return 0
	})
	// ---- FFT kernels: every size up to 2^11 (crosses the 32/256-point kernels), both decimations, coset, tasks
	maxLog := 11
	if tier == "thorough" {
		maxLog = 15
	}
	for lg := 0; lg <= maxLog; lg++ {
		n := 1 << lg
		d := babybearfft.NewDomain(uint64(n))
		for v := 0; v < 4; v++ {
			// a window into a larger array at an offset that moves with the size and the variant (a fresh allocation is
			// 64-byte aligned, a window is not: the vector kernels must not assume alignment)
			off := (lg + v) % 4
			a := make([]babybear.Element, n+off+3)[off : off+n]
			for i := range a {
				a[i] = elem((i*7 + v) % 23)
			}
			dec := babybearfft.DIF
			if v%2 == 1 {
				dec = babybearfft.DIT
			}
			var opts []babybearfft.Option
			if v >= 2 {
				opts = append(opts, babybearfft.OnCoset())
			}
			opts = append(opts, babybearfft.WithNbTasks([]int{1, 2, 4, 16}[(lg+v)%4]))
			digest := func(x []babybear.Element) any {
				// log the whole vector for small sizes, a strided sample plus the sum otherwise
				if len(x) <= 64 {
					return enc(reflect.ValueOf(x))
				}
				var s babybear.Element
				smp := []babybear.Element{}
				for i := range x {
					s.Add(&s, &x[i])
					if i%(len(x)/32) == 0 {
						smp = append(smp, x[i])
					}
				}
				smp = append(smp, s)
				return enc(reflect.ValueOf(smp))
			}
			emit("FFT", []any{lg, v}, func() any { d.FFT(a, dec, opts...); return digest(a) })
			emit("FFTInverse", []any{lg, v}, func() any { d.FFTInverse(a, dec, opts...); return digest(a) })
		}
	}
	// ---- Poseidon2 permutations (widths with AVX-512 kernels: 16 and 24) and the 16x24 batch. Round numbers: the defaults of
	// both small fields (this file also generates the babybear driver), their neighbours, and other splits of the same total
	// number of rounds (a dispatch that looks at the number of round keys only cannot tell these from the default).
	p2Rounds := [][2]int{{6, 21}, {8, 13}, {8, 21}, {6, 22}, {6, 20}, {8, 19}, {4, 23}, {8, 14}, {8, 12}, {6, 15}, {10, 11}, {6, 23}, {10, 19}}
	for _, w := range []int{16, 24} {
		for ri, rr := range p2Rounds {
			rf, rp := rr[0], rr[1]
			p := babybearp2.NewPermutation(w, rf, rp)
			nin := 12
			if ri > 2 {
				nin = 3
			}
			for k := 0; k < nin; k++ {
				in := make([]babybear.Element, w)
				for i := range in {
					in[i] = elem((i + k*5) % 29)
				}
				emit("Poseidon2.Permutation", []any{w, rf, rp, enc(reflect.ValueOf(in))}, func() any {
					if err := p.Permutation(in); err != nil {
						return "err"
					}
					return enc(reflect.ValueOf(in))
				})
			}
		}
	}
	for _, rr := range [][2]int{{6, 21}, {8, 13}, {8, 19}, {6, 15}} {
		p := babybearp2.NewPermutation(16, rr[0], rr[1])
		var batch [24][16]babybear.Element
		for i := range batch {
			for j := range batch[i] {
				batch[i][j] = elem((i*16 + j) % 31)
			}
		}
		emit("Poseidon2.Permutation16x24", []any{"batch", rr[0], rr[1]}, func() any {
			p.Permutation16x24(&batch)
			return enc(reflect.ValueOf(batch[:]))
		})
	}
	// ---- ring-SIS (degree 512 / 16-bit limbs has an AVX-512 kernel)
	type sisCase struct{ logDeg, logBound, n int }
	cases := []sisCase{{2, 8, 5}, {5, 8, 20}, {6, 16, 64}, {9, 16, 100}}
	if tier == "thorough" {
		cases = append(cases, sisCase{9, 16, 1200}, sisCase{9, 8, 300}, sisCase{8, 16, 256})
	}
	for _, c := range cases {
		s, err := babybearsis.NewRSis(5, c.logDeg, c.logBound, c.n)
		if err != nil {
			continue
		}
		for _, n := range []int{1, c.n / 2, c.n} {
			v := make([]babybear.Element, n)
			for i := range v {
				v[i] = elem((i*3 + n) % 37)
			}
			res := make([]babybear.Element, 1<<c.logDeg)
			for i := range res {
				res[i] = elem(i*7 + 3) // a destination that holds other values: the digest must not depend on them
			}
			emit("SIS.Hash", []any{c.logDeg, c.logBound, n}, func() any {
				if err := s.Hash(v, res); err != nil {
					return "err"
				}
				return enc(reflect.ValueOf(res))
			})
		}
	}
}
