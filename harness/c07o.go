package main

// C07, structured objects serialised through the stream codec: Pedersen proving / verifying keys, KZG proving keys and
// opening proofs, SHPLONK and fflonk opening proofs. Their WriteTo / WriteRawTo / ReadFrom / UnsafeReadFrom are thin
// sequences of Encode / Decode calls, so an object is, on the wire, the concatenation of the encodings of its items in
// declaration order. The events are self-contained:
//
//	ObjWrite {kind, fn, raw, items: [{ty, val}], out, n, err?, werr?}
//	ObjRead  {kind, fn, sg, tys, wire, chunk, vals?, n, used, err?, eqlen}
//
// spec/C07_codec/TraceCodec judges ObjWrite by SerItem over the items and ObjRead by ParseItem over the types (the same
// operators that judge Encode / Decode), plus the one structural rule the code documents (a Pedersen proving key whose
// two bases differ in length is refused).
//
// The typed constructors come from c07o_bn254.go and its generated copies (tools/c07ogen.py).

import (
	"io"
	"reflect"
)

type c07ObjKind struct {
	name    string
	tys     []string // item types in wire order
	eqlen   bool     // items 1 and 2 must have the same length (ReadFrom reports an error otherwise)
	build   func(items []reflect.Value) any
	items   func(obj any) []reflect.Value
	fresh   func() any
	writers map[string]func(obj any, w io.Writer) (int64, error) // "WriteTo", "WriteRawTo"
	readers map[string]func(obj any, r io.Reader) (int64, error) // "ReadFrom", "UnsafeReadFrom"
}

var c07Objs = map[string][]c07ObjKind{}

func c07ErrString(err error) (string, bool) {
	if err == nil {
		return "", false
	}
	s := err.Error()
	if len(s) > 100 {
		s = s[:100]
	}
	return s, true
}

func (s *c07Streams) objWrite(t *TraceWriter, k *c07ObjKind, fn string, items []reflect.Value, failCall int) []byte {
	its := make([]Ev, len(items))
	for i, v := range items {
		its[i] = Ev{"ty": k.tys[i], "val": c07enc(v)}
	}
	e := Ev{"op": "ObjWrite", "kind": k.name, "fn": fn, "raw": fn == "WriteRawTo", "items": its}
	obj := k.build(items)
	w := &c07Writer{failCall: failCall}
	var n int64
	var err error
	msg, pk := c20try(func() { n, err = k.writers[fn](obj, w) })
	e["out"] = bytesToInts(w.buf)
	if w.refused {
		e["werr"] = true
	}
	if pk {
		e["panic"] = msg
	} else {
		e["n"] = int(n)
		if es, bad := c07ErrString(err); bad {
			e["err"] = es
		}
		after := k.items(obj)
		ia := make([]any, len(after))
		for i, v := range after {
			ia[i] = c07enc(v)
		}
		e["itemsa"] = ia
	}
	t.Emit(e)
	return w.buf
}

func (s *c07Streams) objRead(t *TraceWriter, k *c07ObjKind, fn string, wire []byte, chunk string, used bool) {
	e := Ev{"op": "ObjRead", "kind": k.name, "fn": fn, "sg": fn != "UnsafeReadFrom", "tys": k.tys, "wire": bytesToInts(wire),
		"chunk": chunk, "eqlen": k.eqlen}
	obj := k.fresh()
	if used {
		// a receiver that already holds another object of the kind
		its := make([]reflect.Value, len(k.tys))
		for i, ty := range k.tys {
			its[i] = s.gen(ty, true)
		}
		obj = k.build(its)
	}
	r := c07NewReader(wire, chunk)
	var n int64
	var err error
	msg, pk := c20try(func() { n, err = k.readers[fn](obj, r) })
	e["used"] = r.delivered
	if pk {
		e["panic"] = msg
	} else {
		e["n"] = int(n)
		if es, bad := c07ErrString(err); bad {
			e["err"] = es
		} else {
			vs := k.items(obj)
			va := make([]any, len(vs))
			for i, v := range vs {
				va[i] = c07enc(v)
			}
			e["vals"] = va
		}
	}
	t.Emit(e)
}

func c07RunObjects(out string, c *Curve, seed uint64, tier string) int {
	kinds := c07Objs[c.Name]
	if len(kinds) == 0 {
		return 0
	}
	r := newRng(seed*4513 + uint64(len(c.Name))*59 + uint64(c.Name[len(c.Name)-1])*3)
	s := &c07Streams{c: c, r: r, g: map[string]*c07G{}, encPts: map[string][]reflect.Value{}}
	t := newTrace(out, "c07_st_"+c.Name+"_ob", Ev{"property": "C07", "kind": "st", "curve": c.Name, "seed": int(seed % (1 << 30))})
	for _, gn := range []string{"G1", "G2"} {
		g := c07Group(c, gn, r, 2)
		s.g[gn] = g
		var ps []reflect.Value
		for _, p := range g.pool {
			ps = append(ps, p.p)
		}
		s.encPts[gn] = ps
		g.know(t, ps...)
	}
	reps := 2
	if tier == "thorough" {
		reps = 6
	}
	for ki := range kinds {
		k := &kinds[ki]
		for rep := 0; rep < reps; rep++ {
			items := make([]reflect.Value, len(k.tys))
			for i, ty := range k.tys {
				items[i] = s.gen(ty, len(ty) > 3)
			}
			if k.eqlen && rep%2 == 0 { // a well-formed key: both bases of one length
				for items[1].Len() != items[0].Len() {
					items[1] = s.gen(k.tys[1], false)
				}
			}
			for wi, wfn := range []string{"WriteTo", "WriteRawTo"} {
				if k.writers[wfn] == nil {
					continue
				}
				wire := s.objWrite(t, k, wfn, items, 0)
				// a writer that refuses its k-th Write
				s.objWrite(t, k, wfn, items, 1+(rep+wi)%3)
				for ri, rfn := range []string{"ReadFrom", "UnsafeReadFrom"} {
					if k.readers[rfn] == nil {
						continue
					}
					ch := c07Chunks[(rep+wi+ri+ki)%len(c07Chunks)]
					s.objRead(t, k, rfn, wire, ch, (rep+ri)%2 == 1)
					// truncations: inside the first item, at every item boundary, one byte short of the end
					var sp []c07Span
					off := 0
					cuts := map[int]bool{0: true, 1: true, len(wire) - 1: true}
					for i, ty := range k.tys {
						off = s.spans(ty, items[i], wfn == "WriteRawTo", off, "", &sp)
						cuts[off] = true
						cuts[off-1] = true
						cuts[off+2] = true
					}
					for cut := range cuts {
						if cut >= 0 && cut < len(wire) {
							s.objRead(t, k, rfn, wire[:cut], c07Chunks[(cut+rep)%len(c07Chunks)], false)
						}
					}
					// corrupted leaves: a field element made non-canonical, a length prefix off by one / huge
					for si, span := range sp {
						if (si+rep+ri)%2 == 1 && len(sp) > 4 {
							continue
						}
						w2 := append([]byte{}, wire...)
						switch span.kind {
						case "elem":
							for j := 0; j < span.n; j++ {
								w2[span.off+j] = 0xff
							}
						case "prefix":
							if span.nestedIn == "sg1" || span.nestedIn == "sg2" {
								// a wrong count of points makes the decoder read a "point" from the bytes that follow: whether
								// those bytes denote a point is a question about square roots the trace does not carry a witness for
								continue
							}
							// (no huge counts: the decoders allocate the announced length before reading - resource exhaustion is
							// outside the property, as in the stream driver)
							if (si+rep)%2 == 0 {
								w2[span.off+3]++
							} else {
								if w2[span.off+3] == 0 {
									continue
								}
								w2[span.off+3]--
							}
						default:
							continue
						}
						s.objRead(t, k, rfn, w2, "full", false)
					}
					// trailing bytes after the object stay in the reader
					s.objRead(t, k, rfn, append(append([]byte{}, wire...), 1, 2, 3, 4, 5), "full", false)
				}
			}
		}
	}
	return t.Close()
}
