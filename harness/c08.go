package main

// C08 driver: conversions of field elements and vectors. One event per public entry point call,
// logged at its return (also on the error and panic paths) with raw observations only: Montgomery
// limbs, bytes, character codes, [neg,mag] integers, error strings. The TLA+ specification
// spec/C08_codec/TraceCodec.tla is the judge; nothing is compared here.
//
// Input sources: (i) the classes of the model (MCElemCodec / MCVecCodec) realised at real size:
// integers k*q+d, 2^(8*Bytes)+d, byte strings of every length 0..2*Bytes+1 around the encodings of
// q-1, q, q+1, limb-wise lattices around the modulus, texts on both sides of every grammar rule,
// vectors of every small length with the invalid entry at every position, truncation at every
// structural boundary, all encoder->decoder histories; (ii) seeded random inputs and random
// two-call histories (flag -seed).

import (
	"bytes"
	"encoding/json"
	"errors"
	"flag"
	"fmt"
	"io"
	"math/big"
	"os"
	"os/exec"
	"reflect"
	"strings"
	"testing/iotest"
	"time"

	"github.com/consensys/gnark-crypto/field/pool"
)

type c08m struct {
	f   *Field
	t   *TraceWriter
	rng *Rng
	z   reflect.Value // *Element
	vec reflect.Value // *Vector
	// the wire: what the last encoder returned (fed back by decoders flagged rt)
	wBytes []byte
	wKept  []byte // the very slice MarshalBinary returned (not a copy): it belongs to the caller from then on
	wText  string
	wInt   *big.Int
	wKind  string
	wBase  int
	thorough bool
}

func c08codes(s string) []int { return bytesToInts([]byte(s)) }

func c08errString(v reflect.Value) (string, bool) {
	if v.IsNil() {
		return "", false
	}
	s := c08printable(v.Interface().(error).Error())
	if s == "" {
		s = "(empty error text)"
	}
	return s, true
}

// c08printable keeps error texts short and plain (they may quote arbitrary input bytes).
func c08printable(s string) string {
	if len(s) > 100 {
		s = s[:100]
	}
	b := []byte(s)
	for i, c := range b {
		if c < 32 || c > 126 || c == '"' || c == '\\' {
			b[i] = '?'
		}
	}
	return string(b)
}

func (m *c08m) raw() []int { return digits(m.f.Raw(m.z)) }

// poison puts garbage integers into the shared big.Int pool: no conversion may depend on what a
// pooled integer held before.
func (m *c08m) poison() {
	for i := 0; i < 3; i++ {
		g := m.rng.Big(1 + m.rng.Intn(900))
		if m.rng.Intn(2) == 0 {
			g.Neg(g)
		}
		pool.BigInt.Put(g)
	}
}

func (m *c08m) load(raw *big.Int) {
	m.f.SetRaw(m.z, raw)
	m.t.Emit(Ev{"op": "Load", "out": digits(raw)})
}

func (m *c08m) loadVal(v *big.Int) { m.load(m.f.ToMont(new(big.Int).Mod(v, m.f.Q))) }

// finishSet completes a setter event: error, panic, register afterwards.
func (m *c08m) finishSet(e Ev, errv *reflect.Value, pm string, pk bool, rt bool) {
	if rt {
		e["rt"] = true
	}
	if pk {
		e["panic"] = pm
	} else {
		if errv != nil {
			if s, ok := c08errString(*errv); ok {
				e["err"] = s
			}
		}
		e["out"] = m.raw()
	}
	m.t.Emit(e)
}

func (m *c08m) setUint64(u uint64) {
	e := Ev{"op": "SetUint64", "u": digits(new(big.Int).SetUint64(u))}
	_, pm, pk := call(method(m.z, "SetUint64"), reflect.ValueOf(u))
	m.finishSet(e, nil, pm, pk, false)
}

func (m *c08m) newElement(u uint64) {
	e := Ev{"op": "NewElement", "u": digits(new(big.Int).SetUint64(u))}
	out, pm, pk := call(m.f.Funcs["NewElement"], reflect.ValueOf(u))
	if !pk {
		m.z.Elem().Set(out[0])
	}
	m.finishSet(e, nil, pm, pk, false)
}

func (m *c08m) setInt64(k int64) {
	e := Ev{"op": "SetInt64", "k": zint(big.NewInt(k))}
	_, pm, pk := call(method(m.z, "SetInt64"), reflect.ValueOf(k))
	m.finishSet(e, nil, pm, pk, false)
}

func (m *c08m) setBigInt(k *big.Int, rt bool) {
	arg := new(big.Int).Set(k)
	e := Ev{"op": "SetBigInt", "k": zint(k)}
	_, pm, pk := call(method(m.z, "SetBigInt"), reflect.ValueOf(arg))
	e["kafter"] = zint(arg)
	m.finishSet(e, nil, pm, pk, rt)
}

func (m *c08m) setBytes(op string, b []byte, rt bool) { // SetBytes, Unmarshal
	arg := append(make([]byte, 0, len(b)+8), b...)
	if len(b) == 0 && m.rng.Intn(2) == 0 {
		arg = nil
	}
	e := Ev{"op": op, "b": bytesToInts(b)}
	_, pm, pk := call(method(m.z, op), reflect.ValueOf(arg))
	e["bafter"] = bytesToInts(arg)
	m.finishSet(e, nil, pm, pk, rt)
}

func (m *c08m) setBytesCanonical(b []byte, rt bool) {
	arg := append(make([]byte, 0, len(b)+8), b...)
	e := Ev{"op": "SetBytesCanonical", "b": bytesToInts(b)}
	out, pm, pk := call(method(m.z, "SetBytesCanonical"), reflect.ValueOf(arg))
	e["bafter"] = bytesToInts(arg)
	var ev *reflect.Value
	if !pk {
		ev = &out[0]
	}
	m.finishSet(e, ev, pm, pk, rt)
}

func (m *c08m) byteArray(b []byte) reflect.Value { // *[Bytes]byte
	p := reflect.New(reflect.ArrayOf(m.f.NBytes, reflect.TypeOf(byte(0))))
	reflect.Copy(p.Elem(), reflect.ValueOf(b))
	return p
}

func c08arrayBytes(a reflect.Value) []byte {
	out := make([]byte, a.Len())
	for i := range out {
		out[i] = byte(a.Index(i).Uint())
	}
	return out
}

// endianElement: BigEndian.Element / LittleEndian.Element on a fixed-length array; the returned
// element is stored in the register when no error is reported.
func (m *c08m) endianElement(op string, b []byte, rt bool) {
	order := "BigEndian"
	if op == "LEElement" {
		order = "LittleEndian"
	}
	arr := m.byteArray(b)
	e := Ev{"op": op, "b": bytesToInts(b)}
	out, pm, pk := call(m.f.Funcs[order].MethodByName("Element"), arr)
	e["bafter"] = bytesToInts(c08arrayBytes(arr.Elem()))
	var ev *reflect.Value
	if !pk {
		ev = &out[1]
		if out[1].IsNil() {
			m.z.Elem().Set(out[0])
		}
	}
	m.finishSet(e, ev, pm, pk, rt)
}

func (m *c08m) setString(s string, rt bool) {
	e := Ev{"op": "SetString", "s": c08codes(s)}
	out, pm, pk := call(method(m.z, "SetString"), reflect.ValueOf(s))
	var ev *reflect.Value
	if !pk {
		ev = &out[1]
		e["retnil"] = out[0].IsNil()
	}
	m.finishSet(e, ev, pm, pk, rt)
}

func (m *c08m) unmarshalJSON(s string, rt bool) {
	e := Ev{"op": "UnmarshalJSON", "s": c08codes(s)}
	out, pm, pk := call(method(m.z, "UnmarshalJSON"), reflect.ValueOf([]byte(s)))
	var ev *reflect.Value
	if !pk {
		ev = &out[0]
	}
	m.finishSet(e, ev, pm, pk, rt)
}

// setInterface: v is the dynamic value handed to SetInterface; kind/meta describe it for the spec.
func (m *c08m) setInterface(ty, kind string, v any, meta Ev, rt bool) {
	e := Ev{"op": "SetInterface", "ty": ty, "kind": kind}
	for k, x := range meta {
		e[k] = x
	}
	var arg reflect.Value
	if v == nil {
		arg = reflect.Zero(reflect.TypeOf((*any)(nil)).Elem())
	} else {
		arg = reflect.ValueOf(v)
	}
	out, pm, pk := call(method(m.z, "SetInterface"), arg)
	var ev *reflect.Value
	if !pk {
		ev = &out[1]
		e["retnil"] = out[0].IsNil()
	}
	m.finishSet(e, ev, pm, pk, rt)
}

// ---------------------------------------------------------------------------------------
// observers

func (m *c08m) finishGet(e Ev, pm string, pk bool) {
	if pk {
		e["panic"] = pm
	}
	e["zafter"] = m.raw()
	m.t.Emit(e)
}

func (m *c08m) getBytes(op string) { // Bytes, Marshal, PutBE, PutLE
	e := Ev{"op": op}
	var pm string
	var pk bool
	var out []reflect.Value
	var got []byte
	switch op {
	case "Bytes":
		out, pm, pk = call(method(m.z, "Bytes"))
		if !pk {
			got = c08arrayBytes(out[0])
		}
	case "Marshal":
		out, pm, pk = call(method(m.z, "Marshal"))
		if !pk {
			got = append([]byte{}, out[0].Bytes()...)
		}
	case "PutBE", "PutLE":
		order := "BigEndian"
		if op == "PutLE" {
			order = "LittleEndian"
		}
		arr := m.byteArray(bytes.Repeat([]byte{0xA5}, m.f.NBytes))
		_, pm, pk = call(m.f.Funcs[order].MethodByName("PutElement"), arr, m.z.Elem())
		if !pk {
			got = c08arrayBytes(arr.Elem())
		}
	}
	if !pk {
		e["ret"] = bytesToInts(got)
		m.wBytes, m.wKind = got, "BE"
		if op == "PutLE" {
			m.wKind = "LE"
		}
	}
	m.finishGet(e, pm, pk)
}

func (m *c08m) getBigInt(op string) { // BigInt, ToBigIntRegular
	e := Ev{"op": op}
	res := new(big.Int).Neg(m.rng.Big(1 + m.rng.Intn(700))) // garbage, negative: must be overwritten
	out, pm, pk := call(method(m.z, op), reflect.ValueOf(res))
	if !pk {
		r := out[0].Interface().(*big.Int)
		e["ret"] = zint(r)
		e["same"] = r == res
		m.wInt, m.wKind = new(big.Int).Set(r), "Int"
	}
	m.finishGet(e, pm, pk)
}

func (m *c08m) getBits() {
	e := Ev{"op": "Bits"}
	out, pm, pk := call(method(m.z, "Bits"))
	if !pk {
		a := out[0]
		limbs := make([][]int, a.Len())
		x := new(big.Int)
		for i := a.Len() - 1; i >= 0; i-- {
			limbs[i] = digits(new(big.Int).SetUint64(a.Index(i).Uint()))
			x.Lsh(x, uint(m.f.WBits)).Or(x, new(big.Int).SetUint64(a.Index(i).Uint()))
		}
		e["ret"] = limbs
		m.wInt, m.wKind = x, "Limbs" // the integer the limbs spell (input construction for the way back)
	}
	m.finishGet(e, pm, pk)
}

func (m *c08m) getText(op string, base int) { // Text(base), String, MarshalJSON
	e := Ev{"op": op}
	var out []reflect.Value
	var pm string
	var pk bool
	switch op {
	case "Text":
		e["base"] = base
		out, pm, pk = call(method(m.z, "Text"), reflect.ValueOf(base))
		if !pk {
			s := out[0].String()
			e["ret"] = c08codes(s)
			m.wText, m.wKind, m.wBase = s, "Text", base
		}
	case "String":
		out, pm, pk = call(method(m.z, "String"))
		if !pk {
			s := out[0].String()
			e["ret"] = c08codes(s)
			m.wText, m.wKind, m.wBase = s, "Text", 10
		}
	case "MarshalJSON":
		out, pm, pk = call(method(m.z, "MarshalJSON"))
		if !pk {
			s := string(out[0].Bytes())
			e["ret"] = c08codes(s)
			if es, ok := c08errString(out[1]); ok {
				e["err"] = es
			}
			m.wText, m.wKind = s, "JSON"
		}
	}
	m.finishGet(e, pm, pk)
}

func (m *c08m) getNil(op string, base int) { // Text / MarshalJSON on a nil *Element
	np := reflect.Zero(reflect.PointerTo(m.f.ElemT))
	e := Ev{"op": op}
	var pm string
	var pk bool
	var out []reflect.Value
	if op == "TextNil" {
		e["base"] = base
		out, pm, pk = call(np.MethodByName("Text"), reflect.ValueOf(base))
		if !pk {
			e["ret"] = c08codes(out[0].String())
		}
	} else {
		out, pm, pk = call(np.MethodByName("MarshalJSON"))
		if !pk {
			e["ret"] = c08codes(string(out[0].Bytes()))
			if es, ok := c08errString(out[1]); ok {
				e["err"] = es
			}
		}
	}
	m.finishGet(e, pm, pk)
}

func (m *c08m) getU64(op string) { // Uint64, IsUint64
	e := Ev{"op": op}
	out, pm, pk := call(method(m.z, op))
	if !pk {
		if op == "Uint64" {
			e["ret"] = digits(new(big.Int).SetUint64(out[0].Uint()))
		} else {
			e["ret"] = out[0].Bool()
		}
	}
	m.finishGet(e, pm, pk)
}

// ---------------------------------------------------------------------------------------
// vectors

func (m *c08m) vraw() [][]int { return m.f.VecRaw(m.vec.Elem()) }

func (m *c08m) vload(raws []*big.Int) {
	m.vec.Elem().Set(m.f.NewVec(raws))
	m.t.Emit(Ev{"op": "VLoad", "v": rawList(raws)})
}

func (m *c08m) vWrite(op string) { // VWriteTo, VMarshalBinary, VMarshalBinaryDiscard (the wire of the specification stays)
	e := Ev{"op": op}
	if op == "VWriteTo" {
		var buf bytes.Buffer
		out, pm, pk := call(method(m.vec, "WriteTo"), reflect.ValueOf(&buf))
		if pk {
			e["panic"] = pm
		} else {
			e["ret"] = bytesToInts(buf.Bytes())
			e["n"] = int(out[0].Int())
			if es, ok := c08errString(out[1]); ok {
				e["err"] = es
			}
			m.wBytes, m.wKind = append([]byte{}, buf.Bytes()...), "Vec"
		}
	} else {
		out, pm, pk := call(method(m.vec, "MarshalBinary"))
		if pk {
			e["panic"] = pm
		} else {
			e["ret"] = bytesToInts(out[0].Bytes())
			if es, ok := c08errString(out[1]); ok {
				e["err"] = es
			}
			if op == "VMarshalBinary" {
				m.wKept = out[0].Bytes()
				m.wBytes, m.wKind = append([]byte{}, m.wKept...), "Vec"
			}
		}
	}
	e["vafter"] = m.vraw()
	m.t.Emit(e)
}

type c08limitedWriter struct{ left int }

func (w *c08limitedWriter) Write(p []byte) (int, error) {
	if len(p) <= w.left {
		w.left -= len(p)
		return len(p), nil
	}
	n := w.left
	w.left = 0
	return n, errors.New("c08: writer full")
}

func (m *c08m) vWriteFail(budget int) {
	e := Ev{"op": "VWriteToFail", "budget": budget}
	out, pm, pk := call(method(m.vec, "WriteTo"), reflect.ValueOf(&c08limitedWriter{left: budget}))
	if pk {
		e["panic"] = pm
	} else {
		e["n"] = int(out[0].Int())
		if es, ok := c08errString(out[1]); ok {
			e["err"] = es
		}
	}
	e["vafter"] = m.vraw()
	m.t.Emit(e)
}

func (m *c08m) vText(op string) { // VString, VJSONMarshal
	e := Ev{"op": op}
	if op == "VString" {
		out, pm, pk := call(m.vec.Elem().MethodByName("String"))
		if pk {
			e["panic"] = pm
		} else {
			e["ret"] = c08codes(out[0].String())
		}
	} else {
		var b []byte
		var err error
		_, pm, pk := call(reflect.ValueOf(func() { b, err = json.Marshal(m.vec.Interface()) }))
		if pk {
			e["panic"] = pm
		} else {
			e["ret"] = c08codes(string(b))
			if err != nil {
				e["err"] = c08printable(err.Error())
			}
			m.wText, m.wKind = string(b), "VJSON"
		}
	}
	e["vafter"] = m.vraw()
	m.t.Emit(e)
}

func (m *c08m) vJSONUnmarshal(s string, rt bool) {
	e := Ev{"op": "VJSONUnmarshal", "s": c08codes(s)}
	if rt {
		e["rt"] = true
	}
	var err error
	_, pm, pk := call(reflect.ValueOf(func() { err = json.Unmarshal([]byte(s), m.vec.Interface()) }))
	if pk {
		e["panic"] = pm
	} else {
		if err != nil {
			e["err"] = c08printable(err.Error())
		}
		e["vout"] = m.vraw()
	}
	m.t.Emit(e)
}

type c08countReader struct {
	r io.Reader
	n int
}

func (c *c08countReader) Read(p []byte) (int, error) {
	n, err := c.r.Read(p)
	c.n += n
	return n, err
}

// vRead runs one reader entry point over stream. rd selects how the bytes are delivered; cut >= 0
// ends the data after cut bytes (EOF, or an I/O error for rd = "ioerr").
func (m *c08m) vRead(op string, stream []byte, rd string, cut int, rt bool) {
	e := Ev{"op": op, "s": bytesToInts(stream), "rd": rd}
	if rt {
		e["rt"] = true
	}
	avail := stream
	if cut >= 0 && cut < len(stream) {
		avail = stream[:cut]
		e["cut"] = cut
	}
	if op == "VUnmarshalBinary" {
		arg := append([]byte{}, avail...)
		out, pm, pk := call(method(m.vec, "UnmarshalBinary"), reflect.ValueOf(arg))
		if pk {
			e["panic"] = pm
		} else {
			if es, ok := c08errString(out[0]); ok {
				e["err"] = es
			}
			if !bytes.Equal(arg, avail) {
				e["safter"] = bytesToInts(arg) // differs from s: rejected as mutated-arg
			}
			m.vout(e)
		}
		m.t.Emit(e)
		return
	}
	var src io.Reader = bytes.NewReader(avail)
	if rd == "ioerr" {
		src = io.MultiReader(src, iotest.ErrReader(errors.New("c08: device error")))
	}
	switch rd {
	case "onebyte":
		src = iotest.OneByteReader(src)
	case "half":
		src = iotest.HalfReader(src)
	case "dataerr":
		src = iotest.DataErrReader(src)
	}
	cr := &c08countReader{r: src} // counts what the library itself reads
	var r io.Reader = cr
	if op == "VReadFrom" {
		out, pm, pk := call(method(m.vec, "ReadFrom"), reflect.ValueOf(&r).Elem())
		if pk {
			e["panic"] = pm
		} else {
			e["n"] = int(out[0].Int())
			e["consumed"] = cr.n
			if es, ok := c08errString(out[1]); ok {
				e["err"] = es
			}
			m.vout(e)
		}
		m.t.Emit(e)
		return
	}
	// VAsyncReadFrom
	out, pm, pk := call(method(m.vec, "AsyncReadFrom"), reflect.ValueOf(&r).Elem())
	if pk {
		e["panic"] = pm
		m.t.Emit(e)
		return
	}
	e["n"] = int(out[0].Int())
	if es, ok := c08errString(out[1]); ok {
		e["err"] = es
	}
	// wait for the validation verdict: values until the channel is closed (bounded wait)
	ch := out[2]
	closed := false
	timeout := time.After(20 * time.Second)
	for !closed {
		chosen, v, ok := reflect.Select([]reflect.SelectCase{
			{Dir: reflect.SelectRecv, Chan: ch},
			{Dir: reflect.SelectRecv, Chan: reflect.ValueOf(timeout)},
		})
		if chosen == 1 {
			break
		}
		if !ok {
			closed = true
			break
		}
		if es, isErr := c08errString(v); isErr {
			e["cherr"] = es
		}
	}
	e["closed"] = closed
	e["consumed"] = cr.n
	m.vout(e)
	m.t.Emit(e)
}

// vReadIsolated runs one reader in a child process on a stream whose length prefix announces far
// more elements than the stream carries (the reader allocates what the prefix says before it looks at
// the data; if the runtime cannot map that much memory the process dies with an unrecoverable fatal
// error, which must not take the driver down). The child reports what the call returned; a dead child
// is logged as a panic with the first line of its stderr.
func (m *c08m) vReadIsolated(op string, stream []byte) {
	e := Ev{"op": op, "s": bytesToInts(stream), "rd": "child", "nb": m.f.NBytes}
	cmd := exec.Command(os.Args[0], "c08child", "-field", m.f.Name, "-op", op, "-stream", fmt.Sprintf("%x", stream))
	var so, se bytes.Buffer
	cmd.Stdout, cmd.Stderr = &so, &se
	err := cmd.Run()
	var res map[string]any
	if err == nil && json.Unmarshal(so.Bytes(), &res) == nil {
		for _, k := range []string{"n", "err", "cherr", "closed", "voutlen", "panic"} {
			if v, ok := res[k]; ok {
				if fv, isNum := v.(float64); isNum {
					e[k] = int(fv)
				} else {
					e[k] = v
				}
			}
		}
		if _, pk := res["panic"]; !pk {
			e["vout"] = [][]int{}
		}
	} else {
		first := strings.SplitN(strings.TrimSpace(se.String()), "\n", 2)[0]
		e["panic"] = c08printable("process died: " + first)
	}
	m.t.Emit(e)
}

func init() { register("c08child", runC08Child) }

func runC08Child(args []string) {
	fs := flag.NewFlagSet("c08child", flag.ExitOnError)
	field := fs.String("field", "", "field")
	op := fs.String("op", "VReadFrom", "reader")
	hex := fs.String("stream", "", "hex bytes")
	fs.Parse(args)
	f := fields[*field]
	if f == nil {
		fatal("unknown field %s", *field)
	}
	var stream []byte
	fmt.Sscanf(*hex, "%x", &stream)
	vec := reflect.New(f.VecT)
	res := map[string]any{}
	var r io.Reader = bytes.NewReader(stream)
	switch *op {
	case "VReadFrom":
		out, pm, pk := call(method(vec, "ReadFrom"), reflect.ValueOf(&r).Elem())
		if pk {
			res["panic"] = pm
		} else {
			res["n"] = int(out[0].Int())
			if es, ok := c08errString(out[1]); ok {
				res["err"] = es
			}
		}
	case "VUnmarshalBinary":
		out, pm, pk := call(method(vec, "UnmarshalBinary"), reflect.ValueOf(stream))
		if pk {
			res["panic"] = pm
		} else if es, ok := c08errString(out[0]); ok {
			res["err"] = es
		}
	case "VAsyncReadFrom":
		out, pm, pk := call(method(vec, "AsyncReadFrom"), reflect.ValueOf(&r).Elem())
		if pk {
			res["panic"] = pm
		} else {
			res["n"] = int(out[0].Int())
			if es, ok := c08errString(out[1]); ok {
				res["err"] = es
			}
			closed := false
			for i := 0; i < 4 && !closed; i++ {
				v, ok := out[2].Recv()
				if !ok {
					closed = true
				} else if es, isErr := c08errString(v); isErr {
					res["cherr"] = es
				}
			}
			res["closed"] = closed
		}
	}
	res["voutlen"] = vec.Elem().Len() % (1 << 30)
	b, _ := json.Marshal(res)
	fmt.Println(string(b))
}

// vout logs the vector after a read. After a reported error its content is unspecified (and can be
// huge when the length prefix lied): it is then logged only when short.
func (m *c08m) vout(e Ev) {
	_, e1 := e["err"]
	_, e2 := e["cherr"]
	if (e1 || e2) && m.vec.Elem().Len() > 8 {
		e["vout"] = [][]int{}
		e["voutlen"] = m.vec.Elem().Len() % (1 << 30)
		return
	}
	e["vout"] = m.vraw()
}

// ---------------------------------------------------------------------------------------
// input classes

func c08pow2(k int) *big.Int { return new(big.Int).Lsh(big.NewInt(1), uint(k)) }

// values: abstract elements on every boundary of the conversions.
func (m *c08m) values(nRandom int) []*big.Int {
	q := m.f.Q
	var out []*big.Int
	add := func(x *big.Int) { out = append(out, new(big.Int).Mod(x, q)) }
	for _, v := range []int64{0, 1, 2, 9, 10, 255, 256, 65535, 65536, 999999999999999, 1000000000000000, -1, -2, -9, -10, -65534, -65535, -65536, -65537} {
		add(big.NewInt(v))
	}
	add(new(big.Int).Rsh(q, 1))
	add(new(big.Int).Add(new(big.Int).Rsh(q, 1), big.NewInt(1)))
	for k := 1; k <= m.f.Limbs; k++ {
		if !m.thorough && k != 1 && k != m.f.Limbs && k != (m.f.Limbs+1)/2 {
			continue // quick tier: first, middle and last limb boundary
		}
		p := c08pow2(k * m.f.WBits)
		add(new(big.Int).Sub(p, big.NewInt(1)))
		add(p)
		add(new(big.Int).Add(p, big.NewInt(1)))
	}
	add(c08pow2(63))
	add(new(big.Int).Sub(c08pow2(64), big.NewInt(1)))
	add(c08pow2(64))
	add(c08pow2(q.BitLen() - 1))
	add(new(big.Int).Sub(c08pow2(q.BitLen()-1), big.NewInt(1)))
	// raw Montgomery patterns with extreme limbs (the value seen by the encoders after fromMont)
	nLat := 12
	if !m.thorough {
		nLat = 7
	}
	for _, r := range m.f.rawLattice(m.rng, 6)[:nLat] {
		add(new(big.Int).Mul(r, m.f.Rinv))
	}
	for i := 0; i < nRandom; i++ {
		add(m.rng.Below(q))
	}
	return out
}

// ints: integers of any sign and size for the lenient setters.
func (m *c08m) ints(nRandom int) []*big.Int {
	q := m.f.Q
	var out []*big.Int
	for k := int64(-3); k <= 3; k++ {
		for d := int64(-2); d <= 2; d++ {
			out = append(out, new(big.Int).Add(new(big.Int).Mul(big.NewInt(k), q), big.NewInt(d)))
		}
	}
	top := c08pow2(8 * m.f.NBytes)
	for d := int64(-2); d <= 2; d++ {
		out = append(out, new(big.Int).Add(top, big.NewInt(d)))
		out = append(out, new(big.Int).Add(new(big.Int).Add(top, q), big.NewInt(d)))
		out = append(out, new(big.Int).Neg(new(big.Int).Add(top, big.NewInt(d))))
	}
	for k := 1; k <= m.f.Limbs+1; k++ {
		for _, w := range []int{m.f.WBits, 64, 32} {
			p := c08pow2(k * w)
			out = append(out, new(big.Int).Sub(p, big.NewInt(1)), p, new(big.Int).Add(p, big.NewInt(1)), new(big.Int).Neg(p))
		}
	}
	for k := 1; k <= 2*m.f.NBytes+1; k += 1 + m.f.NBytes/6 {
		out = append(out, c08pow2(8*k), new(big.Int).Sub(c08pow2(8*k), big.NewInt(1)))
	}
	huge := c08pow2(3000)
	out = append(out, huge, new(big.Int).Neg(huge), new(big.Int).Mul(q, huge), new(big.Int).Add(new(big.Int).Mul(q, huge), big.NewInt(7)),
		new(big.Int).Neg(new(big.Int).Mul(q, q)), new(big.Int).Sub(new(big.Int).Mul(q, q), big.NewInt(1)))
	sizes := []int{1, 31, 32, 33, 63, 64, 65, q.BitLen() - 1, q.BitLen(), q.BitLen() + 1, 2 * q.BitLen(), 4000}
	for i := 0; i < nRandom; i++ {
		x := m.rng.Big(sizes[i%len(sizes)])
		if m.rng.Intn(2) == 0 {
			x.Neg(x)
		}
		out = append(out, x)
	}
	return out
}

func c08be(x *big.Int, n int) []byte { // low n bytes, big-endian
	b := make([]byte, n)
	t := new(big.Int).Set(x)
	for i := n - 1; i >= 0; i-- {
		b[i] = byte(new(big.Int).And(t, big.NewInt(255)).Uint64())
		t.Rsh(t, 8)
	}
	return b
}

func c08rev(b []byte) []byte {
	out := make([]byte, len(b))
	for i := range b {
		out[len(b)-1-i] = b[i]
	}
	return out
}

// fixedLattice: integers below 2^(8*Bytes) on every outcome of the limb-wise comparison with q.
func (m *c08m) fixedLattice(nRandom int) []*big.Int {
	f := m.f
	q := f.Q
	one := big.NewInt(1)
	top := c08pow2(8 * f.NBytes)
	var out []*big.Int
	add := func(x *big.Int) {
		if x.Sign() >= 0 && x.Cmp(top) < 0 {
			out = append(out, new(big.Int).Set(x))
		}
	}
	for _, d := range []int64{-2, -1, 0, 1, 2} {
		add(new(big.Int).Add(q, big.NewInt(d)))
	}
	add(big.NewInt(0))
	add(one)
	add(new(big.Int).Sub(top, one))
	add(new(big.Int).Lsh(q, 1))
	w := uint(f.WBits)
	mask := new(big.Int).Sub(c08pow2(f.WBits), one)
	limb := func(x *big.Int, i int) *big.Int { return new(big.Int).And(new(big.Int).Rsh(x, w*uint(i)), mask) }
	// equal to q above limb i; limb i one below / one above / 0 / max; limbs below: 0, max, q's, random
	for i := f.Limbs - 1; i >= 0; i-- {
		hi := new(big.Int).Lsh(new(big.Int).Rsh(q, w*uint(i+1)), w*uint(i+1))
		qi := limb(q, i)
		for _, li := range []*big.Int{new(big.Int).Sub(qi, one), new(big.Int).Add(qi, one), big.NewInt(0), mask} {
			if li.Sign() < 0 || li.Cmp(mask) > 0 {
				continue
			}
			mid := new(big.Int).Lsh(li, w*uint(i))
			lowMask := new(big.Int).Sub(new(big.Int).Lsh(one, w*uint(i)), one)
			for _, lo := range []*big.Int{big.NewInt(0), lowMask, new(big.Int).And(q, lowMask), new(big.Int).And(m.rng.Big(8*f.NBytes), lowMask)} {
				x := new(big.Int).Or(new(big.Int).Or(hi, mid), lo)
				add(x)
			}
		}
	}
	for i := 0; i < nRandom; i++ {
		add(m.rng.Below(q))
		add(m.rng.Big(8 * f.NBytes))
		add(new(big.Int).Add(q, m.rng.Below(new(big.Int).Sub(top, q))))
	}
	return out
}

// byteStrings of length n: around the encodings of q-1, q, q+1, extremes, random.
func (m *c08m) byteStrings(n int, nRandom int) [][]byte {
	q := m.f.Q
	var out [][]byte
	out = append(out, make([]byte, n), bytes.Repeat([]byte{0xff}, n))
	for _, d := range []int64{-1, 0, 1} {
		x := new(big.Int).Add(q, big.NewInt(d))
		out = append(out, c08be(x, n)) // zero-padded on the left, or truncated to the low n bytes
		if n > m.f.NBytes {
			b := c08be(x, n)
			b[0] = 1 // a set bit far above the canonical length
			out = append(out, b)
		}
	}
	if n > 0 {
		b := make([]byte, n)
		b[0] = 0x80
		out = append(out, b)
		b = make([]byte, n)
		b[n-1] = 1
		out = append(out, b)
	}
	for i := 0; i < nRandom; i++ {
		out = append(out, m.rng.Bytes(n))
	}
	return out
}

// texts for SetString: both sides of every rule of the grammar.
func (m *c08m) texts(vals []*big.Int) []string {
	q := m.f.Q
	out := []string{"", "0", "00", "000", "-0", "+0", "-", "+", "--1", "+-1", "-+1", "1", "+1", "-1", "9", "10", "007", "0_7", "08", "09", "0_8",
		"0x", "0X", "0b", "0o", "0x0", "0xff", "0XFF", "0xFf", "0Xff", "0b101", "0B101", "0b102", "0b2", "0o17", "0O17", "0o18", "0o8", "017", "018",
		"0x_ff", "0x__ff", "0xf_f", "0xff_", "_0xff", "0_xff", "1_000", "1__000", "_1000", "1000_", "1_0_0_0", "0b_1", "0b1_", "0o_7", "0_0", "0__0",
		"1e5", "1E5", "1.0", "1.", ".1", "0x1p4", " 1", "1 ", "1\n", "\t1", "1 000", "1,000", "0xg", "ff", "a", "z", "0xG", "0b12", "12a", "-0x10", "+0x10", "-0b11", "-017", "- 1",
		"\x00", "1\x00", "\u0661\u0662", "\uff11", "1\u00a0", "\xff\xfe", "NaN", "Inf", "nil", "null", "true", "<nil>", "0x-1", "0b-1", "0-1", "1-", "1+1",
		"-65535", "-65536", "65535", "4294967296", "18446744073709551615", "18446744073709551616", "-9223372036854775808",
		"0x" + strings.Repeat("f", 2*m.f.NBytes), "0x1" + strings.Repeat("0", 2*m.f.NBytes), "0b" + strings.Repeat("1", q.BitLen()), "0b1" + strings.Repeat("0", q.BitLen()),
		strings.Repeat("9", 1200), "-" + strings.Repeat("9", 1200), "0x" + strings.Repeat("F", 900), strings.Repeat("0", 300) + "5", strings.Repeat("_", 40), "1" + strings.Repeat("_1", 100)}
	for _, d := range []int64{-1, 0, 1} {
		x := new(big.Int).Add(q, big.NewInt(d))
		out = append(out, x.Text(10), "-"+x.Text(10), "0x"+x.Text(16), "0X"+strings.ToUpper(x.Text(16)), "0b"+x.Text(2), "0o"+x.Text(8), "0"+x.Text(8), "+"+x.Text(10))
		out = append(out, x.Text(16)) // hex digits without a prefix: decimal grammar applies
	}
	for i, v := range vals {
		switch i % 5 {
		case 0:
			out = append(out, v.Text(10))
		case 1:
			out = append(out, "-"+v.Text(10))
		case 2:
			out = append(out, "0x"+v.Text(16))
		case 3:
			out = append(out, "0b"+v.Text(2))
		case 4:
			s := v.Text(10)
			if len(s) > 3 {
				s = s[:2] + "_" + s[2:]
			}
			out = append(out, s)
		}
	}
	return out
}

func (m *c08m) jsonTexts(vals []*big.Int) []string {
	q := m.f.Q
	out := []string{"", "0", "1", "-1", "\"1\"", "\"-1\"", "\"0x10\"", "0x10", "\"0b11\"", "\"017\"", "017", "\"\"", "\"", "\"\"\"", "\"1", "1\"", "\"\"1\"\"", "null", "\"null\"",
		"true", "1.5", "\"1.5\"", "1e3", "\"1e3\"", " 1", "1 ", "\" 1\"", "[1]", "{}", "\"1_0\"", "1_0", "\"_1\"", "\"1_\"", "-", "\"-\"", "\"+5\"", "+5", "\"\\u0031\"", "\"1\\n\"",
		"\"" + strings.Repeat("9", 3*q.BitLen()-2) + "\"", "\"" + strings.Repeat("9", 3*q.BitLen()-1) + "\"", strings.Repeat("9", 3*q.BitLen()), strings.Repeat("9", 3*q.BitLen()+1),
		"\"" + strings.Repeat("9", 3*q.BitLen()+5) + "\"", strings.Repeat("1", 5000)}
	for _, d := range []int64{-1, 0, 1} {
		x := new(big.Int).Add(q, big.NewInt(d))
		out = append(out, "\""+x.Text(10)+"\"", x.Text(10), "\"0x"+x.Text(16)+"\"")
	}
	for i, v := range vals {
		if i%2 == 0 {
			out = append(out, "\""+v.Text(10)+"\"")
		} else {
			out = append(out, v.Text(10))
		}
	}
	return out
}

// ---------------------------------------------------------------------------------------
// scenarios

// encodeDecode: every encoder on the current element, each followed by the decoders it feeds (rt).
func (m *c08m) encodeDecode(v *big.Int) {
	other := m.f.ToMont(m.rng.Below(m.f.Q))
	scr := func() { m.load(other) } // overwrite the register between encoder and decoder
	m.loadVal(v)
	raw := m.f.Raw(m.z)
	back := func() { m.load(raw) }
	m.getBytes("Bytes")
	scr()
	m.endianElement("BEElement", m.wBytes, true)
	scr()
	m.setBytesCanonical(m.wBytes, true)
	back()
	m.getBytes("Marshal")
	scr()
	m.setBytes("SetBytes", m.wBytes, true)
	scr()
	m.setBytes("Unmarshal", m.wBytes, true)
	back()
	m.getBytes("PutBE")
	scr()
	m.setInterface("[]byte", "bytes", append([]byte{}, m.wBytes...), Ev{"b": bytesToInts(m.wBytes)}, true)
	back()
	m.getBytes("PutLE")
	scr()
	m.endianElement("LEElement", m.wBytes, true)
	back()
	m.getBigInt("BigInt")
	scr()
	m.setBigInt(m.wInt, true)
	scr()
	m.setInterface("*big.Int", "big", new(big.Int).Set(m.wInt), Ev{"k": zint(m.wInt)}, true)
	back()
	m.getBigInt("ToBigIntRegular")
	scr()
	m.setInterface("big.Int", "big", *new(big.Int).Set(m.wInt), Ev{"k": zint(m.wInt)}, true)
	back()
	m.getBits()
	scr()
	m.setBigInt(m.wInt, true)
	back()
	m.getText("Text", 10)
	scr()
	m.setString(m.wText, true)
	scr()
	m.unmarshalJSON(m.wText, true)
	back()
	m.getText("String", 0)
	scr()
	m.setInterface("string", "str", m.wText, Ev{"s": c08codes(m.wText)}, true)
	back()
	for _, b := range []struct {
		base int
		pre  string
	}{{16, "0x"}, {2, "0b"}, {8, "0o"}} {
		m.getText("Text", b.base)
		scr()
		m.setString(b.pre+m.wText, true)
		back()
	}
	m.getText("Text", []int{3, 7, 36, 35, 11, 32}[m.rng.Intn(6)])
	m.getText("MarshalJSON", 0)
	scr()
	m.unmarshalJSON(m.wText, true)
	back()
	m.getU64("Uint64")
	m.getU64("IsUint64")
}

func (m *c08m) integerSetters(ints []*big.Int) {
	for _, k := range ints {
		m.setBigInt(k, false)
	}
	q64 := new(big.Int).And(m.f.Q, new(big.Int).SetUint64(^uint64(0))).Uint64()
	us := []uint64{0, 1, 2, 1<<31 - 1, 1 << 31, 1<<32 - 1, 1 << 32, 1<<63 - 1, 1 << 63, ^uint64(0), ^uint64(0) - 1, q64 - 1, q64, q64 + 1, 2 * q64, 2*q64 + 1, 3 * q64}
	for i := 0; i < 6; i++ {
		us = append(us, m.rng.U64(), m.rng.U64()>>uint(m.rng.Intn(64)))
	}
	for _, u := range us {
		m.setUint64(u)
		m.newElement(u)
		m.setInterface("uint64", "int", u, Ev{"k": zint(new(big.Int).SetUint64(u))}, false)
	}
	ks := []int64{0, 1, -1, 2, -2, 1<<31 - 1, -(1 << 31), 1 << 32, -(1 << 32), 1<<63 - 1, -(1 << 63), -(1<<63 - 1), int64(q64), -int64(q64), int64(q64) + 1, -int64(q64) - 1, -int64(2 * q64)}
	for i := 0; i < 6; i++ {
		ks = append(ks, int64(m.rng.U64()), int64(m.rng.U64())>>uint(m.rng.Intn(64)))
	}
	for _, k := range ks {
		m.setInt64(k)
		m.setInterface("int64", "int", k, Ev{"k": zint(big.NewInt(k))}, false)
	}
}

func (m *c08m) interfaceTypes() {
	q64 := new(big.Int).And(m.f.Q, new(big.Int).SetUint64(^uint64(0))).Uint64()
	zi := func(x int64) Ev { return Ev{"k": zint(big.NewInt(x))} }
	zu := func(x uint64) Ev { return Ev{"k": zint(new(big.Int).SetUint64(x))} }
	for _, x := range []uint64{0, 1, 255, uint64(m.rng.Intn(256))} {
		m.setInterface("uint8", "int", uint8(x), zu(x), false)
	}
	for _, x := range []uint64{0, 65535, uint64(m.rng.Intn(65536))} {
		m.setInterface("uint16", "int", uint16(x), zu(x), false)
	}
	for _, x := range []uint64{0, 1<<32 - 1, 1<<31 - 1, 1 << 31, uint64(uint32(q64)), uint64(uint32(m.rng.U64()))} {
		m.setInterface("uint32", "int", uint32(x), zu(x), false)
	}
	for _, x := range []uint64{0, ^uint64(0), q64, m.rng.U64()} {
		m.setInterface("uint", "int", uint(x), zu(x), false)
	}
	for _, x := range []int64{0, 127, -128, -1, int64(int8(m.rng.U64()))} {
		m.setInterface("int8", "int", int8(x), zi(x), false)
	}
	for _, x := range []int64{32767, -32768, -1, int64(int16(m.rng.U64()))} {
		m.setInterface("int16", "int", int16(x), zi(x), false)
	}
	for _, x := range []int64{1<<31 - 1, -(1 << 31), -1, int64(int32(m.rng.U64()))} {
		m.setInterface("int32", "int", int32(x), zi(x), false)
	}
	for _, x := range []int64{0, -1, 1<<63 - 1, -(1 << 63), int64(m.rng.U64())} {
		m.setInterface("int", "int", int(x), zi(x), false)
	}
	// Element, *Element
	src := m.f.NewVal(m.rng.Below(m.f.Q))
	m.setInterface("Element", "elem", src.Elem().Interface(), Ev{"raw": digits(m.f.Raw(src))}, false)
	src = m.f.NewVal(new(big.Int).Sub(m.f.Q, big.NewInt(1)))
	m.setInterface("*Element", "elem", src.Interface(), Ev{"raw": digits(m.f.Raw(src))}, false)
	// nil of every flavour, unsupported types: an error, never a panic
	m.setInterface("nil", "nil", nil, nil, false)
	m.setInterface("*Element(nil)", "nil", reflect.Zero(reflect.PointerTo(m.f.ElemT)).Interface(), nil, false)
	m.setInterface("*big.Int(nil)", "nil", (*big.Int)(nil), nil, false)
	m.setInterface("[]byte(nil)", "bytes", []byte(nil), Ev{"b": []int{}}, false)
	m.setInterface("float64", "other", 1.5, nil, false)
	m.setInterface("float32", "other", float32(2), nil, false)
	m.setInterface("bool", "other", true, nil, false)
	m.setInterface("uintptr", "other", uintptr(7), nil, false)
	m.setInterface("[]uint64", "other", []uint64{1, 2}, nil, false)
	m.setInterface("[]int", "other", []int{}, nil, false)
	m.setInterface("struct{}", "other", struct{}{}, nil, false)
	m.setInterface("*uint64", "other", new(uint64), nil, false)
	m.setInterface("map", "other", map[string]int{}, nil, false)
	m.setInterface("[4]byte", "other", [4]byte{1}, nil, false)
	m.setInterface("*string", "other", new(string), nil, false)
	m.setInterface("**big.Int", "other", new(*big.Int), nil, false)
	m.setInterface("complex128", "other", complex(1, 0), nil, false)
	m.setInterface("json.Number", "other", json.Number("12"), nil, false)
	m.setInterface("rune", "int", 'a', zi('a'), false) // int32
	m.setInterface("[]byte", "bytes", []byte{1, 0}, Ev{"b": []int{1, 0}}, false)
	m.setInterface("string", "str", "0x1f", Ev{"s": c08codes("0x1f")}, false)
	m.setInterface("string", "str", "bogus", Ev{"s": c08codes("bogus")}, false)
	m.setInterface("string", "str", "", Ev{"s": []int{}}, false)
	qq := new(big.Int).Add(m.f.Q, big.NewInt(5))
	m.setInterface("*big.Int", "big", new(big.Int).Neg(qq), Ev{"k": zint(new(big.Int).Neg(qq))}, false)
	m.setInterface("big.Int", "big", *qq, Ev{"k": zint(qq)}, false)
}

func (m *c08m) byteSetters(lengths []int, nRandom int) {
	for _, n := range lengths {
		for _, b := range m.byteStrings(n, nRandom) {
			m.setBytes("SetBytes", b, false)
			m.setBytesCanonical(b, false)
			if m.rng.Intn(3) == 0 {
				m.setBytes("Unmarshal", b, false)
			}
			if m.rng.Intn(4) == 0 {
				m.setInterface("[]byte", "bytes", append([]byte{}, b...), Ev{"b": bytesToInts(b)}, false)
			}
		}
	}
}

func (m *c08m) fixedDecoders(lat []*big.Int) {
	n := m.f.NBytes
	for _, x := range lat {
		be := c08be(x, n)
		m.endianElement("BEElement", be, false)
		m.endianElement("LEElement", c08rev(be), false) // the same integer, little-endian
		m.setBytesCanonical(be, false)
		m.setBytes("SetBytes", be, false)
		if m.rng.Intn(4) == 0 {
			m.endianElement("LEElement", be, false) // the same bytes read the other way round
		}
	}
}

func (m *c08m) textSetters(vals []*big.Int) {
	for i, s := range m.texts(vals) {
		if i%16 == 0 {
			m.poison()
		}
		m.setString(s, false)
	}
	for _, s := range m.jsonTexts(vals) {
		m.unmarshalJSON(s, false)
	}
	m.loadVal(big.NewInt(7))
	for _, b := range []int{2, 3, 8, 10, 16, 35, 36, 1, 0, -1, 37, 62, 1 << 20, -10} {
		m.getText("Text", b)
	}
	m.getNil("TextNil", 10)
	m.getNil("TextNil", 16)
	m.getNil("MarshalJSONNil", 0)
}

func (m *c08m) rawsOf(vals []*big.Int) []*big.Int {
	out := make([]*big.Int, len(vals))
	for i, v := range vals {
		out[i] = m.f.ToMont(new(big.Int).Mod(v, m.f.Q))
	}
	return out
}

func (m *c08m) pick(pool []*big.Int, n int) []*big.Int {
	out := make([]*big.Int, n)
	for i := range out {
		if m.rng.Intn(2) == 0 {
			out[i] = pool[m.rng.Intn(len(pool))]
		} else {
			out[i] = m.rng.Below(m.f.Q)
		}
	}
	return out
}

var c08readers = []string{"bytes", "onebyte", "half", "dataerr"}

func (m *c08m) vecStream(vals []*big.Int) []byte { // input construction: prefix + fixed-length big-endian entries
	s := c08be(big.NewInt(int64(len(vals))), 4)
	for _, v := range vals {
		s = append(s, c08be(v, m.f.NBytes)...)
	}
	return s
}

func (m *c08m) readAll(stream []byte, cut int, rt bool) {
	scratch := m.rawsOf(m.pick([]*big.Int{big.NewInt(1)}, m.rng.Intn(3)))
	m.vload(scratch)
	m.vRead("VReadFrom", stream, c08readers[m.rng.Intn(len(c08readers))], cut, rt)
	m.vload(scratch)
	m.vRead("VUnmarshalBinary", stream, "bytes", cut, rt)
	m.vload(scratch)
	m.vRead("VAsyncReadFrom", stream, c08readers[m.rng.Intn(len(c08readers))], cut, rt)
}

func (m *c08m) vectors(pool []*big.Int, lens []int, bigLens []int) {
	f := m.f
	nb := f.NBytes
	q := f.Q
	top := c08pow2(8 * nb)
	invalid := []*big.Int{new(big.Int).Set(q), new(big.Int).Add(q, big.NewInt(1)), new(big.Int).Sub(top, big.NewInt(1)),
		new(big.Int).Add(q, c08pow2(8*nb-9)), new(big.Int).Add(q, m.rng.Below(new(big.Int).Sub(top, q)))}
	for _, n := range lens {
		vals := m.pick(pool, n)
		// round trips through every writer / reader pair
		m.vload(m.rawsOf(vals))
		m.vWrite("VWriteTo")
		stream := append([]byte{}, m.wBytes...)
		m.readAll(stream, -1, true)
		m.vload(m.rawsOf(vals))
		m.vWrite("VMarshalBinary")
		m.readAll(m.wBytes, -1, true)
		// a round trip with other encodings produced in between: the bytes handed back belong to the caller, so the
		// slice kept from the first call (not a copy) still decodes to the first vector
		m.vload(m.rawsOf(vals))
		m.vWrite("VMarshalBinary")
		kept := m.wKept
		for _, k := range []int{n, n + 1} {
			m.vload(m.rawsOf(m.pick(pool, k)))
			m.vWrite("VMarshalBinaryDiscard")
		}
		m.readAll(kept, -1, true)
		m.vload(m.rawsOf(vals))
		m.vText("VString")
		m.vText("VJSONMarshal")
		js := m.wText
		m.vload(m.rawsOf(m.pick(pool, 2)))
		m.vJSONUnmarshal(js, true)
		// failing writers
		m.vload(m.rawsOf(vals))
		total := 4 + n*nb
		for _, b := range []int{0, 3, 4, 4 + nb - 1, total - 1, total, total + 5} {
			if b >= 0 {
				m.vWriteFail(b)
			}
		}
		// trailing data is not consumed; two vectors in one stream
		more := append(append([]byte{}, stream...), m.vecStream(m.pick(pool, 2))...)
		m.readAll(more, -1, false)
		m.readAll(more[len(stream):], -1, false)
		// truncation at every structural boundary; I/O errors
		cuts := map[int]bool{0: true, 1: true, 3: true, 4: true, 5: true, total - 1: true, total - nb: true, total - nb + 1: true, 4 + nb - 1: true, 4 + nb: true, 4 + nb + 1: true}
		for c := range cuts {
			if c >= 0 && c < total {
				m.readAll(stream, c, false)
			}
		}
		if total > 4 {
			m.vload(nil)
			m.vRead("VReadFrom", stream, "ioerr", 4+m.rng.Intn(total-4), false)
			m.vload(nil)
			m.vRead("VAsyncReadFrom", stream, "ioerr", 4+m.rng.Intn(total-4), false)
			m.vload(nil)
			m.vRead("VReadFrom", stream, "ioerr", m.rng.Intn(4), false)
		}
		// the length prefix lies
		for _, d := range []int64{-1, 1, 2, 255, 256, 65536} {
			l := int64(n) + d
			if l < 0 {
				continue
			}
			lie := append(c08be(big.NewInt(l), 4), stream[4:]...)
			m.readAll(lie, -1, false)
		}
		// the invalid entry at every position, every kind of invalid
		if n <= 6 {
			for pos := 0; pos < n; pos++ {
				for _, bad := range invalid {
					vv := append([]*big.Int{}, vals...)
					vv[pos] = bad
					m.readAll(m.vecStream(vv), -1, false)
				}
			}
		}
	}
	// length prefixes far beyond the data (bounded: the reader allocates what the prefix says)
	for _, l := range []int64{1 << 12, 1 << 16} {
		lie := append(c08be(big.NewInt(l), 4), m.rng.Bytes(3*nb+1)...)
		m.readAll(lie, -1, false)
	}
	// Length prefixes announcing gigabytes (0xffffffff; n*Bytes >= 2^32) are not driven: the readers allocate what the
	// prefix says before looking at the data, which is resource exhaustion, outside the stated property. (A probe of that
	// kind exposed the uint32 overflow of sliceLen*Bytes in AsyncReadFrom, repaired in /repo by 50834c1.)
	// larger vectors: the asynchronous validation runs in parallel chunks
	for _, n := range bigLens {
		vals := m.pick(pool, n)
		m.vload(m.rawsOf(vals))
		m.vWrite("VWriteTo")
		m.readAll(m.wBytes, -1, true)
		for k := 0; k < 4; k++ {
			vv := append([]*big.Int{}, vals...)
			nbad := 1 + m.rng.Intn(3)
			for j := 0; j < nbad; j++ {
				pos := []int{0, n - 1, n / 2, m.rng.Intn(n), n / 16, n/16 + 1}[m.rng.Intn(6)] % n
				vv[pos] = invalid[m.rng.Intn(len(invalid))]
			}
			m.readAll(m.vecStream(vv), -1, false)
		}
		m.readAll(m.wBytes, 4+m.rng.Intn(n*nb), false)
	}
	// hand-written JSON arrays
	for _, s := range []string{"[]", "[1]", "[1,2,3]", "[\"1\",\"0x10\",-1]", "[1,,2]", "[01]", "[0x10]", "[\"zz\"]", "[1,\"\"]", "[-0]", "[1_0]", "[\"1_0\"]", "[+1]", "[\"+1\"]",
		"[\"" + new(big.Int).Add(q, big.NewInt(3)).Text(10) + "\"," + "\"-" + q.Text(10) + "\"]"} {
		m.vload(m.rawsOf(m.pick(pool, 1)))
		m.vJSONUnmarshal(s, false)
	}
}

// one call of a random entry point with a random argument (used for the two-call histories and
// the random tier)
func (m *c08m) randomCall(pool []*big.Int, ints []*big.Int) {
	r := m.rng
	nb := m.f.NBytes
	switch r.Intn(24) {
	case 0:
		m.setBigInt(ints[r.Intn(len(ints))], false)
	case 1:
		m.setBytes("SetBytes", r.Bytes(r.Intn(2*nb+2)), false)
	case 2:
		m.setBytesCanonical(c08be(r.Big(8*nb), nb), false)
	case 3:
		m.endianElement("BEElement", c08be(r.Big(8*nb-r.Intn(3)), nb), false)
	case 4:
		m.endianElement("LEElement", c08be(r.Big(8*nb-r.Intn(3)), nb), false)
	case 5:
		x := ints[r.Intn(len(ints))]
		m.setString([]string{x.Text(10), "0x" + new(big.Int).Abs(x).Text(16), x.Text(10) + "x", "0b" + new(big.Int).Abs(x).Text(2)}[r.Intn(4)], false)
	case 6:
		x := pool[r.Intn(len(pool))]
		m.unmarshalJSON([]string{x.Text(10), "\"" + x.Text(10) + "\"", "\"" + x.Text(10), "x"}[r.Intn(4)], false)
	case 7:
		m.setUint64(r.U64() >> uint(r.Intn(64)))
	case 8:
		m.setInt64(int64(r.U64()) >> uint(r.Intn(64)))
	case 9:
		m.getBytes([]string{"Bytes", "Marshal", "PutBE", "PutLE"}[r.Intn(4)])
	case 10:
		m.getBigInt([]string{"BigInt", "ToBigIntRegular"}[r.Intn(2)])
	case 11:
		m.getBits()
	case 12:
		m.getText("Text", 2+r.Intn(35))
	case 13:
		m.getText("MarshalJSON", 0)
	case 14:
		m.getText("String", 0)
	case 15:
		m.getU64([]string{"Uint64", "IsUint64"}[r.Intn(2)])
	case 16:
		m.loadVal(pool[r.Intn(len(pool))])
	case 17:
		m.poison()
		m.setBytes("Unmarshal", c08be(r.Big(8*nb), nb), false)
	case 18:
		m.setBytesCanonical(r.Bytes([]int{nb - 1, nb + 1, 0, nb}[r.Intn(4)]), false)
	case 19:
		m.newElement(r.U64())
	case 20:
		x := ints[r.Intn(len(ints))]
		m.setInterface("*big.Int", "big", new(big.Int).Set(x), Ev{"k": zint(x)}, false)
	case 21:
		m.vload(m.rawsOf(m.pick(pool, r.Intn(4))))
		m.vWrite("VWriteTo")
	case 22:
		vals := m.pick(pool, r.Intn(4))
		if len(vals) > 0 && r.Intn(2) == 0 {
			vals[r.Intn(len(vals))] = new(big.Int).Add(m.f.Q, big.NewInt(int64(r.Intn(3))))
		}
		m.vRead([]string{"VReadFrom", "VUnmarshalBinary", "VAsyncReadFrom"}[r.Intn(3)], m.vecStream(vals), "bytes", -1, false)
	case 23:
		// decode what the last encoder produced, if it fits
		switch m.wKind {
		case "BE":
			m.endianElement("BEElement", m.wBytes, false)
		case "LE":
			m.endianElement("LEElement", m.wBytes, false)
		case "Int", "Limbs":
			m.setBigInt(m.wInt, false)
		case "Text":
			if m.wBase == 10 {
				m.setString(m.wText, false)
			}
		case "JSON":
			m.unmarshalJSON(m.wText, false)
		}
	}
}

func init() { register("c08", runC08) }

func runC08(args []string) {
	fs := flag.NewFlagSet("c08", flag.ExitOnError)
	out := fs.String("out", ".", "output directory")
	seed := fs.Uint64("seed", 1, "seed")
	tier := fs.String("tier", "quick", "quick|thorough")
	config := fs.String("config", "default", "configuration label")
	only := fs.String("fields", "", "comma separated field names (default all)")
	fs.Parse(args)
	names := fieldNames
	if *only != "" {
		names = strings.Split(*only, ",")
	}
	thorough := *tier == "thorough"
	total := 0
	for _, name := range names {
		f := fields[name]
		if f == nil {
			fatal("unknown field %s", name)
		}
		rng := newRng(*seed*1000003 + uint64(len(name))*7919 + uint64(name[len(name)-1]) + 0xC08)
		t := newTrace(*out, "c08_"+strings.ReplaceAll(name, "/", "_")+"_"+*config,
			Ev{"property": "C08", "field": name, "config": *config, "seed": int(*seed % (1 << 30)), "tier": *tier})
		m := &c08m{f: f, t: t, rng: rng, z: f.New(), vec: reflect.New(f.VecT), thorough: thorough}
		nb := f.NBytes
		nVals, nInts, nFixed, nBytesRnd, nHist, nRand := 5, 24, 6, 1, 120, 240
		var lengths []int
		if thorough {
			nVals, nInts, nFixed, nBytesRnd, nHist, nRand = 60, 240, 60, 4, 3000, 6000
			for n := 0; n <= 2*nb+1; n++ {
				lengths = append(lengths, n)
			}
		} else {
			seen := map[int]bool{}
			for _, n := range []int{0, 1, 2, 3, 4, 7, 8, 9, nb - 9, nb - 8, nb - 7, nb - 2, nb - 1, nb, nb + 1, nb + 2, nb + 7, nb + 8, nb + 9, 2*nb - 1, 2 * nb, 2*nb + 1,
				rng.Intn(2*nb + 2), rng.Intn(2*nb + 2), rng.Intn(2*nb + 2)} {
				if n >= 0 && n <= 2*nb+1 && !seen[n] {
					seen[n] = true
					lengths = append(lengths, n)
				}
			}
		}
		vals := m.values(nVals)
		ints := m.ints(nInts)
		// (i) model-derived classes at real size
		for _, v := range vals {
			m.encodeDecode(v)
		}
		m.integerSetters(ints)
		m.interfaceTypes()
		m.byteSetters(lengths, nBytesRnd)
		m.fixedDecoders(m.fixedLattice(nFixed))
		m.textSetters(vals)
		lens := []int{0, 1, 2, 3, 4, 5}
		bigLens := []int{16, 17, 100}
		if thorough {
			lens = []int{0, 1, 2, 3, 4, 5, 6, 7, 8, 9, 15, 16, 17, 31, 33}
			bigLens = []int{16, 17, 64, 100, 255, 256, 257}
			if nb <= 32 {
				bigLens = append(bigLens, 1000)
			}
		}
		m.vectors(vals, lens, bigLens)
		// (ii) all two-call histories start from a loaded element; seeded random calls
		for i := 0; i < nHist; i++ {
			m.loadVal(vals[rng.Intn(len(vals))])
			m.randomCall(vals, ints)
			m.randomCall(vals, ints)
		}
		for i := 0; i < nRand; i++ {
			m.randomCall(vals, ints)
		}
		total += t.Close()
	}
	fmt.Printf("c08: %d events, %d fields\n", total, len(names))
}
