package main

// C13 driver: hash-to-field and hash-to-curve of the real gnark-crypto code.
//
// Three kinds of traces, all judged by spec/C13_hash2curve/TraceH2C.tla (nothing is judged here):
//   c13_xmd                 hash.ExpandMsgXmd over the (msg, dst, len) lattice of the model
//   c13_h2f_<field>         <field>.Hash for each of the 23 fields + the hash.Hash wrapper of the
//                           hash_to_field packages: every word of the model's alphabet (New, Write, Sum,
//                           Reset, MutDomain, MutWritten) up to a depth, and seeded random histories
//   c13_h2c_<curve>_<G>     MapToCurve / MapToG / EncodeTo / HashTo of every group, the exported helpers of
//                           ecc/<curve>/hash_to_curve (Sgn0, NotZero, MulByZ, SqrtRatio, Isogeny, constants);
//                           u from the boundary lattice, the EXCEPTIONAL inputs computed by TLC from the
//                           specification (-inputs, spec/C13_hash2curve/GenInputs.tla) and seeded random
//                           values; messages incl. the inputs of the published RFC 9380 vectors
// Every call is made twice where determinism is part of the property (out / out2); read-only arguments
// are logged again after the call.

import (
	"bytes"
	"encoding/json"
	"flag"
	"fmt"
	"hash"
	"math/big"
	"os"
	"reflect"
	"strings"

	fhash "github.com/consensys/gnark-crypto/field/hash"
)

func init() { register("c13", runC13) }

// ---------------------------------------------------------------------------------------
// byte-string lattices

func c13Pattern(n int, seed byte) []byte {
	b := make([]byte, n)
	for i := range b {
		b[i] = byte(i)*7 + seed
	}
	return b
}

func c13Msgs(r *Rng, tier string) [][]byte {
	out := [][]byte{nil, {}, {0}, []byte("abc"), c13Pattern(31, 1), c13Pattern(32, 2), c13Pattern(33, 3), c13Pattern(55, 4),
		c13Pattern(56, 5), c13Pattern(64, 6), c13Pattern(65, 7), c13Pattern(119, 8), c13Pattern(120, 9), c13Pattern(300, 10)}
	n := 6
	if tier == "thorough" {
		n = 40
	}
	for i := 0; i < n; i++ {
		out = append(out, r.Bytes(r.Intn(200)))
	}
	return out
}

func c13Dsts(r *Rng) [][]byte {
	return [][]byte{nil, {}, {7}, []byte("QUUX-V01-CS02-with-expander-SHA256-128"), c13Pattern(16, 11), c13Pattern(254, 12),
		c13Pattern(255, 13), c13Pattern(256, 14), c13Pattern(257, 15), c13Pattern(700, 16), r.Bytes(1 + r.Intn(254))}
}

func c13Copy(b []byte) []byte {
	if b == nil {
		return nil
	}
	return append([]byte{}, b...)
}

// c13Views hands msg and dst to the library as two views into ONE buffer, dst first (spare capacity reaching over msg),
// followed by sentinel bytes: code that appends to an argument writes into its neighbour. after() returns what the caller's
// memory holds afterwards; damage behind msg is reported as extra bytes of msg (the spec demands msgafter = msg).
func c13Views(msg, dst []byte) (m, d []byte, after func() ([]byte, []byte)) {
	buf := make([]byte, 0, len(dst)+len(msg)+16)
	buf = append(buf, dst...)
	buf = append(buf, msg...)
	for i := 0; i < 16; i++ {
		buf = append(buf, byte(0xC3^i))
	}
	shadow := append([]byte{}, buf...)
	if dst != nil {
		d = buf[0:len(dst)]
	}
	if msg != nil {
		m = buf[len(dst) : len(dst)+len(msg)]
	}
	after = func() ([]byte, []byte) {
		ma, da := append([]byte{}, buf[len(dst):len(dst)+len(msg)]...), append([]byte{}, buf[:len(dst)]...)
		if msg == nil {
			ma = nil
		}
		if dst == nil {
			da = nil
		}
		if !bytes.Equal(buf[len(dst)+len(msg):], shadow[len(dst)+len(msg):]) {
			ma = append(ma, buf[len(dst)+len(msg):]...)
		}
		return ma, da
	}
	return
}

func c13Err(v reflect.Value) (string, bool) {
	if v.IsNil() {
		return "", false
	}
	return v.Interface().(error).Error(), true
}

// ---------------------------------------------------------------------------------------
// expand_message_xmd and Hash

func c13XmdEvent(t *TraceWriter, msg, dst []byte, n int) {
	m, d, after := c13Views(msg, dst)
	e := Ev{"op": "ExpandMsgXmd", "msg": bytesToInts(msg), "dst": bytesToInts(dst), "len": n}
	out, pm, pk := call(reflect.ValueOf(fhash.ExpandMsgXmd), reflect.ValueOf(m), reflect.ValueOf(d), reflect.ValueOf(n))
	if pk {
		e["panic"] = pm
	} else {
		if s, bad := c13Err(out[1]); bad {
			e["err"] = s
		} else {
			e["out"] = bytesToInts(out[0].Bytes())
		}
		ma, da := after()
		e["msgafter"] = bytesToInts(ma)
		e["dstafter"] = bytesToInts(da)
	}
	t.Emit(e)
}

func c13HashEvent(t *TraceWriter, f *Field, msg, dst []byte, count int) {
	m, d, after := c13Views(msg, dst)
	e := Ev{"op": "Hash", "msg": bytesToInts(msg), "dst": bytesToInts(dst), "count": count}
	out, pm, pk := call(f.Funcs["Hash"], reflect.ValueOf(m), reflect.ValueOf(d), reflect.ValueOf(count))
	if pk {
		e["panic"] = pm
	} else {
		if s, bad := c13Err(out[1]); bad {
			e["err"] = s
		} else {
			raws := [][]int{}
			for i := 0; i < out[0].Len(); i++ {
				raws = append(raws, digits(f.Raw(out[0].Index(i).Addr())))
			}
			e["out"] = raws
		}
		ma, da := after()
		e["msgafter"] = bytesToInts(ma)
		e["dstafter"] = bytesToInts(da)
	}
	t.Emit(e)
}

// ---------------------------------------------------------------------------------------
// the hash.Hash wrapper (hash_to_field.New)

type c13Obj struct {
	t       *TraceWriter
	mk      func([]byte) hash.Hash
	h       hash.Hash
	dom     []byte
	written [][]byte
}

func c13Guard(e Ev, f func()) {
	defer func() {
		if x := recover(); x != nil {
			msg := strings.SplitN(fmt.Sprint(x), "\n", 2)[0]
			if len(msg) > 120 {
				msg = msg[:120]
			}
			e["panic"] = msg
		}
	}()
	f()
}

func (o *c13Obj) New(dst []byte) {
	o.dom = c13Copy(dst)
	o.written = nil
	e := Ev{"op": "HNew", "dst": bytesToInts(dst)}
	c13Guard(e, func() { o.h = o.mk(o.dom) })
	o.t.Emit(e)
}
func (o *c13Obj) Write(p []byte) {
	q := c13Copy(p)
	e := Ev{"op": "HWrite", "p": bytesToInts(p)}
	c13Guard(e, func() {
		n, err := o.h.Write(q)
		e["n"] = n
		if err != nil {
			e["err"] = err.Error()
		}
		e["pafter"] = bytesToInts(q)
	})
	o.written = append(o.written, q)
	o.t.Emit(e)
}
func (o *c13Obj) Sum(b []byte) {
	// spare capacity behind b: an implementation may append in place, it must not touch b[:len(b)]
	q := append(make([]byte, 0, len(b)+80), b...)
	e := Ev{"op": "HSum", "b": bytesToInts(b)}
	c13Guard(e, func() {
		out := o.h.Sum(q)
		e["out"] = bytesToInts(out)
		e["bafter"] = bytesToInts(q)
	})
	o.t.Emit(e)
}
func (o *c13Obj) Reset() {
	e := Ev{"op": "HReset"}
	c13Guard(e, func() { o.h.Reset() })
	o.t.Emit(e)
}
func (o *c13Obj) Sizes() {
	e := Ev{"op": "HSize"}
	c13Guard(e, func() { e["ret"] = o.h.Size() })
	o.t.Emit(e)
	e = Ev{"op": "HBlockSize"}
	c13Guard(e, func() { e["ret"] = o.h.BlockSize() })
	o.t.Emit(e)
}

// caller-side events: overwrite the slices handed to New / Write
func (o *c13Obj) MutDomain() {
	for i := range o.dom {
		o.dom[i] = 0xEE
	}
	o.t.Emit(Ev{"op": "HMutDomain"})
}
func (o *c13Obj) MutWritten() {
	for _, w := range o.written {
		for i := range w {
			w[i] = 0xEE
		}
	}
	o.t.Emit(Ev{"op": "HMutWritten"})
}

// the alphabet of the model MCHashToCurve (part "h2f") on the real object
func (o *c13Obj) symbol(s int) {
	switch s {
	case 0:
		o.New([]byte{7})
	case 1:
		o.New([]byte("QUUX-V01-CS02-with-expander-SHA256-128"))
	case 2:
		o.Write([]byte{1})
	case 3:
		o.Write([]byte{2, 3})
	case 4:
		o.Write(nil)
	case 5:
		o.Reset()
	case 6:
		o.Sum(nil)
	case 7:
		o.Sum([]byte{9})
	case 8:
		o.MutDomain()
	case 9:
		o.MutWritten()
	}
}

const c13NSymbols = 10

func c13HasherTraces(t *TraceWriter, mk func([]byte) hash.Hash, r *Rng, tier string) {
	o := &c13Obj{t: t, mk: mk}
	depth := 3
	if tier == "thorough" {
		depth = 4
	}
	// (i) every word of length depth, each on a fresh object and closed by a Sum
	word := make([]int, depth)
	var rec func(i int)
	rec = func(i int) {
		if i == depth {
			o.New([]byte{5, 5})
			for _, s := range word {
				o.symbol(s)
			}
			o.Sum(nil)
			return
		}
		for s := 0; s < c13NSymbols; s++ {
			word[i] = s
			rec(i + 1)
		}
	}
	rec(0)
	// (ii) edge cases: inadmissible domain (Sum is documented to panic), empty domain, sizes, long writes
	for _, d := range [][]byte{nil, {}, c13Pattern(255, 3), c13Pattern(256, 4), c13Pattern(300, 5)} {
		o.New(d)
		o.Sizes()
		o.Write([]byte("abc"))
		o.Sum(nil)
		o.Sum([]byte{1, 2, 3})
		o.Reset()
		o.Sum(nil)
	}
	o.New([]byte("dst"))
	o.Write(c13Pattern(1000, 1))
	o.Sum(nil)
	o.Write(c13Pattern(64, 2))
	o.Sum(c13Pattern(40, 3))
	// (iii) seeded random histories
	n := 40
	if tier == "thorough" {
		n = 400
	}
	for i := 0; i < n; i++ {
		o.New(r.Bytes(r.Intn(40)))
		for j := 0; j < 4+r.Intn(8); j++ {
			switch r.Intn(8) {
			case 0, 1, 2:
				o.Write(r.Bytes(r.Intn(70)))
			case 3, 4:
				o.Sum(r.Bytes(r.Intn(5)))
			case 5:
				o.Reset()
			case 6:
				o.MutDomain()
			default:
				o.MutWritten()
			}
		}
		o.Sum(nil)
	}
}

// ---------------------------------------------------------------------------------------
// curves

type c13Group struct {
	c      *Curve
	gr     *Group
	g      string
	idx    string
	t      *TraceWriter
	leaves int
}

func c13CountLeaves(t reflect.Type) int {
	if isElem(t) {
		return 1
	}
	n := 0
	for i := 0; i < t.NumField(); i++ {
		n += c13CountLeaves(t.Field(i).Type)
	}
	return n
}

// coordinate (pointer) with the given leaf values (tower order, depth first)
func (x *c13Group) coord(vals []*big.Int) reflect.Value {
	z := reflect.New(x.gr.CoordT)
	i := 0
	var fill func(v reflect.Value)
	fill = func(v reflect.Value) {
		if isElem(v.Type()) {
			x.c.Fp.SetRaw(v.Addr(), x.c.Fp.ToMont(new(big.Int).Mod(vals[i], x.c.Fp.Q)))
			i++
			return
		}
		for j := 0; j < v.NumField(); j++ {
			fill(v.Field(j))
		}
	}
	fill(z.Elem())
	return z
}

// fn resolves MapToCurve1/2, MapToG1/2, EncodeToG1/2, HashToG1/2
func (x *c13Group) fn(name string) reflect.Value {
	full := name + x.g
	if name == "MapToCurve" {
		full = name + x.idx
	} else if name == "MapToG" {
		full = "MapTo" + x.g
	}
	if f, ok := x.c.Funcs[full]; ok {
		return f
	}
	return reflect.Value{}
}
func (x *c13Group) helper(name string) reflect.Value {
	if m, ok := c13H2C[x.c.Name]; ok {
		if f, ok := m[x.g+name]; ok {
			return f
		}
	}
	return reflect.Value{}
}

// arg adapts a coordinate pointer to the parameter type of fn at position i
func c13Arg(fn reflect.Value, i int, p reflect.Value) reflect.Value {
	if fn.Type().In(i).Kind() == reflect.Ptr {
		return p
	}
	return p.Elem()
}

// MapToCurve / MapToG: called twice on fresh copies of u
func (x *c13Group) mapEvent(op string, fn reflect.Value, u reflect.Value, src string) {
	if !fn.IsValid() {
		return
	}
	e := Ev{"op": op, "u": enc(u), "src": src}
	uc := clonePtr(u)
	out, pm, pk := call(fn, c13Arg(fn, 0, uc))
	if pk {
		e["panic"] = pm
	} else {
		e["out"] = enc(out[0])
		e["uafter"] = enc(uc)
		out2, pm2, pk2 := call(fn, c13Arg(fn, 0, clonePtr(u)))
		if pk2 {
			e["panic"] = "second call: " + pm2
		} else {
			e["out2"] = enc(out2[0])
		}
	}
	x.t.Emit(e)
}

// EncodeTo / HashTo
func (x *c13Group) msgEvent(op string, fn reflect.Value, msg, dst []byte) {
	if !fn.IsValid() {
		return
	}
	e := Ev{"op": op, "msg": bytesToInts(msg), "dst": bytesToInts(dst)}
	m, d, after := c13Views(msg, dst)
	out, pm, pk := call(fn, reflect.ValueOf(m), reflect.ValueOf(d))
	if pk {
		e["panic"] = pm
	} else {
		if s, bad := c13Err(out[1]); bad {
			e["err"] = s
		} else {
			e["out"] = enc(out[0])
			out2, pm2, pk2 := call(fn, reflect.ValueOf(c13Copy(msg)), reflect.ValueOf(c13Copy(dst)))
			if pk2 {
				e["panic"] = "second call: " + pm2
			} else if s2, bad2 := c13Err(out2[1]); bad2 {
				e["err2"] = s2
			} else {
				e["out2"] = enc(out2[0])
			}
		}
		ma, da := after()
		e["msgafter"] = bytesToInts(ma)
		e["dstafter"] = bytesToInts(da)
	}
	x.t.Emit(e)
}

func (x *c13Group) helperEvents(us []reflect.Value, r *Rng) {
	if f := x.helper("Sgn0"); f.IsValid() {
		for _, u := range us {
			e := Ev{"op": "Sgn0", "u": enc(u)}
			uc := clonePtr(u)
			out, pm, pk := call(f, uc)
			if pk {
				e["panic"] = pm
			} else {
				e["ret"] = int(out[0].Uint() & 0x7fffffff)
				e["uafter"] = enc(uc)
			}
			x.t.Emit(e)
		}
	}
	if f := x.helper("NotZero"); f.IsValid() {
		for _, u := range us {
			e := Ev{"op": "NotZero", "u": enc(u)}
			out, pm, pk := call(f, clonePtr(u))
			if pk {
				e["panic"] = pm
			} else {
				e["nz"] = out[0].Uint() != 0
			}
			x.t.Emit(e)
		}
	}
	if f := x.helper("MulByZ"); f.IsValid() {
		for _, u := range us {
			e := Ev{"op": "MulByZ", "u": enc(u)}
			uc := clonePtr(u)
			z := x.gr.RandCoord(r)
			_, pm, pk := call(f, z, uc)
			if pk {
				e["panic"] = pm
			} else {
				e["out"] = enc(z)
				e["uafter"] = enc(uc)
			}
			x.t.Emit(e)
		}
		// aliased destination
		if len(us) > 3 {
			u := clonePtr(us[3])
			e := Ev{"op": "MulByZ", "u": enc(u)}
			_, pm, pk := call(f, u, u)
			if pk {
				e["panic"] = pm
			} else {
				e["out"] = enc(u)
			}
			x.t.Emit(e)
		}
	}
	if f := x.helper("SqrtRatio"); f.IsValid() {
		zero := reflect.New(x.gr.CoordT)
		for i, u := range us {
			pairs := [][2]reflect.Value{{u, x.gr.RandCoord(r)}, {x.gr.RandCoord(r), u}}
			if i == 0 {
				pairs = append(pairs, [2]reflect.Value{zero, x.gr.RandCoord(r)})
			}
			for _, nd := range pairs {
				if method(nd[1], "IsZero").Call(nil)[0].Bool() {
					continue // documented: v = 0 is meaningless, the output is unspecified
				}
				e := Ev{"op": "SqrtRatio", "num": enc(nd[0]), "den": enc(nd[1])}
				z := x.gr.RandCoord(r)
				nc, dc := clonePtr(nd[0]), clonePtr(nd[1])
				out, pm, pk := call(f, z, nc, dc)
				if pk {
					e["panic"] = pm
				} else {
					e["out"] = enc(z)
					e["ret"] = int(out[0].Uint() & 0x7fffffff)
					e["numafter"] = enc(nc)
					e["denafter"] = enc(dc)
				}
				x.t.Emit(e)
			}
		}
	}
	if f := x.helper("SSWUIsogenyCurveCoefficients"); f.IsValid() {
		e := Ev{"op": "IsoCurveCoeffs"}
		out, pm, pk := call(f)
		if pk {
			e["panic"] = pm
		} else {
			e["A"] = enc(out[0])
			e["B"] = enc(out[1])
		}
		x.t.Emit(e)
	}
	if f := x.helper("SSWUIsogenyZ"); f.IsValid() {
		e := Ev{"op": "IsoZ"}
		out, pm, pk := call(f)
		if pk {
			e["panic"] = pm
		} else {
			e["Z"] = enc(out[0])
		}
		x.t.Emit(e)
	}
	if f := x.helper("IsogenyMap"); f.IsValid() {
		e := Ev{"op": "IsogenyMap"}
		out, pm, pk := call(f)
		if pk {
			e["panic"] = pm
		} else {
			m := out[0]
			e["xn"] = enc(m.Index(0))
			e["xd"] = enc(m.Index(1))
			e["yn"] = enc(m.Index(2))
			e["yd"] = enc(m.Index(3))
		}
		x.t.Emit(e)
	}
	if f := x.helper("Isogeny"); f.IsValid() {
		mc := x.fn("MapToCurve")
		for i, u := range us {
			var px, py reflect.Value
			if i%4 == 3 {
				px, py = x.gr.RandCoord(r), x.gr.RandCoord(r) // any pair: the map is a pair of rational functions
			} else {
				out, _, pk := call(mc, c13Arg(mc, 0, clonePtr(u))) // a point of the isogenous curve (input construction)
				if pk {
					continue
				}
				px, py = reflect.New(x.gr.CoordT), reflect.New(x.gr.CoordT)
				px.Elem().Set(out[0].Field(0))
				py.Elem().Set(out[0].Field(1))
			}
			e := Ev{"op": "Isogeny", "P": map[string]any{"X": enc(px), "Y": enc(py)}}
			_, pm, pk := call(f, px, py)
			if pk {
				e["panic"] = pm
			} else {
				e["out"] = map[string]any{"X": enc(px), "Y": enc(py)}
			}
			x.t.Emit(e)
		}
	}
}

type c13GenGroup struct {
	Curve string    `json:"curve"`
	G     string    `json:"g"`
	Map   string    `json:"map"`
	Exc   [][][]int `json:"exc"`
}

func c13DigitsToBig(d []int) *big.Int {
	x := new(big.Int)
	for i := len(d) - 1; i >= 0; i-- {
		x.Lsh(x, digitBits).Or(x, big.NewInt(int64(d[i])))
	}
	return x
}

// the inputs of the published RFC 9380 vectors (appendix J.9, J.10); the expected outputs live in the specification
var c13RFCMsgs = []string{"", "abc", "abcdef0123456789",
	"q128_" + strings.Repeat("q", 128), "a512_" + strings.Repeat("a", 512)}

func (x *c13Group) run(r *Rng, tier string, exc [][]*big.Int) {
	q := x.c.Fp.Q
	one := big.NewInt(1)
	half := new(big.Int).Rsh(q, 1)
	base := []*big.Int{big.NewInt(0), one, new(big.Int).Sub(q, one), big.NewInt(2), new(big.Int).Sub(q, big.NewInt(2)), half,
		new(big.Int).Add(half, one), big.NewInt(3)}
	var us []reflect.Value
	var srcs []string // provenance of each input: lat (boundary lattice), exc (exceptional, from the model), rnd
	zeros := func() []*big.Int {
		v := make([]*big.Int, x.leaves)
		for i := range v {
			v[i] = big.NewInt(0)
		}
		return v
	}
	if x.leaves == 1 {
		for _, b := range base {
			us = append(us, x.coord([]*big.Int{b}))
		}
	} else {
		us = append(us, x.coord(zeros()))
		for i := 0; i < x.leaves; i++ {
			for _, b := range []*big.Int{one, new(big.Int).Sub(q, one), half, r.Below(q)} {
				v := zeros()
				v[i] = b
				us = append(us, x.coord(v))
			}
		}
		v := zeros()
		for i := range v {
			v[i] = one
		}
		us = append(us, x.coord(v))
	}
	for range us {
		srcs = append(srcs, "lat")
	}
	for _, e := range exc { // the exceptional inputs computed from the specification
		us = append(us, x.coord(e))
		srcs = append(srcs, "exc")
	}
	nr := 10
	if tier == "thorough" {
		nr = 120
	}
	slow := x.leaves >= 4 || x.c.Fp.Q.BitLen() > 600
	if slow && tier != "thorough" {
		nr = 6
	}
	for i := 0; i < nr; i++ {
		us = append(us, x.gr.RandCoord(r))
		srcs = append(srcs, "rnd")
	}
	mc, mg := x.fn("MapToCurve"), x.fn("MapToG")
	for i, u := range us {
		x.mapEvent("MapToCurve", mc, u, srcs[i])
	}
	for i, u := range us {
		x.mapEvent("MapToG", mg, u, srcs[i])
	}
	// messages
	suite := strings.ToUpper(strings.ReplaceAll(x.c.Name, "-", "")) + x.g
	ro := []byte("QUUX-V01-CS02-with-" + suite + "_XMD:SHA-256_SSWU_RO_")
	nu := []byte("QUUX-V01-CS02-with-" + suite + "_XMD:SHA-256_SSWU_NU_")
	enc1, hsh := x.fn("EncodeTo"), x.fn("HashTo")
	for _, m := range c13RFCMsgs {
		x.msgEvent("EncodeTo", enc1, []byte(m), nu)
		x.msgEvent("HashTo", hsh, []byte(m), ro)
	}
	dsts := [][]byte{nil, {1}, c13Pattern(255, 9), c13Pattern(256, 9), c13Pattern(400, 9)}
	for i, d := range dsts {
		x.msgEvent("EncodeTo", enc1, c13Pattern(i*17, 3), d)
		x.msgEvent("HashTo", hsh, c13Pattern(i*17, 3), d)
	}
	nm := 4
	if tier == "thorough" {
		nm = 40
	}
	if slow && tier != "thorough" {
		nm = 2
	}
	for i := 0; i < nm; i++ {
		x.msgEvent("EncodeTo", enc1, r.Bytes(r.Intn(150)), r.Bytes(1+r.Intn(60)))
		x.msgEvent("HashTo", hsh, r.Bytes(r.Intn(150)), r.Bytes(1+r.Intn(60)))
	}
	// exported helpers
	hu := us
	if len(hu) > 24 && tier != "thorough" {
		hu = append(append([]reflect.Value{}, us[:14]...), us[len(us)-10:]...)
	}
	x.helperEvents(hu, r)
}

func runC13(args []string) {
	fs := flag.NewFlagSet("c13", flag.ExitOnError)
	out := fs.String("out", ".", "output directory")
	seed := fs.Uint64("seed", 1, "seed")
	tier := fs.String("tier", "quick", "quick|thorough")
	inputs := fs.String("inputs", "", "JSON written by GenInputs.tla (exceptional inputs per group)")
	only := fs.String("only", "", "xmd|h2f|h2c (default all)")
	fs.Parse(args)
	hseed := int(*seed % (1 << 30))
	total := 0
	want := func(k string) bool { return *only == "" || *only == k }

	// ---- expand_message_xmd
	if want("xmd") {
		r := newRng(*seed*7919 + 13)
		t := newTrace(*out, "c13_xmd", Ev{"property": "C13", "kind": "xmd", "seed": hseed})
		msgs, dsts := c13Msgs(r, *tier), c13Dsts(r)
		// every short length with a few (msg, dst), the block boundaries, the limits
		for n := 0; n <= 70; n++ {
			c13XmdEvent(t, msgs[n%len(msgs)], dsts[3], n)
			c13XmdEvent(t, msgs[(n+5)%len(msgs)], dsts[n%len(dsts)], n)
		}
		for _, n := range []int{95, 96, 97, 127, 128, 129, 255, 256, 257, 1000, 4096, 8128, 8129, 8159, 8160, 8161, 8192, 10000, 65535, 65536, 65537, 100000, 1 << 20} {
			c13XmdEvent(t, msgs[n%len(msgs)], dsts[3], n)
			c13XmdEvent(t, msgs[(n+1)%len(msgs)], dsts[(n+2)%len(dsts)], n)
		}
		for _, m := range msgs {
			for _, d := range dsts {
				c13XmdEvent(t, m, d, 32)
				c13XmdEvent(t, m, d, 48*(1+len(m)%3))
			}
		}
		nrand := 150
		if *tier == "thorough" {
			nrand = 1500
		}
		for i := 0; i < nrand; i++ {
			c13XmdEvent(t, r.Bytes(r.Intn(300)), r.Bytes(r.Intn(258)), r.Intn(400))
		}
		total += t.Close()
	}

	// ---- Hash of the 23 fields and the hash.Hash wrappers
	if want("h2f") {
		for _, name := range fieldNames {
			f := fields[name]
			r := newRng(*seed*4099 + uint64(len(name))*131 + uint64(name[0]))
			t := newTrace(*out, "c13_h2f_"+strings.ReplaceAll(name, "/", "_"), Ev{"property": "C13", "kind": "h2f", "field": name, "seed": hseed, "L": 16 + f.NBytes})
			msgs, dsts := c13Msgs(r, *tier), c13Dsts(r)
			L := 16 + f.NBytes
			maxc := 8160 / L
			counts := []int{0, 1, 2, 3, 4, 5, maxc - 1, maxc, maxc + 1, maxc + 50}
			// lattice: every count with every dst class, messages rotating
			k := 0
			for _, c := range counts {
				for _, d := range dsts {
					c13HashEvent(t, f, msgs[k%len(msgs)], d, c)
					k++
				}
			}
			// every message with the small counts
			for i, m := range msgs {
				for c := 0; c <= 4; c++ {
					c13HashEvent(t, f, m, dsts[(3+i*c)%len(dsts)], c)
				}
			}
			nrand := 60
			if *tier == "thorough" {
				nrand = 600
			}
			for i := 0; i < nrand; i++ {
				c13HashEvent(t, f, r.Bytes(r.Intn(200)), r.Bytes(r.Intn(258)), r.Intn(7))
			}
			if mk, ok := c13Hashers[name]; ok {
				c13HasherTraces(t, mk, r, *tier)
			}
			total += t.Close()
		}
	}

	// ---- curves
	if want("h2c") {
		gen := map[string][][]*big.Int{}
		if *inputs != "" {
			raw, err := os.ReadFile(*inputs)
			if err != nil {
				fatal("inputs: %v", err)
			}
			var gg []c13GenGroup
			if err := json.Unmarshal(raw, &gg); err != nil {
				fatal("inputs: %v", err)
			}
			for _, g := range gg {
				var l [][]*big.Int
				for _, e := range g.Exc {
					var v []*big.Int
					for _, d := range e {
						v = append(v, c13DigitsToBig(d))
					}
					l = append(l, v)
				}
				gen[g.Curve+"/"+g.G] = l
			}
		}
		for _, name := range curveNames {
			c := curves[name]
			for _, gn := range []string{"G1", "G2"} {
				gr := c.Group(gn)
				if gr == nil {
					continue
				}
				x := &c13Group{c: c, gr: gr, g: gn, idx: gn[1:], leaves: c13CountLeaves(gr.CoordT)}
				if !x.fn("MapToCurve").IsValid() {
					continue
				}
				r := newRng(*seed*6007 + uint64(len(name))*53 + uint64(gn[1]))
				x.t = newTrace(*out, "c13_h2c_"+name+"_"+gn, Ev{"property": "C13", "kind": "h2c", "curve": name, "g": gn, "seed": hseed,
					"nexc": len(gen[name+"/"+gn])})
				x.run(r, *tier, gen[name+"/"+gn])
				total += x.t.Close()
			}
		}
	}
	fmt.Printf("c13: %d events\n", total)
}
