package main

// C18 driver: purity, repeatability and concurrent use of shared read-only objects.
// A subject is an exported computation together with the objects it must not modify. Each subject
// is run sequentially several times (with other subjects in between), then by 2..64 goroutines at
// once, under several GOMAXPROCS values; the digests of the results and of the shared objects
// before / after are logged. The same driver is also run as `-race -tags purego` (the orchestrator
// turns race-detector reports into events) and against a poisoned field/pool.

import (
	"bytes"
	"crypto/sha256"
	"encoding/hex"
	"encoding/json"
	"flag"
	"fmt"
	"math/big"
	"os"
	"reflect"
	"runtime"
	"strings"
	"sync"

	"github.com/consensys/gnark-crypto/ecc"
	bn254 "github.com/consensys/gnark-crypto/ecc/bn254"
	bn254ecdsa "github.com/consensys/gnark-crypto/ecc/bn254/ecdsa"
	bn254fr "github.com/consensys/gnark-crypto/ecc/bn254/fr"
	bn254fft "github.com/consensys/gnark-crypto/ecc/bn254/fr/fft"
	bn254mimc "github.com/consensys/gnark-crypto/ecc/bn254/fr/mimc"
	bn254poly "github.com/consensys/gnark-crypto/ecc/bn254/fr/polynomial"
	bn254p2 "github.com/consensys/gnark-crypto/ecc/bn254/fr/poseidon2"
	bn254kzg "github.com/consensys/gnark-crypto/ecc/bn254/kzg"
	bn254eddsa "github.com/consensys/gnark-crypto/ecc/bn254/twistededwards/eddsa"
	kbfft "github.com/consensys/gnark-crypto/field/koalabear/fft"
	kb "github.com/consensys/gnark-crypto/field/koalabear"
	kbp2 "github.com/consensys/gnark-crypto/field/koalabear/poseidon2"
	kbsis "github.com/consensys/gnark-crypto/field/koalabear/sis"
)

func init() { register("c18", runC18) }

func x3(k uint64) (e bn254fr.Element) {
	e.SetUint64(k * 1000003)
	e.Exp(e, big.NewInt(5))
	return
}

func g1GenAff() bn254.G1Affine { _, _, a, _ := bn254.Generators(); return a }
func g2GenAff() bn254.G2Affine { _, _, _, a := bn254.Generators(); return a }

type subject struct {
	reset     func() // optional: re-creates the shared objects at the start of every round
	concFirst bool   // the first use of the (fresh) shared objects is concurrent
	name      string
	shared []any              // objects that must be left untouched (pointers, slices)
	run    func(variant int) any // result; variant selects a task count where the API has one
}

func digestOf(x any) string {
	var v any
	switch t := x.(type) {
	case []byte:
		v = bytesToInts(t)
	case string, int, bool, []int, []string:
		v = t
	case func() any: // a view of shared objects taken at digest time
		return digestOf(t())
	default:
		v = enc(reflect.ValueOf(x))
	}
	b, err := json.Marshal(v)
	if err != nil {
		fatal("digest: %v", err)
	}
	h := sha256.Sum256(b)
	return hex.EncodeToString(h[:10])
}

func digests(xs []any) []string {
	out := make([]string, len(xs))
	for i, x := range xs {
		out[i] = digestOf(x)
	}
	return out
}

type zeroReader struct{ n byte }

func (z *zeroReader) Read(p []byte) (int, error) {
	for i := range p {
		z.n = z.n*167 + 13
		p[i] = z.n
	}
	return len(p), nil
}

func safeRun(s *subject, variant int) (res string) {
	defer func() {
		if r := recover(); r != nil {
			res = "panic"
		}
	}()
	return digestOf(s.run(variant))
}

func pairingSubjects(name string, r *Rng) []*subject {
	c := curves[name]
	g1, g2 := c.Group("G1"), c.Group("G2")
	P := reflect.MakeSlice(reflect.SliceOf(g1.AffT), 2, 2)
	Q := reflect.MakeSlice(reflect.SliceOf(g2.AffT), 2, 2)
	P.Index(0).Set(g1.MulGen(r.Below(c.Fr.Q)).Elem())
	P.Index(1).Set(g1.MulGen(big.NewInt(7)).Elem())
	Q.Index(0).Set(g2.GenAff.Elem())
	Q.Index(1).Set(g2.MulGen(r.Below(c.Fr.Q)).Elem())
	pl := c.Funcs["PrecomputeLines"]
	l0 := pl.Call([]reflect.Value{Q.Index(0)})[0]
	lines := reflect.MakeSlice(reflect.SliceOf(l0.Type()), 2, 2)
	lines.Index(0).Set(l0)
	lines.Index(1).Set(pl.Call([]reflect.Value{Q.Index(1)})[0])
	mk := func(fn string, args ...reflect.Value) *subject {
		sh := make([]any, len(args))
		for i, a := range args {
			sh[i] = a.Interface()
		}
		return &subject{name: name + "." + fn, shared: sh, run: func(int) any {
			out := c.Funcs[fn].Call(args)
			if !out[1].IsNil() {
				return "error"
			}
			if out[0].Kind() == reflect.Bool {
				return out[0].Bool()
			}
			p := reflect.New(out[0].Type())
			p.Elem().Set(out[0])
			return p.Interface()
		}}
	}
	// three pairs with a point at infinity in the middle of each list in turn (the variants filter such pairs out: the
	// caller's slices are not theirs to compact)
	P3 := reflect.MakeSlice(reflect.SliceOf(g1.AffT), 3, 3)
	Q3 := reflect.MakeSlice(reflect.SliceOf(g2.AffT), 3, 3)
	P3.Index(0).Set(P.Index(0))
	P3.Index(2).Set(P.Index(1))
	Q3.Index(0).Set(Q.Index(0))
	Q3.Index(1).Set(g2.MulGen(big.NewInt(3)).Elem())
	Q3.Index(2).Set(Q.Index(1))
	P4 := reflect.MakeSlice(reflect.SliceOf(g1.AffT), 3, 3)
	Q4 := reflect.MakeSlice(reflect.SliceOf(g2.AffT), 3, 3)
	reflect.Copy(P4, P3)
	reflect.Copy(Q4, Q3)
	P4.Index(1).Set(g1.MulGen(big.NewInt(5)).Elem())
	Q4.Index(1).Set(reflect.Zero(g2.AffT))
	mkn := func(tag, fn string, args ...reflect.Value) *subject {
		sb := mk(fn, args...)
		sb.name = name + "." + fn + "." + tag
		return sb
	}
	return []*subject{mk("Pair", P, Q), mk("MillerLoop", P, Q), mk("PairingCheck", P, Q), mk("PairFixedQ", P, lines), mk("MillerLoopFixedQ", P, lines),
		mk("PairingCheckFixedQ", P, lines),
		mkn("infP", "Pair", P3, Q3), mkn("infP", "MillerLoop", P3, Q3), mkn("infP", "PairingCheck", P3, Q3),
		mkn("infQ", "Pair", P4, Q4), mkn("infQ", "MillerLoop", P4, Q4)}
}

func msmSubject(name, gn string, r *Rng, n int) *subject {
	c := curves[name]
	g := c.Group(gn)
	rc := &recipe{pat: "lin", n: n, A: r.Below(c.Fr.Q), B: r.Below(c.Fr.Q), C: r.Below(c.Fr.Q), D: r.Below(c.Fr.Q), r: c.Fr.Q}
	pts, scs := g.buildInputs(rc)
	tasks := []int{1, 3, 16, 0, 7}
	return &subject{name: name + "." + gn + ".MultiExp", shared: []any{pts.Interface(), scs.Interface()}, run: func(v int) any {
		recv := g.NewJac()
		out := method(recv, "MultiExp").Call([]reflect.Value{pts, scs, reflect.ValueOf(ecc.MultiExpConfig{NbTasks: tasks[v%len(tasks)]})})
		if !out[1].IsNil() {
			return "error"
		}
		a := g.NewAff()
		method(a, "FromJacobian").Call([]reflect.Value{recv})
		return a.Interface()
	}}
}

func bn254Subjects(r *Rng) []*subject {
	var subs []*subject
	// KZG with one SRS / verifying key
	srs, err := bn254kzg.NewSRS(64, big.NewInt(424242))
	if err != nil {
		fatal("srs: %v", err)
	}
	poly := make([]bn254fr.Element, 40)
	for i := range poly {
		poly[i].SetBigInt(r.Below(bn254fr.Modulus()))
	}
	var z bn254fr.Element
	z.SetUint64(77)
	com, _ := bn254kzg.Commit(poly, srs.Pk)
	proof, _ := bn254kzg.Open(poly, z, srs.Pk)
	subs = append(subs,
		&subject{name: "bn254.kzg.Commit", shared: []any{poly, srs.Pk.G1}, run: func(v int) any {
			d, e := bn254kzg.Commit(poly, srs.Pk, []int{1, 4, 16}[v%3])
			if e != nil {
				return "error"
			}
			return &d
		}},
		&subject{name: "bn254.kzg.Open", shared: []any{poly, srs.Pk.G1}, run: func(int) any {
			p, e := bn254kzg.Open(poly, z, srs.Pk)
			if e != nil {
				return "error"
			}
			return []any{&p.H, &p.ClaimedValue}
		}},
		&subject{name: "bn254.kzg.Verify", shared: []any{&com, &proof.H, &proof.ClaimedValue, &srs.Vk.G1, srs.Vk.G2[:], srs.Vk.Lines[:]}, run: func(int) any {
			return bn254kzg.Verify(&com, &proof, z, srs.Vk) == nil
		}})
	// FFT with one shared domain
	dom := bn254fft.NewDomain(256)
	in := make([]bn254fr.Element, 256)
	for i := range in {
		in[i].SetBigInt(r.Below(bn254fr.Modulus()))
	}
	// a domain built without precomputed tables, used on the coset: its first use is concurrent
	var ndom *bn254fft.Domain
	nsub := &subject{name: "bn254.fft.noprecompute.coset", concFirst: true}
	nsub.reset = func() {
		ndom = bn254fft.NewDomain(1<<12, bn254fft.WithoutPrecompute())
		nsub.shared = []any{in, ndom}
	}
	nsub.reset()
	nsub.run = func(v int) any {
		a := make([]bn254fr.Element, 1<<12)
		for i := range a {
			a[i] = in[i%len(in)]
		}
		ndom.FFT(a, bn254fft.DIT, bn254fft.OnCoset(), bn254fft.WithNbTasks([]int{1, 2, 8}[v%3]))
		ndom.FFTInverse(a, bn254fft.DIF, bn254fft.OnCoset(), bn254fft.WithNbTasks([]int{4, 1, 16}[v%3]))
		return a[:64]
	}
	subs = append(subs, nsub)
	subs = append(subs, &subject{name: "bn254.fft.FFT", shared: []any{in, dom}, run: func(v int) any {
		a := append([]bn254fr.Element{}, in...)
		dom.FFT(a, bn254fft.DIF, bn254fft.WithNbTasks([]int{1, 2, 8}[v%3]))
		dom.FFTInverse(a, bn254fft.DIT, bn254fft.OnCoset(), bn254fft.WithNbTasks([]int{4, 1, 16}[v%3]))
		return a
	}})
	kdom := kbfft.NewDomain(1024)
	kin := make([]kb.Element, 1024)
	for i := range kin {
		kin[i].SetUint64(r.U64())
	}
	subs = append(subs, &subject{name: "koalabear.fft.FFT", shared: []any{kin, kdom}, run: func(v int) any {
		a := append([]kb.Element{}, kin...)
		kdom.FFT(a, kbfft.DIF, kbfft.WithNbTasks([]int{1, 2, 8}[v%3]))
		return a
	}})
	// hashes with shared parameter objects / lazily initialised constants
	perm := bn254p2.NewPermutation(3, 8, 56)
	pin := make([]bn254fr.Element, 3)
	pin[1].SetUint64(5)
	subs = append(subs, &subject{name: "bn254.poseidon2.Permutation", shared: []any{pin}, run: func(int) any {
		a := append([]bn254fr.Element{}, pin...)
		if perm.Permutation(a) != nil {
			return "error"
		}
		return a
	}})
	kperm := kbp2.NewPermutation(16, 6, 21)
	kpin := make([]kb.Element, 16)
	kpin[3].SetUint64(9)
	subs = append(subs, &subject{name: "koalabear.poseidon2.Permutation", shared: []any{kpin}, run: func(int) any {
		a := append([]kb.Element{}, kpin...)
		if kperm.Permutation(a) != nil {
			return "error"
		}
		return a
	}})
	msg := make([]byte, 96)
	msg[31], msg[63], msg[95] = 3, 4, 5
	subs = append(subs, &subject{name: "bn254.mimc.Sum", shared: []any{msg}, run: func(int) any {
		h := bn254mimc.NewMiMC()
		h.Write(msg)
		return h.Sum(nil)
	}})
	// signatures with shared keys
	ek, _ := bn254eddsa.GenerateKey(&zeroReader{})
	esig, _ := ek.Sign(msg[:32], bn254mimc.NewMiMC())
	epub := &ek.PublicKey
	subs = append(subs, &subject{name: "bn254.eddsa.Verify", shared: []any{esig, msg, &epub.A}, run: func(int) any {
		ok, e := epub.Verify(esig, msg[:32], bn254mimc.NewMiMC())
		return []any{ok, e == nil}
	}})
	ck, _ := bn254ecdsa.GenerateKey(&zeroReader{n: 5})
	csig, _ := ck.Sign(msg, sha256.New())
	cpub := &ck.PublicKey
	subs = append(subs, &subject{name: "bn254.ecdsa.Verify", shared: []any{csig, msg, &cpub.A}, run: func(int) any {
		ok, e := cpub.Verify(csig, msg, sha256.New())
		return []any{ok, e == nil}
	}})
	// public key recovery with the x-overflow bit of the recovery id set (x = r + n): honest signatures never produce it,
	// and r, s are the caller's read-only integers on that path too. Digests of their text: the integers themselves are shared.
	for _, v := range []uint{0, 2, 3} {
		rr, ss := new(big.Int).Lsh(big.NewInt(0x1e240), 40), big.NewInt(987654321) // not from csig: signing draws a fresh nonce in every process
		rtxt := func() any { return []string{rr.String(), ss.String()} }
		subs = append(subs, &subject{name: fmt.Sprintf("bn254.ecdsa.RecoverFrom.v%d", v), shared: []any{msg, rtxt}, run: func(int) any {
			var pk bn254ecdsa.PublicKey
			if e := pk.RecoverFrom(msg, v, rr, ss); e != nil {
				return e.Error() // the receiver is unspecified after an error
			}
			return &pk.A
		}})
	}
	// hash to curve and the stream decoder over shared bytes
	// the domain separation tag is the head of a longer shared buffer (spare capacity holding a second tag)
	dstBuf := []byte("dst-Atag-B")
	dst := dstBuf[:5]
	subs = append(subs, &subject{name: "bn254.HashToG1", shared: []any{msg, dstBuf}, run: func(int) any {
		p, e := bn254.HashToG1(msg, dst)
		if e != nil {
			return "error"
		}
		return &p
	}})
	var buf bytes.Buffer
	enc0 := bn254.NewEncoder(&buf)
	pts := bn254.BatchScalarMultiplicationG1(&[]bn254.G1Affine{func() bn254.G1Affine { _, _, a, _ := bn254.Generators(); return a }()}[0], poly)
	enc0.Encode(pts)
	raw := buf.Bytes()
	subs = append(subs, &subject{name: "bn254.Decoder.G1slice", shared: []any{raw}, run: func(int) any {
		var out []bn254.G1Affine
		if e := bn254.NewDecoder(bytes.NewReader(raw)).Decode(&out); e != nil {
			return "error"
		}
		return out
	}})
	// the same decoder into a destination of the right length that already holds points (a different filling per caller): the
	// decoded slice depends on the bytes only. The encoded slice has points at infinity in it.
	{
		var buf2 bytes.Buffer
		pts2 := append([]bn254.G1Affine{}, pts[:6]...)
		pts2[1], pts2[4] = bn254.G1Affine{}, bn254.G1Affine{}
		bn254.NewEncoder(&buf2).Encode(pts2)
		raw2 := buf2.Bytes()
		subs = append(subs, &subject{name: "bn254.Decoder.G1slice.reused", shared: []any{raw2}, run: func(variant int) any {
			out := make([]bn254.G1Affine, len(pts2))
			for i := range out {
				out[i] = pts[(i+variant+1)%len(pts)]
			}
			if e := bn254.NewDecoder(bytes.NewReader(raw2)).Decode(&out); e != nil {
				return "error"
			}
			return out
		}})
	}
	// polynomial helpers with a lazily built, cached Lagrange basis (global state shared by all calls)
	for _, vals := range [][]uint64{{1, 5, 1, 9}, {7, 1, 3}, {1, 1, 1, 1, 1, 1}, {2, 3, 5, 7, 11}} {
		v := make([]bn254fr.Element, len(vals))
		for i := range v {
			v[i].SetUint64(vals[i])
		}
		name := fmt.Sprintf("bn254.polynomial.InterpolateOnRange%v", vals)
		subs = append(subs, &subject{name: name, shared: []any{v}, run: func(int) any {
			p := bn254poly.InterpolateOnRange(v)
			return []bn254fr.Element(p)
		}})
	}
	{
		a := bn254poly.Polynomial(append([]bn254fr.Element{}, poly[:9]...))
		b := bn254poly.Polynomial(append([]bn254fr.Element{}, poly[9:15]...))
		var one, c bn254fr.Element
		one.SetOne()
		c.SetUint64(3)
		subs = append(subs, &subject{name: "bn254.polynomial.ops", shared: []any{[]bn254fr.Element(a), []bn254fr.Element(b), &one, &c}, run: func(int) any {
			var s1, s2, s3, d bn254poly.Polynomial
			s1.Scale(&one, a) // scaling by one must still produce an independent polynomial
			s1.ScaleInPlace(&c)
			s2.Scale(&c, b)
			s3.Add(a, b)
			s3.AddConstantInPlace(&c)
			d.Sub(b, a)
			cl := a.Clone()
			cl.SubConstantInPlace(&c)
			ev := a.Eval(&c)
			return []any{[]bn254fr.Element(s1), []bn254fr.Element(s2), []bn254fr.Element(s3), []bn254fr.Element(d), []bn254fr.Element(cl), &ev}
		}})
	}
	// package-level getters hand out copies: the caller overwrites what it was handed (the modulus, the curve generators)
	// and the next call, and the arithmetic that reads the package's own copy, must not notice
	for _, fname := range []string{"bn254/fr", "bls12-381/fp", "secp256k1/fp", "goldilocks", "koalabear"} {
		f := fields[fname]
		subs = append(subs, &subject{name: fname + ".Modulus", shared: []any{}, run: func(int) any {
			m := f.Funcs["Modulus"].Call(nil)[0].Interface().(*big.Int)
			txt := m.String()
			e := f.New()
			method(e, "SetBigInt").Call([]reflect.Value{reflect.ValueOf(new(big.Int).Add(new(big.Int).Lsh(big.NewInt(1), 300), big.NewInt(12345)))})
			neg := f.New()
			method(neg, "Neg").Call([]reflect.Value{e})
			m.SetInt64(7).Lsh(m, 9) // the reply is the caller's
			return []any{txt, digits(f.Raw(e)), digits(f.Raw(neg))}
		}})
	}
	for _, cn := range []string{"bn254", "bls12-381", "secp256k1"} {
		c := curves[cn]
		gen, ok := c.Funcs["Generators"]
		if !ok {
			continue
		}
		subs = append(subs, &subject{name: cn + ".Generators", shared: []any{}, run: func(int) any {
			out := gen.Call(nil)
			res := make([]any, 0, len(out))
			for _, o := range out {
				p := reflect.New(o.Type())
				p.Elem().Set(o)
				res = append(res, p.Interface())
			}
			return res
		}})
	}
	// byte-slice decoders over one shared encoding (compressed and raw): the input is read-only, also for the time of the call
	for _, cn := range []string{"bn254", "bls12-381", "secp256k1"} {
		c := curves[cn]
		for _, gn := range []string{"G1", "G2"} {
			g := c.Group(gn)
			if g == nil {
				continue
			}
			pt := g.MulGen(big.NewInt(11))
			for _, enc := range []string{"Bytes", "RawBytes"} {
				m := pt.MethodByName(enc)
				if !m.IsValid() {
					continue
				}
				wire := c07ArrayBytes(m.Call(nil)[0])
				subs = append(subs, &subject{name: cn + "." + gn + ".SetBytes." + enc, shared: []any{wire}, run: func(int) any {
					q := reflect.New(g.AffT)
					out := method(q, "SetBytes").Call([]reflect.Value{reflect.ValueOf(wire)})
					return []any{int(out[0].Int()), out[1].IsNil(), q.Interface()}
				}})
			}
		}
	}
	// ring-SIS over a shared key and shared inputs; the destination is the caller's and holds other values at every call
	// (a different filling per caller): the digest depends on the key and the input only
	for _, ps := range [][2]int{{6, 16}, {9, 16}, {5, 8}} {
		key, err := kbsis.NewRSis(5, ps[0], ps[1], 64)
		if err != nil {
			continue
		}
		deg := 1 << ps[0]
		zeroBlock := deg * ps[1] / 32 // elements that fill the first key polynomial
		mkv := func(kind int) []kb.Element {
			v := make([]kb.Element, 40)
			if kind == 2 {
				v = v[:0]
			}
			for i := range v {
				if kind == 1 && i < zeroBlock {
					continue
				}
				v[i].SetUint64(uint64(i*i*7919 + 13))
			}
			return v
		}
		for kind := 0; kind < 3; kind++ {
			v := mkv(kind)
			subs = append(subs, &subject{name: fmt.Sprintf("koalabear.sis.Hash.%d.%d.in%d", ps[0], ps[1], kind), shared: []any{v}, run: func(variant int) any {
				res := make([]kb.Element, deg)
				for i := range res {
					res[i].SetUint64(uint64(variant*31 + i + 1))
				}
				if err := key.Hash(v, res); err != nil {
					return "error"
				}
				return res
			}})
		}
	}
	// more decoders over shared bytes: keys, signatures, vectors, target-group elements
	{
		epub := ek.PublicKey.Bytes()
		subs = append(subs, &subject{name: "bn254.eddsa.PublicKey.SetBytes", shared: []any{epub}, run: func(int) any {
			var pk bn254eddsa.PublicKey
			n, err := pk.SetBytes(epub)
			return []any{n, err == nil, &pk.A}
		}})
		subs = append(subs, &subject{name: "bn254.eddsa.Signature.SetBytes", shared: []any{esig}, run: func(int) any {
			var sg bn254eddsa.Signature
			n, err := sg.SetBytes(esig)
			return []any{n, err == nil, &sg.R, sg.S[:]}
		}})
		cpubb := ck.PublicKey.Bytes()
		subs = append(subs, &subject{name: "bn254.ecdsa.PublicKey.SetBytes", shared: []any{cpubb}, run: func(int) any {
			var pk bn254ecdsa.PublicKey
			n, err := pk.SetBytes(cpubb)
			return []any{n, err == nil, &pk.A}
		}})
		vec := bn254fr.Vector{x3(1), x3(2), x3(3), x3(4), x3(5)}
		vb, _ := vec.MarshalBinary()
		subs = append(subs, &subject{name: "bn254.fr.Vector.UnmarshalBinary", shared: []any{vb}, run: func(int) any {
			var v bn254fr.Vector
			err := v.UnmarshalBinary(vb)
			return []any{err == nil, []bn254fr.Element(v)}
		}})
		// the asynchronous reader validates in several workers: a vector far longer than the number of CPUs
		big1 := make(bn254fr.Vector, 1500)
		for i := range big1 {
			big1[i] = x3(uint64(i + 7))
		}
		bb, _ := big1.MarshalBinary()
		subs = append(subs, &subject{name: "bn254.fr.Vector.AsyncReadFrom", shared: []any{bb}, run: func(int) any {
			var v bn254fr.Vector
			n, err, ch := v.AsyncReadFrom(bytes.NewReader(bb))
			var e2 error
			if ch != nil {
				e2 = <-ch
			}
			return []any{int(n), err == nil, e2 == nil, []bn254fr.Element(v)}
		}})
		gt, _ := bn254.Pair([]bn254.G1Affine{g1GenAff()}, []bn254.G2Affine{g2GenAff()})
		gb := gt.Bytes()
		gtb := gb[:]
		subs = append(subs, &subject{name: "bn254.GT.SetBytes", shared: []any{gtb}, run: func(int) any {
			var z bn254.GT
			err := z.SetBytes(gtb)
			return []any{err == nil, &z}
		}})
	}
	// element functions going through the big.Int scratch pool
	var x bn254fr.Element
	x.SetUint64(123456789)
	negK := new(big.Int).Neg(new(big.Int).Lsh(big.NewInt(5), 70)) // a negative exponent shared by all callers (read-only)
	subs = append(subs, &subject{name: "bn254.fr.pooled", shared: []any{&x, func() any { return negK.String() }}, run: func(int) any {
		var a, b, c bn254fr.Element
		a.Exp(x, negK)
		b.SetBigInt(new(big.Int).Lsh(big.NewInt(1), 300))
		c.SetString("-17")
		var d bn254fr.Element
		d.SetBytes(msg[:40])
		h, _ := bn254fr.Hash(msg, []byte("d"), 2)
		return []any{&a, &b, &c, &d, x.Text(16), h}
	}})
	// the parameter record handed out by GetEdwardsCurve is the caller's: scribbling over it (big.Int limbs in place,
	// field elements) must not change what the package computes afterwards
	for _, en := range []string{"bn254", "bls12-381-bandersnatch", "bw6-761"} {
		e := edwards[en]
		if e == nil {
			continue
		}
		ef := e.F()
		subs = append(subs, &subject{name: "edwards." + en + ".paramsCopy", shared: []any{}, run: func(int) any {
			cp := reflect.New(e.GetCurve.Type().Out(0))
			cp.Elem().Set(e.GetCurve.Call(nil)[0])
			base := reflect.New(e.AffT)
			base.Elem().Set(cp.Elem().FieldByName("Base"))
			ord := cp.Elem().FieldByName("Order").Addr().Interface().(*big.Int)
			var outs []any
			for _, k := range []*big.Int{new(big.Int).Sub(ord, big.NewInt(1)), new(big.Int).Add(ord, big.NewInt(5)), new(big.Int).Neg(new(big.Int).Add(ord, big.NewInt(5))), big.NewInt(3)} {
				for _, T := range []reflect.Type{e.AffT, e.ProjT, e.ExtT} {
					in := reflect.New(T)
					if T == e.AffT {
						in.Elem().Set(base.Elem())
					} else {
						method(in, "FromAffine").Call([]reflect.Value{base})
					}
					o := reflect.New(T)
					method(o, "ScalarMultiplication").Call([]reflect.Value{in, reflect.ValueOf(new(big.Int).Set(k))})
					a := reflect.New(e.AffT)
					if T == e.AffT {
						a = o
					} else if T == e.ProjT {
						method(a, "FromProj").Call([]reflect.Value{o})
					} else {
						method(a, "FromExtended").Call([]reflect.Value{o})
					}
					outs = append(outs, a.Interface())
				}
			}
			// now overwrite the caller's copy in place
			ord.Sub(ord, big.NewInt(1))
			ord.Rsh(ord, 1)
			cof := cp.Elem().FieldByName("Cofactor")
			if cof.IsValid() && cof.CanAddr() {
				if z, ok := cof.Addr().Interface().(interface{ SetZero() }); ok {
					z.SetZero()
				}
			}
			for _, fn := range []string{"A", "D"} {
				ef.SetRaw(cp.Elem().FieldByName(fn).Addr(), big.NewInt(7))
			}
			ef.SetRaw(cp.Elem().FieldByName("Base").FieldByName("X").Addr(), big.NewInt(9))
			return outs
		}})
	}
	// text conversions of full-size elements (small values take a strconv shortcut that never touches the pool), several fields
	for _, fname := range []string{"bn254/fr", "bls12-381/fp", "bw6-761/fp", "secp256k1/fp", "stark-curve/fr"} {
		f := fields[fname]
		if f == nil {
			continue
		}
		y := f.NewRaw(r.Below(f.Q))
		z := f.NewRaw(new(big.Int).Sub(f.Q, big.NewInt(1)))
		subs = append(subs, &subject{name: fname + ".text", shared: []any{y.Interface(), z.Interface()}, run: func(int) any {
			var out []any
			for _, e := range []reflect.Value{y, z} {
				out = append(out, method(e, "Text").Call([]reflect.Value{reflect.ValueOf(10)})[0].String(),
					method(e, "Text").Call([]reflect.Value{reflect.ValueOf(16)})[0].String(),
					method(e, "String").Call(nil)[0].String())
				if m := e.MethodByName("MarshalJSON"); m.IsValid() {
					out = append(out, string(m.Call(nil)[0].Bytes()))
				}
				bi := new(big.Int)
				method(e, "BigInt").Call([]reflect.Value{reflect.ValueOf(bi)})
				out = append(out, bi.String())
				w := f.New()
				method(w, "SetString").Call([]reflect.Value{reflect.ValueOf(bi.String())})
				out = append(out, w.Interface())
			}
			return out
		}})
	}
	return subs
}

func runC18(args []string) {
	fs := flag.NewFlagSet("c18", flag.ExitOnError)
	out := fs.String("out", ".", "output directory")
	seed := fs.Uint64("seed", 1, "seed")
	tier := fs.String("tier", "quick", "quick|thorough")
	config := fs.String("config", "default", "configuration label (default | race | poisoned)")
	fs.Parse(args)
	r := newRng(*seed*7 + 1) // inputs depend on the seed only: traces of all configurations are comparable
	t := newTrace(*out, "c18_"+*config, Ev{"property": "C18", "config": *config, "seed": int(*seed % (1 << 30))})
	var subs []*subject
	pcs := []string{"bn254", "bls12-377", "bls12-381", "bls24-315", "bls24-317", "bw6-633", "bw6-761"} // hand-written per curve
	mcs := []string{"bn254", "bls12-377"}
	if *tier == "thorough" {
		pcs = []string{"bn254", "bls12-377", "bls12-381", "bls24-315", "bls24-317", "bw6-633", "bw6-761"}
		mcs = []string{"bn254", "bls12-377", "bls12-381", "bw6-761", "secp256k1", "grumpkin"}
	}
	for _, c := range pcs {
		subs = append(subs, pairingSubjects(c, r)...)
	}
	for _, c := range mcs {
		subs = append(subs, msmSubject(c, "G1", r, 700))
	}
	subs = append(subs, msmSubject("bn254", "G2", r, 300))
	subs = append(subs, bn254Subjects(r)...)
	procs := []int{1, 3, 16}
	conc := []int{2, 16}
	if *tier == "thorough" {
		procs = []int{1, 2, 3, 8, 16}
		conc = []int{2, 3, 8, 64}
	}
	if *config == "race" { // the race detector costs ~10x
		procs = []int{2, 16}
		conc = []int{4}
	}
	for _, pr := range procs {
		prev := runtime.GOMAXPROCS(pr)
		before := make([][]string, len(subs))
		for i, s := range subs {
			if s.reset != nil {
				s.reset()
			}
			before[i] = digests(s.shared)
		}
		// subjects whose very first use of fresh shared objects must be concurrent (lazy caches)
		for _, s := range subs {
			if !s.concFirst {
				continue
			}
			fmt.Fprintln(os.Stderr, "PHASE", s.name)
			n := 8
			res := make([]string, n)
			var wg sync.WaitGroup
			for k := 0; k < n; k++ {
				wg.Add(1)
				go func(k int) {
					defer wg.Done()
					res[k] = safeRun(s, k)
				}(k)
			}
			wg.Wait()
			t.Emit(Ev{"op": "calls", "f": s.name, "mode": "conc-first", "n": n, "procs": pr, "res": res})
		}
		// sequential repetitions, interleaved with the other subjects
		for rep := 0; rep < 3; rep++ {
			for _, s := range subs {
				fmt.Fprintln(os.Stderr, "PHASE", s.name)
				t.Emit(Ev{"op": "call", "f": s.name, "mode": "seq", "rep": rep, "procs": pr, "variant": rep, "res": safeRun(s, rep)})
			}
		}
		// concurrent callers on the same objects
		for _, n := range conc {
			for _, s := range subs {
				if strings.Contains(s.name, "MultiExp") && n > 16 {
					continue
				}
				fmt.Fprintln(os.Stderr, "PHASE", s.name)
				res := make([]string, n)
				var wg sync.WaitGroup
				for k := 0; k < n; k++ {
					wg.Add(1)
					go func(k int) {
						defer wg.Done()
						res[k] = safeRun(s, k)
					}(k)
				}
				wg.Wait()
				t.Emit(Ev{"op": "calls", "f": s.name, "mode": "conc", "n": n, "procs": pr, "res": res})
			}
		}
		fmt.Fprintln(os.Stderr, "PHASE end")
		for i, s := range subs {
			t.Emit(Ev{"op": "objs", "f": s.name, "procs": pr, "before": before[i], "after": digests(s.shared)})
		}
		runtime.GOMAXPROCS(prev)
	}
	fmt.Printf("c18: %d events, %d subjects\n", t.Close(), len(subs))
}
