package main

// C11 driver: the KZG scheme of the seven pairing curves (ecc/<curve>/kzg) on reference strings with a
// KNOWN trapdoor. Every public call is one ndjson event carrying raw observations only: Montgomery limbs
// of scalars, raw coordinates of points, byte strings, error texts, panics, SHA-256 fingerprints of the
// raw memory of keys / arguments before and after the call. For forged group elements the event also
// carries the scalar the harness used to build them ([c]G1); the specification re-derives the point and
// refuses the event as "badinput" when they disagree. Nothing is judged here:
// spec/C11_kzg/TraceKZG.tla replays the log against KZGMachine.
//
// Inputs: (i) model-derived - every polynomial over {0, 1, r-1} of every length on the small strings, the
// points {0, 1, tau, r-1}, the alteration lattice of the model checker (each component of a true tuple
// moved by +-1, the two degenerate families z = tau and h = 0), every batch size, boundary lengths;
// (ii) seeded random polynomials, points, forged tuples, challenges' data, random factors (flag -seed).
// crypto/rand.Reader is replaced by a recording deterministic stream while BatchVerifyMultiPoints and
// MpcSetup.Contribute run, so that the random factors are observable and the traces reproducible.

import (
	"bytes"
	"crypto/rand"
	"crypto/sha256"
	"crypto/sha512"
	"encoding/binary"
	"encoding/hex"
	"flag"
	"fmt"
	"hash"
	"io"
	"math/big"
	"reflect"
	"strings"
	"time"
	"unsafe"
)

func init() { register("c11", runC11) }

// ---------------------------------------------------------------------------------------
// registry of the kzg packages (filled by reg_c11_kzg_gen.go)

type c11Pkg struct {
	Curve string
	Funcs map[string]reflect.Value
	Types map[string]reflect.Type
}

var c11Pkgs = map[string]*c11Pkg{}
var c11Curves []string

func c11Register(p *c11Pkg) {
	c11Pkgs[p.Curve] = p
	c11Curves = append(c11Curves, p.Curve)
}

// ---------------------------------------------------------------------------------------
// fingerprints of raw memory (stdlib only): the specification compares them for equality

func c11fpWalk(h hash.Hash, v reflect.Value) {
	var b [8]byte
	put := func(x uint64) {
		binary.LittleEndian.PutUint64(b[:], x)
		h.Write(b[:])
	}
	switch v.Kind() {
	case reflect.Ptr, reflect.Interface:
		if v.IsNil() {
			put(0)
			return
		}
		put(1)
		c11fpWalk(h, v.Elem())
	case reflect.Struct:
		for i := 0; i < v.NumField(); i++ {
			c11fpWalk(h, v.Field(i))
		}
	case reflect.Array:
		for i := 0; i < v.Len(); i++ {
			c11fpWalk(h, v.Index(i))
		}
	case reflect.Slice:
		put(uint64(v.Len()))
		for i := 0; i < v.Len(); i++ {
			c11fpWalk(h, v.Index(i))
		}
	case reflect.Uint64, reflect.Uint32, reflect.Uint8, reflect.Uint16, reflect.Uint:
		put(v.Uint())
	case reflect.Int, reflect.Int64, reflect.Int32, reflect.Int8, reflect.Int16:
		put(uint64(v.Int()))
	case reflect.Bool:
		if v.Bool() {
			put(1)
		} else {
			put(0)
		}
	default:
		fatal("c11 fingerprint: unsupported kind %s", v.Kind())
	}
}

func c11FP(vs ...reflect.Value) string {
	h := sha256.New()
	for _, v := range vs {
		c11fpWalk(h, v)
	}
	return hex.EncodeToString(h.Sum(nil)[:10])
}

// ---------------------------------------------------------------------------------------
// recording deterministic replacement of crypto/rand.Reader

type c11Rand struct {
	r      *Rng
	preset [][]byte // served first, one per Read call (shorter presets are zero padded)
	log    [][]byte
}

func (c *c11Rand) Read(b []byte) (int, error) {
	if len(c.preset) > 0 {
		for i := range b {
			b[i] = 0
		}
		copy(b, c.preset[0])
		c.preset = c.preset[1:]
	} else {
		copy(b, c.r.Bytes(len(b)))
	}
	c.log = append(c.log, append([]byte{}, b...))
	return len(b), nil
}

func c11WithRand(src *c11Rand, f func()) {
	old := rand.Reader
	rand.Reader = src
	defer func() { rand.Reader = old }()
	f()
}

// ---------------------------------------------------------------------------------------
// driver state

type c11Drv struct {
	k    *c11Pkg
	c    *Curve
	g1   *Group
	fr   *Field
	r    *Rng
	t    *TraceWriter
	sc   int
	tier string
	// the current reference string
	srs  reflect.Value // *SRS
	tau  *big.Int
	size int
}

func (d *c11Drv) q() *big.Int { return d.fr.Q }

func (d *c11Drv) emit(e Ev) {
	e["sc"] = d.sc
	d.t.Emit(e)
}

func c11Err(v reflect.Value) (string, bool) {
	if v.IsNil() {
		return "", false
	}
	s := v.Interface().(error).Error()
	if len(s) > 160 {
		s = s[:160]
	}
	return s, true
}

func (d *c11Drv) mod(x *big.Int) *big.Int { return new(big.Int).Mod(x, d.q()) }
func (d *c11Drv) bi(x int64) *big.Int     { return d.mod(big.NewInt(x)) }
func (d *c11Drv) rnd() *big.Int           { return d.r.Below(d.q()) }

// fr.Element value holding v (built from raw limbs by math/big; no library conversion)
func (d *c11Drv) elem(v *big.Int) reflect.Value { return d.fr.NewVal(v).Elem() }
func (d *c11Drv) elems(vs []*big.Int) reflect.Value {
	s := reflect.MakeSlice(reflect.SliceOf(d.fr.ElemT), len(vs), len(vs))
	for i, v := range vs {
		s.Index(i).Set(d.elem(v))
	}
	return s
}
func c11Raw(e reflect.Value) []int { return digits(rawOfElem(e)) }
func c11Raws(s reflect.Value) [][]int {
	out := make([][]int, s.Len())
	for i := range out {
		out[i] = c11Raw(s.Index(i))
	}
	return out
}

// value of a raw element (input construction only: to chain honest flows)
func (d *c11Drv) val(e reflect.Value) *big.Int {
	x := new(big.Int).Mul(rawOfElem(e), d.fr.Rinv)
	return x.Mod(x, d.q())
}

func (d *c11Drv) pk() reflect.Value { return d.srs.Elem().FieldByName("Pk") }
func (d *c11Drv) vk() reflect.Value { return d.srs.Elem().FieldByName("Vk") }

// math/big polynomial helpers (input construction)
func (d *c11Drv) evalBig(p []*big.Int, x *big.Int) *big.Int {
	acc := new(big.Int)
	for i := len(p) - 1; i >= 0; i-- {
		acc.Mul(acc, x).Add(acc, p[i]).Mod(acc, d.q())
	}
	return acc
}

// quotient (p - p(z)) / (X - z)
func (d *c11Drv) quotBig(p []*big.Int, z *big.Int) []*big.Int {
	n := len(p)
	if n <= 1 {
		return nil
	}
	quo := make([]*big.Int, n-1)
	quo[n-2] = new(big.Int).Set(p[n-1])
	for k := n - 2; k >= 1; k-- {
		t := new(big.Int).Mul(z, quo[k])
		quo[k-1] = t.Add(t, p[k]).Mod(t, d.q())
	}
	return quo
}

func (d *c11Drv) newG1(k *big.Int) reflect.Value { return d.g1.MulGen(d.mod(k)) } // *G1Affine = [k]G1

func (d *c11Drv) inv(x *big.Int) *big.Int { return new(big.Int).ModInverse(d.mod(x), d.q()) }

// ---------------------------------------------------------------------------------------
// events

// NewSRS(size, alpha). trapdoor: alpha mod r, or the library's primitive 4th root of unity for the documented
// quick mode alpha = -1 (the specification validates the claimed trapdoor against the registers).
func (d *c11Drv) evNewSRS(size int, alpha *big.Int) bool {
	d.sc++
	e := Ev{"op": "NewSRS", "size": size, "alpha": zint(alpha)}
	out, pm, pk := call(d.k.Funcs["NewSRS"], reflect.ValueOf(uint64(size)), reflect.ValueOf(new(big.Int).Set(alpha)))
	if pk {
		e["panic"] = pm
		d.emit(e)
		return false
	}
	if msg, bad := c11Err(out[1]); bad {
		e["err"] = msg
		d.emit(e)
		return false
	}
	d.srs = out[0]
	d.size = size
	d.tau = d.mod(alpha)
	if alpha.Cmp(big.NewInt(-1)) == 0 {
		w := d.fr.Funcs["Generator"].Call([]reflect.Value{reflect.ValueOf(uint64(4))})[0]
		d.tau = d.val(w)
		e["quick"] = true
	}
	e["tau"] = digits(d.tau)
	g1s := d.pk().FieldByName("G1")
	e["n"] = g1s.Len()
	var regs []Ev
	for i := 0; i < g1s.Len(); i++ {
		if g1s.Len() <= 9 || i < 3 || i >= g1s.Len()-2 || i == g1s.Len()/2 {
			regs = append(regs, Ev{"i": i, "p": enc(g1s.Index(i))})
		}
	}
	e["pk"] = regs
	vk := d.vk()
	e["g1"] = enc(vk.FieldByName("G1"))
	e["g2"] = []any{enc(vk.FieldByName("G2").Index(0)), enc(vk.FieldByName("G2").Index(1))}
	e["pkfp"] = c11FP(d.pk())
	e["vkfp"] = c11FP(vk)
	d.emit(e)
	return true
}

// evToLagrange: ToLagrangeG1 on a copy of the first m points of the reference string in use (known trapdoor): the result
// is judged against [L_i(tau)]G1, L_i the Lagrange basis of the order-m subgroup generated by the library's Generator(m)
func (d *c11Drv) evToLagrange(m int) {
	fn, ok := d.k.Funcs["ToLagrangeG1"]
	if !ok {
		return
	}
	g1s := d.pk().FieldByName("G1")
	if m > g1s.Len() {
		return
	}
	in := reflect.MakeSlice(g1s.Type(), m, m+3) // a copy with spare capacity
	reflect.Copy(in, g1s.Slice(0, m))
	e := Ev{"op": "ToLagrangeG1", "m": m}
	if m > 0 && m&(m-1) == 0 {
		w := d.fr.Funcs["Generator"].Call([]reflect.Value{reflect.ValueOf(uint64(m))})
		if w[1].IsNil() {
			e["w"] = digits(d.val(w[0]))
		}
	}
	out, pm, pk := call(fn, in)
	if pk {
		e["panic"] = pm
	} else if msg, bad := c11Err(out[1]); bad {
		e["err"] = msg
	} else {
		res := []any{}
		for i := 0; i < out[0].Len(); i++ {
			res = append(res, enc(out[0].Index(i)))
		}
		e["out"] = res
	}
	d.keyFPs(e)
	d.emit(e)
}

func (d *c11Drv) keyFPs(e Ev) {
	e["pkfp"] = c11FP(d.pk())
	e["vkfp"] = c11FP(d.vk())
}

// Commit(p, pk [, nbTasks]); returns *Digest when the call succeeded
func (d *c11Drv) evCommit(cls string, p []*big.Int, nbTasks ...int) reflect.Value {
	ps := d.elems(p)
	e := Ev{"op": "Commit", "cls": cls, "p": c11Raws(ps), "plen": len(p), "pfp": c11FP(ps)}
	args := []reflect.Value{ps, d.pk()}
	if len(nbTasks) > 0 {
		e["nbTasks"] = nbTasks[0]
		args = append(args, reflect.ValueOf(nbTasks[0]))
	}
	out, pm, pk := call(d.k.Funcs["Commit"], args...)
	var res reflect.Value
	if pk {
		e["panic"] = pm
	} else {
		if msg, bad := c11Err(out[1]); bad {
			e["err"] = msg
		} else {
			res = reflect.New(out[0].Type())
			res.Elem().Set(out[0])
		}
		e["out"] = enc(out[0])
		e["pfpafter"] = c11FP(ps)
	}
	d.keyFPs(e)
	d.emit(e)
	return res
}

// Open(p, z, pk); returns *OpeningProof when the call succeeded
func (d *c11Drv) evOpen(cls string, p []*big.Int, z *big.Int) reflect.Value {
	ps := d.elems(p)
	ze := d.elem(z)
	e := Ev{"op": "Open", "cls": cls, "p": c11Raws(ps), "plen": len(p), "z": c11Raw(ze), "pfp": c11FP(ps)}
	out, pm, pk := call(d.k.Funcs["Open"], ps, ze, d.pk())
	var res reflect.Value
	if pk {
		e["panic"] = pm
	} else {
		if msg, bad := c11Err(out[1]); bad {
			e["err"] = msg
		} else {
			res = reflect.New(out[0].Type())
			res.Elem().Set(out[0])
		}
		e["out"] = Ev{"H": enc(out[0].FieldByName("H")), "v": c11Raw(out[0].FieldByName("ClaimedValue"))}
		e["pfpafter"] = c11FP(ps)
	}
	d.keyFPs(e)
	d.emit(e)
	return res
}

func (d *c11Drv) mkProof(H reflect.Value, v reflect.Value) reflect.Value {
	pr := reflect.New(d.k.Types["OpeningProof"])
	pr.Elem().FieldByName("H").Set(H.Elem())
	pr.Elem().FieldByName("ClaimedValue").Set(v)
	return pr
}

// Verify(&C, &proof{H, v}, z, vk). ce / he: the scalars with C = [ce]G1, H = [he]G1.
func (d *c11Drv) evVerify(cls string, C reflect.Value, ce *big.Int, H reflect.Value, he *big.Int, v reflect.Value, z *big.Int) {
	cm := clonePtr(C)
	pr := d.mkProof(H, v)
	ze := d.elem(z)
	e := Ev{"op": "Verify", "cls": cls, "C": enc(cm), "ce": digits(d.mod(ce)), "H": enc(H), "he": digits(d.mod(he)),
		"v": c11Raw(v), "z": c11Raw(ze), "argfp": c11FP(cm, pr)}
	out, pm, pk := call(d.k.Funcs["Verify"], cm, pr, ze, d.vk())
	if pk {
		e["panic"] = pm
	} else {
		if msg, bad := c11Err(out[0]); bad {
			e["err"] = msg
		}
		e["argfpafter"] = c11FP(cm, pr)
	}
	d.keyFPs(e)
	d.emit(e)
}

var c11Hashes = map[string]func() hash.Hash{"sha256": sha256.New, "sha512": sha512.New}

func (d *c11Drv) mkHash(name string, dirty bool) hash.Hash {
	h := c11Hashes[name]()
	if dirty {
		h.Write([]byte("left over from an earlier use of the hash object"))
	}
	return h
}

func (d *c11Drv) digestSlice(ds []reflect.Value) reflect.Value {
	s := reflect.MakeSlice(reflect.SliceOf(d.c.Types["G1Affine"]), len(ds), len(ds))
	for i, p := range ds {
		s.Index(i).Set(p.Elem())
	}
	return s
}

func c11Marshal(p reflect.Value) []byte { // the library's own encoding of a digest: an input of the challenge
	return method(p, "Marshal").Call(nil)[0].Bytes()
}

func c11Data(data [][]byte) [][]int {
	out := make([][]int, len(data))
	for i := range data {
		out[i] = bytesToInts(data[i])
	}
	return out
}

// common fields of the three single-point batch entry points
func (d *c11Drv) batchFields(e Ev, digests []reflect.Value, des []*big.Int, z reflect.Value, hf string, dirty bool, data [][]byte) {
	pts := make([]any, len(digests))
	db := make([][]int, len(digests))
	for i, p := range digests {
		pts[i] = enc(p)
		db[i] = bytesToInts(c11Marshal(p))
	}
	e["digests"] = pts
	e["dbytes"] = db
	if des != nil {
		x := make([][]int, len(des))
		for i := range des {
			x[i] = digits(d.mod(des[i]))
		}
		e["des"] = x
	}
	e["z"] = c11Raw(z)
	e["hf"] = hf
	e["dirty"] = dirty
	e["data"] = c11Data(data)
}

func c11DataArgs(data [][]byte) []reflect.Value {
	var out []reflect.Value
	for _, b := range data {
		out = append(out, reflect.ValueOf(append([]byte{}, b...)))
	}
	return out
}

// BatchOpenSinglePoint(polys, digests, z, hf, pk, data...); returns *BatchOpeningProof on success
func (d *c11Drv) evBatchOpen(cls string, polys [][]*big.Int, digests []reflect.Value, z *big.Int, hf string, dirty bool, data [][]byte) reflect.Value {
	pss := reflect.MakeSlice(reflect.SliceOf(reflect.SliceOf(d.fr.ElemT)), len(polys), len(polys))
	raws := make([][][]int, len(polys))
	for i, p := range polys {
		pss.Index(i).Set(d.elems(p))
		raws[i] = c11Raws(pss.Index(i))
	}
	ds := d.digestSlice(digests)
	ze := d.elem(z)
	maxlen := 0
	for _, p := range polys {
		if len(p) > maxlen {
			maxlen = len(p)
		}
	}
	e := Ev{"op": "BatchOpenSinglePoint", "cls": cls, "polys": raws, "npolys": len(polys), "maxlen": maxlen, "argfp": c11FP(pss, ds)}
	d.batchFields(e, digests, nil, ze, hf, dirty, data)
	args := append([]reflect.Value{pss, ds, ze, reflect.ValueOf(d.mkHash(hf, dirty)), d.pk()}, c11DataArgs(data)...)
	out, pm, pk := call(d.k.Funcs["BatchOpenSinglePoint"], args...)
	var res reflect.Value
	if pk {
		e["panic"] = pm
	} else {
		if msg, bad := c11Err(out[1]); bad {
			e["err"] = msg
		} else {
			res = reflect.New(out[0].Type())
			res.Elem().Set(out[0])
		}
		e["out"] = Ev{"H": enc(out[0].FieldByName("H")), "vs": c11Raws(out[0].FieldByName("ClaimedValues"))}
		e["argfpafter"] = c11FP(pss, ds)
	}
	d.keyFPs(e)
	d.emit(e)
	return res
}

func (d *c11Drv) mkBatchProof(H reflect.Value, vs reflect.Value) reflect.Value {
	pr := reflect.New(d.k.Types["BatchOpeningProof"])
	pr.Elem().FieldByName("H").Set(H.Elem())
	pr.Elem().FieldByName("ClaimedValues").Set(vs)
	return pr
}

// FoldProof(digests, &proof{H, vs}, z, hf, data...)
func (d *c11Drv) evFold(cls string, digests []reflect.Value, des []*big.Int, H reflect.Value, vs reflect.Value, z *big.Int, hf string, dirty bool, data [][]byte) {
	ds := d.digestSlice(digests)
	pr := d.mkBatchProof(H, vs)
	ze := d.elem(z)
	e := Ev{"op": "FoldProof", "cls": cls, "H": enc(H), "vs": c11Raws(vs), "argfp": c11FP(ds, pr)}
	d.batchFields(e, digests, des, ze, hf, dirty, data)
	args := append([]reflect.Value{ds, pr, ze, reflect.ValueOf(d.mkHash(hf, dirty))}, c11DataArgs(data)...)
	out, pm, pk := call(d.k.Funcs["FoldProof"], args...)
	if pk {
		e["panic"] = pm
	} else {
		if msg, bad := c11Err(out[2]); bad {
			e["err"] = msg
		}
		e["out"] = Ev{"H": enc(out[0].FieldByName("H")), "v": c11Raw(out[0].FieldByName("ClaimedValue")), "D": enc(out[1])}
		e["argfpafter"] = c11FP(ds, pr)
	}
	d.emit(e)
}

// BatchVerifySinglePoint(digests, &proof{H, vs}, z, hf, vk, data...)
func (d *c11Drv) evBatchVerify(cls string, digests []reflect.Value, des []*big.Int, H reflect.Value, he *big.Int, vs reflect.Value, z *big.Int, hf string, dirty bool, data [][]byte) {
	ds := d.digestSlice(digests)
	pr := d.mkBatchProof(H, vs)
	ze := d.elem(z)
	e := Ev{"op": "BatchVerifySinglePoint", "cls": cls, "H": enc(H), "he": digits(d.mod(he)), "vs": c11Raws(vs), "argfp": c11FP(ds, pr)}
	d.batchFields(e, digests, des, ze, hf, dirty, data)
	args := append([]reflect.Value{ds, pr, ze, reflect.ValueOf(d.mkHash(hf, dirty)), d.vk()}, c11DataArgs(data)...)
	out, pm, pk := call(d.k.Funcs["BatchVerifySinglePoint"], args...)
	if pk {
		e["panic"] = pm
	} else {
		if msg, bad := c11Err(out[0]); bad {
			e["err"] = msg
		}
		e["argfpafter"] = c11FP(ds, pr)
	}
	d.keyFPs(e)
	d.emit(e)
}

type c11Tuple struct {
	C, H   reflect.Value // *G1Affine
	ce, he *big.Int
	v      reflect.Value // fr.Element
	z      *big.Int
}

// BatchVerifyMultiPoints(digests, proofs, points, vk) under a recorded random source.
// nd / np / nz: how many digests / proofs / points of the tuples are passed (shape errors)
func (d *c11Drv) evMulti(cls string, ts []c11Tuple, nd, np, nz int, src *c11Rand) {
	ds := reflect.MakeSlice(reflect.SliceOf(d.c.Types["G1Affine"]), nd, nd)
	prs := reflect.MakeSlice(reflect.SliceOf(d.k.Types["OpeningProof"]), np, np)
	zs := reflect.MakeSlice(reflect.SliceOf(d.fr.ElemT), nz, nz)
	var cpts, hpts []any
	var ces, hes, vraw, zraw [][]int
	for i, t := range ts {
		if i < nd {
			ds.Index(i).Set(t.C.Elem())
			cpts = append(cpts, enc(t.C))
			ces = append(ces, digits(d.mod(t.ce)))
		}
		if i < np {
			prs.Index(i).Set(d.mkProof(t.H, t.v).Elem())
			hpts = append(hpts, enc(t.H))
			hes = append(hes, digits(d.mod(t.he)))
			vraw = append(vraw, c11Raw(t.v))
		}
		if i < nz {
			zs.Index(i).Set(d.elem(t.z))
			zraw = append(zraw, c11Raw(zs.Index(i)))
		}
	}
	nn := func(x [][]int) [][]int {
		if x == nil {
			return [][]int{}
		}
		return x
	}
	na := func(x []any) []any {
		if x == nil {
			return []any{}
		}
		return x
	}
	e := Ev{"op": "BatchVerifyMultiPoints", "cls": cls, "Cs": na(cpts), "ces": nn(ces), "Hs": na(hpts), "hes": nn(hes),
		"vs": nn(vraw), "zs": nn(zraw), "argfp": c11FP(ds, prs, zs)}
	var out []reflect.Value
	var pm string
	var pk bool
	c11WithRand(src, func() {
		out, pm, pk = call(d.k.Funcs["BatchVerifyMultiPoints"], ds, prs, zs, d.vk())
	})
	rnd := make([][]int, len(src.log))
	for i := range src.log {
		rnd[i] = bytesToInts(src.log[i])
	}
	e["rnd"] = rnd
	if pk {
		e["panic"] = pm
	} else {
		if msg, bad := c11Err(out[0]); bad {
			e["err"] = msg
		}
		e["argfpafter"] = c11FP(ds, prs, zs)
	}
	d.keyFPs(e)
	d.emit(e)
}

// ---------------------------------------------------------------------------------------
// serialisation round trips

// fingerprints of the components of a reference string / key / setup (unexported fields are read, never written)
func c11Comps(v reflect.Value) Ev {
	for v.Kind() == reflect.Ptr {
		v = v.Elem()
	}
	out := Ev{}
	var walk func(prefix string, v reflect.Value)
	walk = func(prefix string, v reflect.Value) {
		t := v.Type()
		if t.Kind() == reflect.Struct && !isPointStruct(t) && !strings.HasPrefix(t.Name(), "LineEvaluation") {
			for i := 0; i < t.NumField(); i++ {
				walk(prefix+t.Field(i).Name+".", v.Field(i))
			}
			return
		}
		out[strings.TrimSuffix(prefix, ".")] = c11FP(v)
	}
	walk("", v)
	return out
}

// roundTrip writes src with method wname and reads the bytes back into a fresh object of the same type with
// method rname. The event carries the byte counts, the errors, the component fingerprints of both objects
// and a digest of the stream and of the stream written again by the copy.
func (d *c11Drv) evRoundTrip(what, wname, rname string, src reflect.Value, extra Ev) reflect.Value {
	e := Ev{"op": "RoundTrip", "what": what, "w": wname, "r": rname, "in": c11Comps(src)}
	for k, v := range extra {
		e[k] = v
	}
	dst := reflect.New(src.Elem().Type())
	var buf bytes.Buffer
	var w io.Writer = &buf
	f := func() {
		wo := method(src, wname).Call([]reflect.Value{reflect.ValueOf(w)})
		if len(wo) == 2 {
			e["nw"] = int(wo[0].Int())
			if msg, bad := c11Err(wo[1]); bad {
				e["werr"] = msg
			}
		} else if msg, bad := c11Err(wo[0]); bad {
			e["werr"] = msg
		}
		e["len"] = buf.Len()
		e["inafter"] = c11Comps(src)
		rd := bytes.NewReader(buf.Bytes())
		var r io.Reader = rd
		ro := method(dst, rname).Call([]reflect.Value{reflect.ValueOf(r)})
		if len(ro) == 2 {
			e["nr"] = int(ro[0].Int())
			if msg, bad := c11Err(ro[1]); bad {
				e["rerr"] = msg
			}
		} else if msg, bad := c11Err(ro[0]); bad {
			e["rerr"] = msg
		}
		e["left"] = rd.Len()
		e["out"] = c11Comps(dst)
		// the copy written again with the same method
		var buf2 bytes.Buffer
		var w2 io.Writer = &buf2
		method(dst, wname).Call([]reflect.Value{reflect.ValueOf(w2)})
		s1, s2 := sha256.Sum256(buf.Bytes()), sha256.Sum256(buf2.Bytes())
		e["wfp"] = hex.EncodeToString(s1[:10])
		e["wfp2"] = hex.EncodeToString(s2[:10])
	}
	if pm, pk := c15Do(f); pk {
		e["panic"] = pm
	}
	d.emit(e)
	return dst
}

// ---------------------------------------------------------------------------------------
// scenario parts

// all polynomials of length n over the given coefficient set
func c11AllPolys(coefs []*big.Int, n int) [][]*big.Int {
	out := [][]*big.Int{{}}
	for i := 0; i < n; i++ {
		var next [][]*big.Int
		for _, p := range out {
			for _, c := range coefs {
				next = append(next, append(append([]*big.Int{}, p...), c))
			}
		}
		out = next
	}
	return out
}

func (d *c11Drv) randPoly(n int) []*big.Int {
	p := make([]*big.Int, n)
	for i := range p {
		p[i] = d.rnd()
	}
	return p
}

// (X - root) * q for a random q of length n-1: a polynomial of length n that vanishes at root
func (d *c11Drv) polyWithRoot(n int, root *big.Int) []*big.Int {
	if n == 1 {
		return []*big.Int{big.NewInt(0)}
	}
	qq := d.randPoly(n - 1)
	p := make([]*big.Int, n)
	for i := range p {
		p[i] = new(big.Int)
	}
	for i, c := range qq {
		p[i+1].Add(p[i+1], c)
		p[i].Sub(p[i], new(big.Int).Mul(root, c))
	}
	for i := range p {
		p[i].Mod(p[i], d.q())
	}
	return p
}

// honest chain on one polynomial: Commit, then for every point Open and Verify; alter selects the forged
// variants of the verified tuple that are tried as well.
func (d *c11Drv) honest(cls string, p []*big.Int, zs []*big.Int, alter bool) {
	C := d.evCommit(cls, p)
	ce := d.evalBig(p, d.tau)
	for _, z := range zs {
		pr := d.evOpen(cls, p, z)
		if !C.IsValid() || !pr.IsValid() {
			continue
		}
		H := pr.Elem().FieldByName("H").Addr()
		v := pr.Elem().FieldByName("ClaimedValue")
		he := d.evalBig(d.quotBig(p, z), d.tau)
		d.evVerify(cls+"/honest", C, ce, H, he, v, z)
		if alter {
			d.alterations(cls, ce, he, d.val(v), z)
		}
	}
}

// the alteration lattice of the model (MCKZG!Alterations) around a tuple of scalars
func (d *c11Drv) alterations(cls string, ce, he, v, z *big.Int) {
	add := func(x *big.Int, k int64) *big.Int { return d.mod(new(big.Int).Add(x, big.NewInt(k))) }
	type alt struct {
		n          string
		c, h, v, z *big.Int
	}
	alts := []alt{
		{"c+1", add(ce, 1), he, v, z}, {"c-1", add(ce, -1), he, v, z},
		{"h+1", ce, add(he, 1), v, z}, {"h-1", ce, add(he, -1), v, z},
		{"v+1", ce, he, add(v, 1), z}, {"v-1", ce, he, add(v, -1), z},
		{"z+1", ce, he, v, add(z, 1)}, {"z-1", ce, he, v, add(z, -1)},
	}
	for _, a := range alts {
		d.evVerify(cls+"/alt-"+a.n, d.newG1(a.c), a.c, d.newG1(a.h), a.h, d.elem(a.v), a.z)
	}
}

func (d *c11Drv) partSingle(sizes []int) {
	q := d.q()
	m1 := new(big.Int).Sub(q, big.NewInt(1))
	small := []*big.Int{big.NewInt(0), big.NewInt(1), m1}
	for si, n := range sizes {
		var alpha *big.Int
		switch si % 3 {
		case 0:
			alpha = d.rnd()
		case 1:
			alpha = big.NewInt(int64(2 + d.r.Intn(5)))
		default:
			alpha = new(big.Int).Sub(q, big.NewInt(int64(2+d.r.Intn(9))))
		}
		if !d.evNewSRS(n, alpha) {
			continue
		}
		tau := d.tau
		if n <= 3 {
			// model-derived: every polynomial over {0, 1, r-1} of every admissible length
			for ln := 1; ln <= n; ln++ {
				for pi, p := range c11AllPolys(small, ln) {
					zs := []*big.Int{big.NewInt(0), tau}
					if ln < 3 || pi%3 == 0 {
						zs = append(zs, big.NewInt(1))
					}
					d.honest(fmt.Sprintf("model/len%d", ln), p, zs, ln == n && pi%9 == 4)
				}
			}
		}
		// boundary lengths and special points
		lens := map[int]bool{1: true, 2: true, n - 1: true, n: true}
		for ln := 1; ln <= n; ln++ {
			if !lens[ln] {
				continue
			}
			root := d.rnd()
			zero := make([]*big.Int, ln)
			for i := range zero {
				zero[i] = big.NewInt(0)
			}
			mono := make([]*big.Int, ln)
			for i := range mono {
				mono[i] = big.NewInt(0)
			}
			mono[ln-1] = big.NewInt(1)
			cst := make([]*big.Int, ln)
			for i := range cst {
				cst[i] = big.NewInt(0)
			}
			cst[0] = d.rnd() // a constant polynomial with trailing zero coefficients when ln > 1
			d.honest(fmt.Sprintf("edge/zero/len%d", ln), zero, []*big.Int{d.rnd(), tau}, false)
			d.honest(fmt.Sprintf("edge/mono/len%d", ln), mono, []*big.Int{big.NewInt(0), d.rnd()}, false)
			d.honest(fmt.Sprintf("edge/const/len%d", ln), cst, []*big.Int{big.NewInt(1), tau}, false)
			d.honest(fmt.Sprintf("edge/root/len%d", ln), d.polyWithRoot(ln, root), []*big.Int{root, d.rnd()}, false)
			d.honest(fmt.Sprintf("rand/len%d", ln), d.randPoly(ln), []*big.Int{big.NewInt(0), big.NewInt(1), tau, m1, d.rnd()}, ln == n)
		}
		// seeded random lengths
		nr := 3
		if d.tier == "thorough" {
			nr = 40
		}
		for i := 0; i < nr; i++ {
			ln := 1 + d.r.Intn(n)
			d.honest(fmt.Sprintf("rand/len%d", ln), d.randPoly(ln), []*big.Int{d.rnd()}, false)
		}
		// polynomials that do not fit
		d.evCommit("size/empty", nil)
		d.evOpen("size/empty", nil, d.rnd())
		d.evCommit("size/over", d.randPoly(n+1))
		d.evOpen("size/over", d.randPoly(n+1), d.rnd())
		// the optional task count of the multi-exponentiation
		p := d.randPoly(n)
		for _, nt := range []int{1, 3, 16} {
			d.evCommit("nbTasks", p, nt)
		}
	}
}

// forged tuples on one key: the accept / reject frontier, the key reused for every verification
func (d *c11Drv) partForge(count int) {
	if !d.evNewSRS(4, d.rnd()) {
		return
	}
	q := d.q()
	tau := d.tau
	sub := func(a, b *big.Int) *big.Int { return d.mod(new(big.Int).Sub(a, b)) }
	mul := func(a, b *big.Int) *big.Int { return d.mod(new(big.Int).Mul(a, b)) }
	add := func(a, b *big.Int) *big.Int { return d.mod(new(big.Int).Add(a, b)) }
	m1 := new(big.Int).Sub(q, big.NewInt(1))
	specials := []*big.Int{big.NewInt(0), big.NewInt(1), big.NewInt(2), m1, tau, sub(tau, big.NewInt(1))}
	pick := func() *big.Int {
		if d.r.Intn(3) == 0 {
			return specials[d.r.Intn(len(specials))]
		}
		return d.rnd()
	}
	ver := func(cls string, c, h, v, z *big.Int) {
		d.evVerify(cls, d.newG1(c), c, d.newG1(h), h, d.elem(v), z)
	}
	for i := 0; i < count; i++ {
		h, v, z := pick(), pick(), pick()
		c := add(v, mul(sub(tau, z), h)) // the unique commitment scalar that makes the claim true
		switch i % 8 {
		case 0: // true, not honestly generated
			ver("forge/true", c, h, v, z)
		case 1: // z = tau: every quotient is accepted with c = v
			ver("forge/true-z=tau", v, h, v, tau)
			ver("forge/false-z=tau", add(v, big.NewInt(1)), h, v, tau)
		case 2: // h = 0: every point is accepted with c = v
			ver("forge/true-h=0", v, big.NewInt(0), v, z)
			ver("forge/false-h=0", v, big.NewInt(0), add(v, big.NewInt(1)), z)
		case 3: // all four independent
			ver("forge/random", pick(), h, v, z)
		case 4: // a true tuple and its eight neighbours
			ver("forge/true", c, h, v, z)
			d.alterations("forge", c, h, v, z)
		case 5: // commitment and quotient exchanged
			ver("forge/swapped", h, c, v, z)
		case 6: // negated quotient / negated point
			ver("forge/neg-h", c, sub(big.NewInt(0), h), v, z)
			ver("forge/neg-z", c, h, v, sub(big.NewInt(0), z))
		case 7: // the identity as commitment
			ver("forge/c=0", big.NewInt(0), h, v, z)
			if z.Cmp(tau) != 0 { // the true tuple with c = 0: v = -(tau - z) h
				ver("forge/true-c=0", big.NewInt(0), h, sub(big.NewInt(0), mul(sub(tau, z), h)), z)
			}
		}
	}
}

// the challenge gamma as the harness needs it to BUILD true batched claims that no prover produced
// (input construction with the standard library; the specification derives gamma on its own)
func (d *c11Drv) gammaOf(hf string, z *big.Int, digests []reflect.Value, vs []*big.Int, data [][]byte) *big.Int {
	h := c11Hashes[hf]()
	h.Write([]byte("gamma"))
	fb := func(x *big.Int) []byte { return d.mod(x).FillBytes(make([]byte, d.fr.NBytes)) }
	h.Write(fb(z))
	for _, p := range digests {
		h.Write(c11Marshal(p))
	}
	for _, v := range vs {
		h.Write(fb(v))
	}
	for _, b := range data {
		h.Write(b)
	}
	return d.mod(new(big.Int).SetBytes(h.Sum(nil)))
}

func (d *c11Drv) partBatch() {
	if !d.evNewSRS(8, d.rnd()) {
		return
	}
	tau := d.tau
	sub := func(a, b *big.Int) *big.Int { return d.mod(new(big.Int).Sub(a, b)) }
	mul := func(a, b *big.Int) *big.Int { return d.mod(new(big.Int).Mul(a, b)) }
	add := func(a, b *big.Int) *big.Int { return d.mod(new(big.Int).Add(a, b)) }
	datas := [][][]byte{nil, {[]byte("extra")}, {[]byte{}, d.r.Bytes(40)}, {d.r.Bytes(3), d.r.Bytes(1)}}
	maxn := 4
	if d.tier == "thorough" {
		maxn = 7
	}
	scen := 0
	for n := 1; n <= maxn; n++ {
		for variant := 0; variant < 3; variant++ {
			scen++
			hf := "sha256"
			if scen%4 == 0 {
				hf = "sha512"
			}
			dirty := scen%3 == 0
			data := datas[scen%len(datas)]
			// polynomials: same length / different lengths / with a constant and the zero polynomial among them
			polys := make([][]*big.Int, n)
			for i := range polys {
				switch variant {
				case 0:
					polys[i] = d.randPoly(5)
				case 1:
					polys[i] = d.randPoly(2 + d.r.Intn(7))
				default:
					polys[i] = d.randPoly(1 + (i*3)%8)
					if i == n-1 {
						polys[i] = []*big.Int{big.NewInt(0), big.NewInt(0)}
					}
				}
			}
			z := d.rnd()
			if scen%5 == 0 {
				z = tau
			}
			cls := fmt.Sprintf("batch/n%d/v%d", n, variant)
			digests := make([]reflect.Value, n)
			des := make([]*big.Int, n)
			ok := true
			for i, p := range polys {
				digests[i] = d.evCommit(cls, p)
				des[i] = d.evalBig(p, tau)
				ok = ok && digests[i].IsValid()
			}
			if !ok {
				continue
			}
			bp := d.evBatchOpen(cls, polys, digests, z, hf, dirty, data)
			if !bp.IsValid() {
				continue
			}
			H := bp.Elem().FieldByName("H").Addr()
			vs := bp.Elem().FieldByName("ClaimedValues")
			vals := make([]*big.Int, n)
			for i := range vals {
				vals[i] = d.val(vs.Index(i))
			}
			// he: the scalar of H, from the folded quotient
			g := d.gammaOf(hf, z, digests, vals, data)
			fold := make([]*big.Int, 8)
			for i := range fold {
				fold[i] = new(big.Int)
			}
			gp := big.NewInt(1)
			for _, p := range polys {
				for j, c := range p {
					fold[j].Add(fold[j], new(big.Int).Mul(gp, c))
					fold[j].Mod(fold[j], d.q())
				}
				gp = mul(gp, g)
			}
			he := d.evalBig(d.quotBig(fold, z), tau)
			d.evFold(cls+"/honest", digests, des, H, vs, z, hf, false, data)
			d.evBatchVerify(cls+"/honest", digests, des, H, he, vs, z, hf, dirty, data)
			// alterations of the honest batch: each changes the transcript or the folded relation
			altv := d.elems(vals)
			altv.Index(d.r.Intn(n)).Set(d.elem(d.rnd()))
			d.evBatchVerify(cls+"/alt-value", digests, des, H, he, altv, z, hf, false, data)
			he2 := add(he, big.NewInt(1))
			d.evBatchVerify(cls+"/alt-H", digests, des, d.newG1(he2), he2, vs, z, hf, false, data)
			k := d.r.Intn(n)
			d2 := append([]reflect.Value{}, digests...)
			des2 := append([]*big.Int{}, des...)
			des2[k] = add(des[k], big.NewInt(1))
			d2[k] = d.newG1(des2[k])
			d.evBatchVerify(cls+"/alt-digest", d2, des2, H, he, vs, z, hf, false, data)
			d.evBatchVerify(cls+"/alt-point", digests, des, H, he, vs, add(z, big.NewInt(1)), hf, false, data)
			d.evBatchVerify(cls+"/alt-data", digests, des, H, he, vs, z, hf, false, append(append([][]byte{}, data...), []byte{1}))
			if n >= 2 {
				// permuted digests with the values left in place
				d3 := append([]reflect.Value{}, digests...)
				des3 := append([]*big.Int{}, des...)
				d3[0], d3[1] = d3[1], d3[0]
				des3[0], des3[1] = des3[1], des3[0]
				d.evBatchVerify(cls+"/alt-order", d3, des3, H, he, vs, z, hf, false, data)
			}
			// a TRUE batched claim nobody proved: arbitrary digests and values, H solved from the relation
			if !(z.Cmp(tau) == 0) {
				fc, fv := make([]*big.Int, n), make([]*big.Int, n)
				fd := make([]reflect.Value, n)
				for i := range fc {
					fc[i], fv[i] = d.rnd(), d.rnd()
					fd[i] = d.newG1(fc[i])
				}
				fg := d.gammaOf(hf, z, fd, fv, data)
				num, gp := new(big.Int), big.NewInt(1)
				for i := range fc {
					num = add(num, mul(gp, sub(fc[i], fv[i])))
					gp = mul(gp, fg)
				}
				fh := mul(num, d.inv(sub(tau, z)))
				d.evBatchVerify(cls+"/forged-true", fd, fc, d.newG1(fh), fh, d.elems(fv), z, hf, false, data)
				d.evFold(cls+"/forged", fd, fc, d.newG1(fh), d.elems(fv), z, hf, dirty, data)
				d.evBatchVerify(cls+"/forged-false", fd, fc, d.newG1(add(fh, big.NewInt(1))), add(fh, big.NewInt(1)), d.elems(fv), z, hf, false, data)
			}
		}
	}
	// batches of constant polynomials (the folded quotient is empty)
	for n := 1; n <= 2; n++ {
		polys := make([][]*big.Int, n)
		digests := make([]reflect.Value, n)
		des := make([]*big.Int, n)
		vals := make([]*big.Int, n)
		ok := true
		for i := range polys {
			polys[i] = []*big.Int{d.rnd()}
			digests[i] = d.evCommit("batch/const", polys[i])
			des[i] = polys[i][0]
			vals[i] = polys[i][0]
			ok = ok && digests[i].IsValid()
		}
		if !ok {
			continue
		}
		z := d.rnd()
		d.evBatchOpen(fmt.Sprintf("batch/const/n%d", n), polys, digests, z, "sha256", false, nil)
		// the proof a complete prover returns: the values and the identity as quotient commitment
		d.evBatchVerify(fmt.Sprintf("batch/const/n%d", n), digests, des, d.newG1(big.NewInt(0)), big.NewInt(0), d.elems(vals), z, "sha256", false, nil)
	}
	// shape errors and the empty batch
	p1, p2 := d.randPoly(3), d.randPoly(4)
	c1, c2 := d.evCommit("batch/shape", p1), d.evCommit("batch/shape", p2)
	if c1.IsValid() && c2.IsValid() {
		z := d.rnd()
		e1, e2 := d.evalBig(p1, tau), d.evalBig(p2, tau)
		d.evBatchOpen("batch/shape/1poly-2digests", [][]*big.Int{p1}, []reflect.Value{c1, c2}, z, "sha256", false, nil)
		d.evBatchOpen("batch/shape/oversize", [][]*big.Int{p1, d.randPoly(9)}, []reflect.Value{c1, c2}, z, "sha256", false, nil)
		d.evBatchOpen("batch/shape/emptypoly", [][]*big.Int{p1, {}}, []reflect.Value{c1, c2}, z, "sha256", false, nil)
		h := d.rnd()
		d.evBatchVerify("batch/shape/2digests-1value", []reflect.Value{c1, c2}, []*big.Int{e1, e2}, d.newG1(h), h, d.elems([]*big.Int{d.rnd()}), z, "sha256", false, nil)
		d.evBatchVerify("batch/shape/1digest-2values", []reflect.Value{c1}, []*big.Int{e1}, d.newG1(h), h, d.elems([]*big.Int{d.rnd(), d.rnd()}), z, "sha256", false, nil)
		d.evFold("batch/shape/2digests-1value", []reflect.Value{c1, c2}, []*big.Int{e1, e2}, d.newG1(h), d.elems([]*big.Int{d.rnd()}), z, "sha256", false, nil)
	}
}

func (d *c11Drv) partMulti() {
	if !d.evNewSRS(4, d.rnd()) {
		return
	}
	tau := d.tau
	sub := func(a, b *big.Int) *big.Int { return d.mod(new(big.Int).Sub(a, b)) }
	mul := func(a, b *big.Int) *big.Int { return d.mod(new(big.Int).Mul(a, b)) }
	add := func(a, b *big.Int) *big.Int { return d.mod(new(big.Int).Add(a, b)) }
	src := func(preset ...[]byte) *c11Rand { return &c11Rand{r: d.r, preset: preset} }
	// honest tuples through Commit / Open
	honest := func(n int) []c11Tuple {
		var ts []c11Tuple
		for i := 0; i < n; i++ {
			p := d.randPoly(1 + (i+n)%4)
			if len(p) == 1 { // constant polynomials cannot be opened by the code as it is: give them a second coefficient
				p = append(p, d.rnd())
			}
			z := d.rnd()
			if i == 1 {
				z = tau
			}
			C := d.evCommit("multi", p)
			pr := d.evOpen("multi", p, z)
			if !C.IsValid() || !pr.IsValid() {
				continue
			}
			ts = append(ts, c11Tuple{C: C, ce: d.evalBig(p, tau), H: pr.Elem().FieldByName("H").Addr(), he: d.evalBig(d.quotBig(p, z), tau),
				v: pr.Elem().FieldByName("ClaimedValue"), z: z})
		}
		return ts
	}
	// true tuples nobody proved
	forged := func(n int) []c11Tuple {
		var ts []c11Tuple
		for i := 0; i < n; i++ {
			h, v, z := d.rnd(), d.rnd(), d.rnd()
			c := add(v, mul(sub(tau, z), h))
			ts = append(ts, c11Tuple{C: d.newG1(c), ce: c, H: d.newG1(h), he: h, v: d.elem(v), z: z})
		}
		return ts
	}
	falsify := func(ts []c11Tuple, k int, what int) []c11Tuple {
		out := append([]c11Tuple{}, ts...)
		t := out[k]
		switch what % 4 {
		case 0:
			t.v = d.elem(add(d.val(t.v), big.NewInt(1)))
		case 1:
			t.ce = add(t.ce, big.NewInt(1))
			t.C = d.newG1(t.ce)
		case 2:
			t.he = add(t.he, big.NewInt(1))
			t.H = d.newG1(t.he)
			if t.z.Cmp(tau) == 0 {
				t.z = add(t.z, big.NewInt(1))
			}
		default:
			t.z = add(t.z, big.NewInt(1))
		}
		out[k] = t
		return out
	}
	maxn := 4
	if d.tier == "thorough" {
		maxn = 6
	}
	for n := 1; n <= maxn; n++ {
		ts := honest(n)
		if len(ts) != n {
			continue
		}
		d.evMulti(fmt.Sprintf("multi/n%d/honest", n), ts, n, n, n, src())
		for k := 0; k < n; k++ {
			d.evMulti(fmt.Sprintf("multi/n%d/false%d", n, k), falsify(ts, k, k+n), n, n, n, src())
		}
		ft := forged(n)
		d.evMulti(fmt.Sprintf("multi/n%d/forged-true", n), ft, n, n, n, src())
		d.evMulti(fmt.Sprintf("multi/n%d/forged-false", n), falsify(ft, n-1, n), n, n, n, src())
		if n >= 2 {
			// two false claims
			d.evMulti(fmt.Sprintf("multi/n%d/false-two", n), falsify(falsify(ft, 0, 0), n-1, 1), n, n, n, src())
			// chosen randomness: zero factors hide the claims they multiply; out-of-range candidates are resampled
			zero := make([]byte, d.fr.NBytes)
			ones := bytes.Repeat([]byte{0xff}, d.fr.NBytes)
			zs := make([][]byte, n-1)
			for i := range zs {
				zs[i] = zero
			}
			d.evMulti(fmt.Sprintf("multi/n%d/lambda0-false-last", n), falsify(ft, n-1, 0), n, n, n, src(zs...))
			d.evMulti(fmt.Sprintf("multi/n%d/lambda0-false-first", n), falsify(ft, 0, 0), n, n, n, src(zs...))
			d.evMulti(fmt.Sprintf("multi/n%d/resampled", n), falsify(ft, n-1, 1), n, n, n, src(ones, ones))
			d.evMulti(fmt.Sprintf("multi/n%d/resampled-true", n), ft, n, n, n, src(ones))
			// shapes
			d.evMulti(fmt.Sprintf("multi/n%d/shape-digests", n), ft, n-1, n, n, src())
			d.evMulti(fmt.Sprintf("multi/n%d/shape-proofs", n), ft, n, n-1, n, src())
			d.evMulti(fmt.Sprintf("multi/n%d/shape-points", n), ft, n, n, n-1, src())
		}
	}
	d.evMulti("multi/empty", nil, 0, 0, 0, src())
}

// alpha variants of NewSRS, each used once
func (d *c11Drv) partSRS() {
	q := d.q()
	alphas := []*big.Int{big.NewInt(0), big.NewInt(1), big.NewInt(-1), new(big.Int).Sub(q, big.NewInt(1)), new(big.Int).Add(q, big.NewInt(5)),
		big.NewInt(-7), new(big.Int).Lsh(big.NewInt(1), 300), d.rnd()}
	for i, a := range alphas {
		n := 2 + i%3
		if a.Cmp(big.NewInt(-1)) == 0 {
			n = 6 // the quick string repeats four points
		}
		if !d.evNewSRS(n, a) {
			continue
		}
		for _, m := range []int{1, 2, 3, 4} {
			d.evToLagrange(m)
		}
		p := d.randPoly(n)
		d.honest("srs", p, []*big.Int{d.rnd(), d.tau}, i%2 == 0)
		d.honest("srs", d.randPoly(2), []*big.Int{big.NewInt(0)}, false)
	}
	d.evNewSRS(0, d.rnd())
	d.evNewSRS(1, d.rnd())
}

// partSerial2: round trip of the whole reference string; the copy replaces the string in use, so every later
// Commit / Open / Verify runs on deserialised keys
func (d *c11Drv) partLagrange(thorough bool) {
	if !d.evNewSRS(64, d.rnd()) {
		return
	}
	ms := []int{0, 1, 2, 4, 5, 8, 16}
	if thorough {
		ms = append(ms, 32, 48, 64)
	}
	for _, m := range ms {
		d.evToLagrange(m)
	}
}

// partSeal: MpcSetup.Seal(beacon) multiplies the i-th G1 power by c^i and [tau]G2 by c, c derived from the hash of the
// setup's serialisation and the beacon by hash-to-field. The setup before (serialised bytes, points) and the sealed
// reference string are logged; the specification recomputes c (SHA-256, expand_message_xmd) and the points.
func (d *c11Drv) partSeal() {
	for _, N := range []int{2, 3, 5} { // a reference string has at least two points (NewSRS: ErrMinSRSSize)
		for contributions := 0; contributions <= 1; contributions++ {
			for _, beacon := range [][]byte{{}, []byte("beacon"), d.r.Bytes(70)} {
				ms := reflect.New(d.k.Types["MpcSetup"])
				e := Ev{"op": "Seal", "N": N, "contributions": contributions, "beacon": bytesToInts(beacon)}
				var wire bytes.Buffer
				var sealed reflect.Value
				var before reflect.Value
				_, pm, pk := call(reflect.ValueOf(func() {
					ms.Elem().Set(d.k.Funcs["InitializeSetup"].Call([]reflect.Value{reflect.ValueOf(N)})[0])
					for i := 0; i < contributions; i++ {
						method(ms, "Contribute").Call(nil)
					}
					method(ms, "WriteTo").Call([]reflect.Value{reflect.ValueOf(&wire)})
					before = c11SrsPoints(ms.Elem().FieldByName("srs"))
					sealed = method(ms, "Seal").Call([]reflect.Value{reflect.ValueOf(append([]byte{}, beacon...))})[0]
				}))
				if pk {
					e["panic"] = pm
					d.emit(e)
					continue
				}
				e["wire"] = bytesToInts(wire.Bytes())
				e["before"] = before.Interface()
				e["after"] = c11SrsPoints(sealed).Interface()
				d.emit(e)
			}
		}
	}
}

// c11SrsPoints: {"g1s": [...], "vkg1": p, "g2": [p, p]} of an SRS value (unexported fields are read, never written)
func c11SrsPoints(srs reflect.Value) reflect.Value {
	pkv := srs.FieldByName("Pk").FieldByName("G1")
	vk := srs.FieldByName("Vk")
	g1s := []any{}
	for i := 0; i < pkv.Len(); i++ {
		g1s = append(g1s, enc(c11Readable(pkv.Index(i))))
	}
	return reflect.ValueOf(Ev{"g1s": g1s, "vkg1": enc(c11Readable(vk.FieldByName("G1"))),
		"g2": []any{enc(c11Readable(vk.FieldByName("G2").Index(0))), enc(c11Readable(vk.FieldByName("G2").Index(1)))}})
}

// c11Readable makes an addressable value reached through an unexported field readable by reflection
func c11Readable(v reflect.Value) reflect.Value {
	if v.CanInterface() || !v.CanAddr() {
		return v
	}
	return reflect.NewAt(v.Type(), unsafe.Pointer(v.UnsafeAddr())).Elem()
}

func (d *c11Drv) partSerial2() {
	if !d.evNewSRS(5, d.rnd()) {
		return
	}
	use := func(cls string) {
		d.honest(cls, d.randPoly(5), []*big.Int{d.rnd()}, false)
		d.honest(cls, d.randPoly(2), []*big.Int{d.tau}, true)
	}
	use("serial/original")
	for _, wr := range [][2]string{{"WriteTo", "ReadFrom"}, {"WriteRawTo", "ReadFrom"}, {"WriteTo", "UnsafeReadFrom"}, {"WriteRawTo", "UnsafeReadFrom"}, {"WriteDump", "ReadDump"}} {
		cp := d.evRoundTrip("SRS", wr[0], wr[1], d.srs, Ev{"adopt": true})
		d.srs = cp
		use("serial/" + wr[0] + "-" + wr[1])
	}
	pkp, vkp := d.pk().Addr(), d.vk().Addr()
	for _, wr := range [][2]string{{"WriteTo", "ReadFrom"}, {"WriteRawTo", "ReadFrom"}, {"WriteTo", "UnsafeReadFrom"}, {"WriteRawTo", "UnsafeReadFrom"}} {
		d.evRoundTrip("ProvingKey", wr[0], wr[1], pkp, nil)
	}
	for _, wr := range [][2]string{{"WriteTo", "ReadFrom"}, {"WriteRawTo", "ReadFrom"}} {
		d.evRoundTrip("VerifyingKey", wr[0], wr[1], vkp, nil)
	}
	// proofs
	for i := 0; i < 4; i++ {
		p := d.randPoly(2 + i)
		if i == 3 {
			p = []*big.Int{big.NewInt(0), big.NewInt(0)} // quotient commitment = identity
		}
		if pr := d.evOpen("serial/proof", p, d.rnd()); pr.IsValid() {
			d.evRoundTrip("OpeningProof", "WriteTo", "ReadFrom", pr, Ev{"raw": Ev{"H": enc(pr.Elem().FieldByName("H")), "v": c11Raw(pr.Elem().FieldByName("ClaimedValue"))}})
		}
	}
	for _, n := range []int{0, 1, 3} {
		vals := make([]*big.Int, n)
		for i := range vals {
			vals[i] = d.rnd()
		}
		bp := d.mkBatchProof(d.newG1(d.rnd()), d.elems(vals))
		if n == 0 {
			// what ReadFrom yields for an empty vector is an empty (non-nil) slice: start from the same
			bp.Elem().FieldByName("ClaimedValues").Set(reflect.MakeSlice(reflect.SliceOf(d.fr.ElemT), 0, 0))
		}
		d.evRoundTrip("BatchOpeningProof", "WriteTo", "ReadFrom", bp, nil)
	}
	// setup transcripts of the MPC ceremony
	for _, N := range []int{2, 5} {
		for contributions := 0; contributions <= 2; contributions++ {
			var ms reflect.Value
			src := &c11Rand{r: d.r}
			pm, pk := c15Do(func() {
				c11WithRand(src, func() {
					ms = reflect.New(d.k.Types["MpcSetup"])
					ms.Elem().Set(d.k.Funcs["InitializeSetup"].Call([]reflect.Value{reflect.ValueOf(N)})[0])
					for i := 0; i < contributions; i++ {
						method(ms, "Contribute").Call(nil)
					}
				})
			})
			if pk {
				d.emit(Ev{"op": "RoundTrip", "what": "MpcSetup", "w": "WriteTo", "r": "ReadFrom", "panic": pm, "N": N, "contributions": contributions})
				continue
			}
			d.evRoundTrip("MpcSetup", "WriteTo", "ReadFrom", ms, Ev{"N": N, "contributions": contributions})
		}
	}
}

// ---------------------------------------------------------------------------------------

func runC11(args []string) {
	fs := flag.NewFlagSet("c11", flag.ExitOnError)
	out := fs.String("out", ".", "output directory")
	seed := fs.Uint64("seed", 1, "seed")
	tier := fs.String("tier", "quick", "quick|thorough")
	only := fs.String("curves", "", "comma separated curve names (default: the seven pairing curves)")
	parts := fs.String("parts", "", "comma separated parts (default all): single,forge,batch,multi,srs,serial")
	probe := fs.String("probe", "", "run one crash probe in this process: emptybatchopen")
	fs.Parse(args)
	names := c11Curves
	if *only != "" {
		names = strings.Split(*only, ",")
	}
	want := map[string]bool{}
	for _, p := range strings.Split(*parts, ",") {
		if p != "" {
			want[p] = true
		}
	}
	total := 0
	for ci, name := range names {
		k := c11Pkgs[name]
		c := curves[name]
		if k == nil || c == nil {
			fatal("c11: unknown curve %s", name)
		}
		mk := func(part string, pi int) *c11Drv {
			return &c11Drv{k: k, c: c, g1: c.Group("G1"), fr: c.Fr, tier: *tier,
				r: newRng(*seed*7919 + uint64(ci)*131 + uint64(pi)*17 + 3),
				t: newTrace(*out, "c11_"+name+"_"+part, Ev{"property": "C11", "curve": name, "part": part, "seed": int(*seed % (1 << 30)), "tier": *tier})}
		}
		if *probe != "" {
			d := mk("probe_"+*probe, 99)
			c11Probe(d, *probe)
			total += d.t.Close()
			continue
		}
		run := func(part string, pi int, f func(d *c11Drv)) {
			if len(want) > 0 && !want[part] {
				return
			}
			d := mk(part, pi)
			f(d)
			total += d.t.Close()
		}
		thorough := *tier == "thorough"
		run("single", 0, func(d *c11Drv) {
			if thorough {
				d.partSingle([]int{2, 3, 8, 64})
			} else {
				d.partSingle([]int{2, 3, 8})
			}
		})
		if !thorough {
			run("single64", 6, func(d *c11Drv) { d.partSingle64() })
		}
		run("forge", 1, func(d *c11Drv) {
			if thorough {
				d.partForge(1200)
			} else {
				d.partForge(56)
			}
		})
		run("batch", 2, func(d *c11Drv) { d.partBatch() })
		run("multi", 3, func(d *c11Drv) { d.partMulti() })
		run("srs", 4, func(d *c11Drv) { d.partSRS() })
		run("serial", 5, func(d *c11Drv) { d.partSerial2() })
		run("lagrange", 7, func(d *c11Drv) { d.partLagrange(thorough) })
		run("seal", 8, func(d *c11Drv) { d.partSeal() })
	}
	fmt.Printf("c11: %d events\n", total)
}

// a reference string of 64 points in the quick tier: boundary lengths only
func (d *c11Drv) partSingle64() {
	n := 64
	if !d.evNewSRS(n, d.rnd()) {
		return
	}
	tau := d.tau
	for _, ln := range []int{1, 2, n - 1, n} {
		d.honest(fmt.Sprintf("rand/len%d", ln), d.randPoly(ln), []*big.Int{d.rnd(), tau}, false)
	}
	zero := make([]*big.Int, n)
	for i := range zero {
		zero[i] = big.NewInt(0)
	}
	d.honest("edge/zero/len64", zero, []*big.Int{d.rnd()}, false)
	root := d.rnd()
	d.honest("edge/root/len64", d.polyWithRoot(n, root), []*big.Int{root}, false)
	d.evCommit("size/over", d.randPoly(n+1))
	d.evOpen("size/over", d.randPoly(n+1), d.rnd())
}

// c11Probe: calls that may kill the process (a panic in a goroutine started by the library cannot be
// recovered). The event is written only if the process survives; the orchestrator turns a dead process
// into a rejected behaviour.
func c11Probe(d *c11Drv, which string) {
	switch which {
	case "emptybatchopen":
		if !d.evNewSRS(4, d.rnd()) {
			return
		}
		d.t.w.Flush()
		d.evBatchOpen("batch/empty", nil, nil, d.rnd(), "sha256", false, nil)
		d.t.w.Flush()
		time.Sleep(200 * time.Millisecond) // let a goroutine started by the call run (and crash) before exiting
	default:
		fatal("c11: unknown probe %s", which)
	}
}
