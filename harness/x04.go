package main

// X04 (extension beyond the listed properties): the curve identifiers of package ecc (String, IDFromString, ScalarField,
// BaseField, Implemented), judged by spec/X04_eccid/TraceEccID against the table of names and the frozen field parameters.

import (
	"flag"
	"fmt"
	"strings"

	"github.com/consensys/gnark-crypto/ecc"
)

func init() { register("x04", runX04) }

func runX04(args []string) {
	fs := flag.NewFlagSet("x04", flag.ExitOnError)
	out := fs.String("out", ".", "output directory")
	seed := fs.Uint64("seed", 1, "seed")
	fs.String("tier", "quick", "quick|thorough")
	fs.Parse(args)
	r := newRng(*seed*31 + 7)
	t := newTrace(*out, "x04_eccid", Ev{"property": "X04", "seed": int(*seed % (1 << 30))})
	var names []string
	for id := 0; id <= 14; id++ {
		e := Ev{"op": "ID", "id": id}
		msg, pk := c20try(func() {
			x := ecc.ID(id)
			name := x.String()
			fr, fp := x.ScalarField(), x.BaseField()
			e["name"], e["fr"], e["fp"] = name, digits(fr), digits(fp)
			// the moduli handed out are the caller's: overwrite them and ask again
			fr.SetInt64(int64(r.Intn(1000)))
			fp.Lsh(fp, 3)
			e["fr2"], e["fp2"] = digits(x.ScalarField()), digits(x.BaseField())
			names = append(names, name)
		})
		if pk {
			e["panic"] = msg
		}
		t.Emit(e)
	}
	{
		e := Ev{"op": "Implemented"}
		msg, pk := c20try(func() {
			var ids []int
			for _, x := range ecc.Implemented() {
				ids = append(ids, int(x))
			}
			e["ids"] = ids
		})
		if pk {
			e["panic"] = msg
		}
		t.Emit(e)
	}
	var qs []string
	for _, n := range names {
		mixed := []byte(n)
		for i := range mixed {
			if r.Intn(2) == 0 {
				mixed[i] = strings.ToUpper(string(mixed[i]))[0]
			}
		}
		qs = append(qs, n, strings.ToUpper(n), string(mixed), n+" ", " "+n, n[:len(n)-1], strings.ReplaceAll(n, "_", "-"), strings.ReplaceAll(n, "_", ""))
	}
	qs = append(qs, "", "unknown", "UNKNOWN", "bn", "bls12", "bw6", "ecc.BN254", "BN254\x00", "bls12_377bls12_381", "secp256r1", "goldilocks")
	for _, q := range qs {
		e := Ev{"op": "FromString", "s": q, "lower": strings.ToLower(q)}
		msg, pk := c20try(func() {
			id, err := ecc.IDFromString(q)
			e["id"] = int(id)
			if err != nil {
				e["err"] = err.Error()
			}
		})
		if pk {
			e["panic"] = msg
		}
		t.Emit(e)
	}
	fmt.Printf("x04: %d events\n", t.Close())
}
