package main

// C18, lazily initialised curve parameters: every twisted Edwards point method is called as the FIRST
// library call of a fresh process (operands are built from literal coordinates, limbs written directly),
// once per (curve, method). A method that reads the package-level curve parameters without triggering
// their lazy initialisation computes with zero parameters on first use and with the real ones later:
// the same call on the same arguments gives two results. The events have the format of the C02 Edwards
// driver and are judged by spec/C02_group/TraceEdwards (the group law); each event is also repeated in
// the warm parent process.
//
//	harness c18fresh -out dir -seed s          parent: spawns one child per (curve, method)
//	harness c18fresh-child <curve> <op> <hex coordinates...>

import (
	"bufio"
	"encoding/hex"
	"encoding/json"
	"flag"
	"fmt"
	"math/big"
	"os"
	"os/exec"
	"reflect"
	"strconv"
	"strings"
)

func init() {
	register("c18fresh", runC18Fresh)
	register("c18fresh-child", runC18FreshChild)
	register("c18fresh-mimc", runC18FreshMimcChild)
	register("c18fresh-edset", runC18FreshEdSetChild)
}

// c18fresh-edset <curve> <hex encoding>: PointAffine.SetBytes as the first library call of the process (the decompression
// solves the curve equation, which needs the lazily initialised parameters); the event has the format of the C07 driver
func runC18FreshEdSetChild(args []string) {
	e := edwards[args[0]]
	buf, _ := hex.DecodeString(args[1])
	rec := &TraceWriter{w: bufio.NewWriter(os.Stdout)}
	e.c07Set(rec, "SetBytes", buf, "fresh", reflect.New(e.AffT))
	rec.w.Flush()
}

// edSetFresh: for every twisted Edwards package, the decoding of one valid point in a fresh process and again in this one,
// judged by spec/C07_codec/TraceCodecEd
func edSetFresh(out string, seed uint64) int {
	total := 0
	for _, name := range edwardsNames {
		e := edwards[name]
		_, _, _, base := e.params()
		p := reflect.New(e.AffT)
		method(p, "ScalarMultiplication").Call([]reflect.Value{base, reflect.ValueOf(big.NewInt(int64(7 + seed%50)))})
		enc := c07ArrayBytes(method(p, "Bytes").Call(nil)[0])
		t := newTrace(out, "c18freshed_"+name, Ev{"property": "C18", "kind": "ed", "edwards": name, "seed": int(seed % (1 << 30))})
		cmd := exec.Command(os.Args[0], "c18fresh-edset", name, hex.EncodeToString(enc))
		cmd.Stderr = os.Stderr
		b, err := cmd.Output()
		var ev Ev
		if err != nil || json.Unmarshal(b, &ev) != nil {
			ev = Ev{"op": "SetBytes", "buf": bytesToInts(enc), "cls": "fresh", "panic": fmt.Sprintf("child process failed: %v", err)}
		}
		t.Emit(ev)
		e.c07Set(t, "SetBytes", enc, "warm", reflect.New(e.AffT))
		total += t.Close()
	}
	return total
}

// c18fresh-mimc <instance index> <hex message>: the package-level mimc.Sum as the first library call of the process
func runC18FreshMimcChild(args []string) {
	idx, _ := strconv.Atoi(args[0])
	msg, _ := hex.DecodeString(args[1])
	in := c14MimcInsts()[idx]
	ev := Ev{"op": "MimcSum", "p": bytesToInts(msg)}
	var o []byte
	var err error
	if m, pk := c14try(func() { o, err = in.sum(msg) }); pk {
		ev["panic"] = m
	} else if err != nil {
		ev["err"] = err.Error()
	} else {
		ev["out"] = bytesToInts(o)
	}
	b, _ := json.Marshal(ev)
	fmt.Println(string(b))
}

// mimcFresh: for every MiMC package, Sum(msg) in a fresh process and again in this one; the events have the format of the
// C14 driver and are judged by spec/C14_hashes/TraceHashes (the definition of the hash with the documented constants).
func mimcFresh(out string, seed uint64) int {
	total := 0
	rounds := map[string]int{"bn254/fr": 110, "bls12-377/fr": 62, "bls12-381/fr": 111, "bls24-315/fr": 109, "bls24-317/fr": 91,
		"bw6-633/fr": 136, "bw6-761/fr": 163, "grumpkin/fr": 110}
	for idx, in := range c14MimcInsts() {
		if in.sum == nil {
			continue
		}
		f := fields[in.field]
		r := newRng(seed*6121 + uint64(idx))
		t := newTrace(out, "c18freshmimc_"+strings.NewReplacer("/", "_", "-", "").Replace(in.field), Ev{"property": "C18", "family": "mimc",
			"field": in.field, "name": in.name, "le": in.le, "eb": f.NBytes, "config": "fresh", "seed": int(seed % (1 << 30)),
			"cs": c14KeccakChain("seed", rounds[in.field])})
		t.Emit(Ev{"op": "Params"})
		for k := 0; k < 2; k++ {
			msg := f.ToMont(r.Below(f.Q)).FillBytes(make([]byte, f.NBytes)) // one block, below the modulus
			if k == 1 {
				msg = append(msg, big.NewInt(int64(7+idx)).FillBytes(make([]byte, f.NBytes))...)
			}
			cmd := exec.Command(os.Args[0], "c18fresh-mimc", strconv.Itoa(idx), hex.EncodeToString(msg))
			cmd.Stderr = os.Stderr
			b, err := cmd.Output()
			var ev Ev
			if err != nil || json.Unmarshal(b, &ev) != nil {
				ev = Ev{"op": "MimcSum", "p": bytesToInts(msg), "panic": fmt.Sprintf("child process failed: %v", err)}
			}
			ev["fresh"] = true
			t.Emit(ev)
			w := Ev{"op": "MimcSum", "p": bytesToInts(msg), "fresh": false}
			var o []byte
			if m, pk := c14try(func() { o, err = in.sum(msg) }); pk {
				w["panic"] = m
			} else if err != nil {
				w["err"] = err.Error()
			} else {
				w["out"] = bytesToInts(o)
			}
			t.Emit(w)
		}
		total += t.Close()
	}
	return total
}

// edLiteral builds a representative of kind k of the affine point (x, y) scaled by lam, writing limbs only.
func (e *Edwards) edLiteral(k string, x, y, lam *big.Int) reflect.Value {
	f := e.F()
	q := f.Q
	m := func(a, b *big.Int) *big.Int { return new(big.Int).Mod(new(big.Int).Mul(a, b), q) }
	p := reflect.New(e.typeOf(k))
	set := func(name string, v *big.Int) { f.SetRaw(p.Elem().FieldByName(name).Addr(), f.ToMont(v)) }
	switch k {
	case "aff":
		set("X", x)
		set("Y", y)
	case "proj":
		set("X", m(x, lam))
		set("Y", m(y, lam))
		set("Z", new(big.Int).Mod(lam, q))
	default:
		set("X", m(x, lam))
		set("Y", m(y, lam))
		set("Z", new(big.Int).Mod(lam, q))
		set("T", m(m(x, y), lam))
	}
	return p
}

func runC18FreshChild(args []string) {
	e := edwards[args[0]]
	oi, _ := strconv.Atoi(args[1])
	op := edOps[oi]
	var cs []*big.Int
	for _, s := range args[2:] {
		v, _ := new(big.Int).SetString(s, 16)
		cs = append(cs, v)
	}
	ev := e.freshEvent(op, cs)
	b, _ := json.Marshal(ev)
	fmt.Println(string(b))
}

// freshEvent runs op on operands P = (cs[0], cs[1]), Q = (cs[2], cs[3]) with a receiver holding G = (cs[4], cs[5])
func (e *Edwards) freshEvent(op edOp, cs []*big.Int) Ev {
	kinds := op.args
	if op.pred {
		kinds = append([]string{op.recv}, op.args...)
	}
	lam := big.NewInt(3)
	if op.z1 || (op.name == "MixedAdd" && op.recv == "ext") {
		// Z = 1: the class MixedAdd(P, P) with Z != 1 of extended coordinates belongs to C02 (finding F23), not to this probe
		lam = big.NewInt(1)
	}
	vals := make([]reflect.Value, len(kinds))
	before := make([]any, len(kinds))
	labels := make([]string, len(kinds))
	for i, k := range kinds {
		vals[i] = e.edLiteral(k, cs[2*i], cs[2*i+1], lam)
		before[i] = tagged(k, vals[i])
		labels[i] = []string{"P", "Q"}[i]
	}
	ev := Ev{"op": op.name, "rk": op.recv, "args": before, "labels": labels}
	var recv reflect.Value
	var args []reflect.Value
	if op.pred {
		recv, args = vals[0], vals[1:]
	} else {
		recv, args = e.edLiteral(op.recv, cs[4], cs[5], big.NewInt(5)), vals
	}
	out, pm, pk := call(method(recv, op.name), args...)
	if pk {
		ev["panic"] = pm
		return ev
	}
	if op.pred {
		ev["ret"] = out[0].Bool()
	} else {
		ev["out"] = tagged(op.recv, recv)
	}
	after := make([]any, len(vals))
	for i := range vals {
		after[i] = tagged(kinds[i], vals[i])
	}
	ev["after"] = after
	return ev
}

func runC18Fresh(args []string) {
	fs := flag.NewFlagSet("c18fresh", flag.ExitOnError)
	out := fs.String("out", ".", "output directory")
	seed := fs.Uint64("seed", 1, "seed")
	fs.Parse(args)
	total := 0
	for _, name := range edwardsNames {
		e := edwards[name]
		f := e.F()
		r := newRng(*seed*7151 + uint64(len(name))*31 + uint64(name[len(name)-1]))
		t := newTrace(*out, "c18fresh_"+name, Ev{"property": "C18", "edwards": name, "seed": int(*seed % (1 << 30))})
		_, _, _, base := e.params()
		coords := func(k *big.Int) (*big.Int, *big.Int) {
			p := reflect.New(e.AffT)
			method(p, "ScalarMultiplication").Call([]reflect.Value{base, reflect.ValueOf(k)})
			rinv := new(big.Int).ModInverse(f.R, f.Q)
			val := func(n string) *big.Int {
				v := new(big.Int).Mul(f.Raw(p.Elem().FieldByName(n).Addr()), rinv)
				return v.Mod(v, f.Q)
			}
			return val("X"), val("Y")
		}
		k1, k2 := r.Below(f.Q), r.Below(f.Q)
		px, py := coords(k1)
		qx, qy := coords(k2)
		gx, gy := coords(big.NewInt(7))
		for oi, op := range edOps {
			for variant := 0; variant < 2; variant++ {
				cs := []*big.Int{px, py, qx, qy, gx, gy}
				if variant == 1 {
					if len(op.args) < 2 {
						continue
					}
					cs = []*big.Int{px, py, px, py, gx, gy} // P = Q
				}
				argv := []string{"c18fresh-child", name, strconv.Itoa(oi)}
				for _, c := range cs {
					argv = append(argv, c.Text(16))
				}
				cmd := exec.Command(os.Args[0], argv...)
				cmd.Stderr = os.Stderr
				b, err := cmd.Output()
				var ev Ev
				if err != nil || json.Unmarshal(b, &ev) != nil {
					ev = Ev{"op": op.name, "rk": op.recv, "panic": fmt.Sprintf("child process failed: %v", err), "args": []any{}, "labels": []string{}}
				}
				ev["fresh"] = true
				t.Emit(ev)
				w := e.freshEvent(op, cs) // the same call in this (initialised) process
				w["fresh"] = false
				t.Emit(w)
			}
		}
		total += t.Close()
	}
	total += mimcFresh(*out, *seed)
	total += edSetFresh(*out, *seed)
	fmt.Printf("c18fresh: %d events\n", total)
}
