package main

// C20 driver: representation independence of polynomials.
//
// Part "iop": a heap of iop.Polynomial objects driven through conversion histories (every
// sequence over the conversion alphabet up to a bounded length from each of the 6 forms, as in
// spec/C20_polyform/MCPolyForm), shift / point batteries, cloning, serialisation, the derived
// builders (expressions, quotient, ratios), and seeded random histories.
// Part "poly": package polynomial (univariate helpers, interpolation on a range, multilinear
// bookkeeping tables).
//
// The driver only records: arguments as canonical values it constructed itself (math/big), replies
// as raw Montgomery limbs / ints / error strings / panics. spec/C20_polyform/Trace*.tla judges.
// The typed calls into the 8 generated package families live in c20_gen.go (tools/c20gen.py).

import (
	"bytes"
	"flag"
	"fmt"
	"io"
	"math/big"
	"math/bits"
	"sort"
	"strings"
)

// ---------------------------------------------------------------------------------------
// typed adapters (filled by c20_gen.go)

type c20Snap struct {
	Basis, Layout, Size, Cap int
	Raws                     []*big.Int
}

type c20API struct {
	Field  string
	HasIop bool

	NewDomain       func(card int) any
	NewDomainShift  func(card int, shiftRaw *big.Int) any
	DomainInfo      func(d any) (card int, gen, cosetGen *big.Int)
	NewPoly         func(raws []*big.Int, basis, layout int) any
	Snap            func(p any) c20Snap
	ToCanonical     func(p, d any, nbt []int) any
	ToLagrange      func(p, d any, nbt []int) any
	ToLagrangeCoset func(p, d any) any
	ToRegular       func(p any) any
	ToBitReverse    func(p any) any
	Clone           func(p any, capacity []int) any
	ShallowClone    func(p any) any
	Shift           func(p any, k int) any
	SetSize         func(p any, n int)
	Size            func(p any) int
	Evaluate        func(p any, xraw *big.Int) *big.Int
	GetCoeff        func(p any, i int) *big.Int
	WriteTo         func(p any, w io.Writer) (int64, error)
	ReadFrom        func(r io.Reader) (any, int64, error)
	Expr            func(f func(i int, xs []*big.Int) *big.Int, rmode int, basis, layout int, xs []any) (any, error)
	Divide          func(a, d0, d1 any) (any, error)
	RatioShuffled   func(num, den []any, beta *big.Int, basis, layout int, d any) (any, error)
	RatioCopy       func(ents []any, perm []int64, beta, gamma *big.Int, basis, layout int, d any) (any, error)

	PolEval         func(p []*big.Int, v *big.Int) *big.Int
	PolAdd          func(mode string, rl int, p1, p2 []*big.Int) (out, a1, a2 []*big.Int, same bool)
	PolSub          func(rl int, p1, p2 []*big.Int) (out []*big.Int, isNil bool, a1, a2 []*big.Int)
	PolScale        func(rl int, c *big.Int, p0 []*big.Int) (out, a0 []*big.Int)
	PolScaleInPlace func(c *big.Int, p []*big.Int) []*big.Int
	PolClone        func(p []*big.Int) (out, orig []*big.Int)
	PolSet          func(rl int, p1 []*big.Int) (out, a1 []*big.Int)
	PolEqual        func(p, p1 []*big.Int) bool
	PolInterp       func(v []*big.Int, scribble bool) []*big.Int
	MLFold          func(t []*big.Int, r *big.Int, chunks int) []*big.Int
	MLEvaluate      func(t, xs []*big.Int, pool bool) (out *big.Int, after []*big.Int)
	MLEq            func(t, qs []*big.Int) []*big.Int
	EvalEq          func(q, h []*big.Int) *big.Int
	MLAdd           func(rl int, a, b []*big.Int) []*big.Int
	MLSum           func(t []*big.Int) *big.Int
	MLNumVars       func(n int) int
	MLClone         func(t []*big.Int) (out, orig []*big.Int)
}

var c20APIs = map[string]*c20API{}

func c20Register(a *c20API) { c20APIs[a.Field] = a }

func c20Limbs(l []uint64) *big.Int {
	x := new(big.Int)
	for i := len(l) - 1; i >= 0; i-- {
		x.Lsh(x, 64).Or(x, new(big.Int).SetUint64(l[i]))
	}
	return x
}

func c20SetLimbs(l []uint64, x *big.Int) {
	t := new(big.Int).Set(x)
	mask := new(big.Int).SetUint64(^uint64(0))
	for i := range l {
		l[i] = new(big.Int).And(t, mask).Uint64()
		t.Rsh(t, 64)
	}
	if t.Sign() != 0 {
		panic("c20SetLimbs: value too large")
	}
}

// c20try runs fn and converts a panic into a message (first line, bounded).
func c20try(fn func()) (msg string, panicked bool) {
	defer func() {
		if r := recover(); r != nil {
			panicked = true
			msg = strings.SplitN(fmt.Sprint(r), "\n", 2)[0]
			if len(msg) > 120 {
				msg = msg[:120]
			}
		}
	}()
	fn()
	return
}

const (
	c20Canonical     = 1
	c20Lagrange      = 2
	c20LagrangeCoset = 4
	c20Regular       = 8
	c20BitReverse    = 16
)

var c20Forms = [][2]int{{1, 8}, {1, 16}, {2, 8}, {2, 16}, {4, 8}, {4, 16}}

func c20IsPow2(n int) bool { return n >= 1 && n&(n-1) == 0 }
func c20NextPow2(n int) int {
	p := 1
	for p < n {
		p <<= 1
	}
	return p
}

// ---------------------------------------------------------------------------------------
// iop part

type c20Obj struct {
	p     any
	vec   int // the struct shared with shallow clones (vector and form)
	shift int
	dead  bool // a call on it (or on a handle sharing its struct) panicked: never used again
}

type c20Iop struct {
	api   *c20API
	f     *Field
	out   string // output directory
	hdr   Ev     // header shared by the trace files of this field
	total int
	fam   string // current scenario family and part number (files are rotated at scenario boundaries)
	part  int
	t     *TraceWriter
	rng   *Rng
	nmax  int
	doms  map[int]any
	objs  map[int]*c20Obj
	next  int
	w     *big.Int // canonical value of the generator of the nmax domain
	g     *big.Int // canonical value of the coset shift
	blobs [][]byte
}

func (m *c20Iop) val(raw *big.Int) *big.Int {
	x := new(big.Int).Mul(raw, m.f.Rinv)
	return x.Mod(x, m.f.Q)
}
func (m *c20Iop) raw(v *big.Int) *big.Int { return m.f.ToMont(new(big.Int).Mod(v, m.f.Q)) }

func c20Digits(xs []*big.Int) [][]int {
	out := make([][]int, len(xs))
	for i, x := range xs {
		out[i] = digits(x)
	}
	return out
}

func (m *c20Iop) snapEv(p any) Ev {
	s := m.api.Snap(p)
	return Ev{"basis": s.Basis, "layout": s.Layout, "size": s.Size, "cv": c20Digits(s.Raws)}
}

func (m *c20Iop) dom(card int) any {
	if d, ok := m.doms[card]; ok {
		return d
	}
	var d any
	e := Ev{"op": "Domain", "card": card}
	if msg, pk := c20try(func() { d = m.api.NewDomain(card) }); pk {
		e["panic"] = msg
		m.t.Emit(e)
		fatal("NewDomain(%d) panicked: %s", card, msg)
	}
	c, gen, cg := m.api.DomainInfo(d)
	e["rcard"] = c
	e["gen"] = digits(gen)
	e["cgen"] = digits(cg)
	m.t.Emit(e)
	m.doms[card] = d
	return d
}

// wpow returns the canonical value (generator of order n)^k.
func (m *c20Iop) wpow(n, k int) *big.Int {
	e := ((k % n) + n) % n
	return new(big.Int).Exp(m.w, big.NewInt(int64(m.nmax/n*e)), m.f.Q)
}

// begin starts a new trace file (one per scenario family: short files validate in parallel and keep
// the set of rejected events of one TLC run small)
func (m *c20Iop) begin(family string) {
	m.fam, m.part = family, 0
	m.open(family)
}

func (m *c20Iop) open(family string) {
	m.end()
	h := Ev{"family": family}
	for k, v := range m.hdr {
		h[k] = v
	}
	m.t = newTrace(m.out, "c20_iop_"+strings.ReplaceAll(m.f.Name, "/", "_")+"_"+family, h)
	m.doms = map[int]any{}
	m.objs = map[int]*c20Obj{}
}

func (m *c20Iop) end() {
	if m.t != nil {
		m.total += m.t.Close()
		m.t = nil
	}
}

func (m *c20Iop) reset() {
	if m.t.n > 8000 { // keep files short: they validate in parallel and the set of rejected events stays small
		m.part++
		m.open(fmt.Sprintf("%s%d", m.fam, m.part))
	}
	m.objs = map[int]*c20Obj{}
	m.blobs = nil
	m.t.Emit(Ev{"op": "Reset"})
}

func (m *c20Iop) fresh() int { m.next++; return m.next }

// small or full-size canonical values
func (m *c20Iop) rndVal() *big.Int {
	switch m.rng.Intn(6) {
	case 0:
		return big.NewInt(int64(m.rng.Intn(7)))
	case 1:
		return new(big.Int).Sub(m.f.Q, big.NewInt(int64(1+m.rng.Intn(3))))
	case 2:
		return big.NewInt(int64(m.rng.Intn(1 << 20)))
	default:
		return m.rng.Below(m.f.Q)
	}
}

func (m *c20Iop) rndVals(n int) []*big.Int {
	out := make([]*big.Int, n)
	for i := range out {
		out[i] = m.rndVal()
	}
	return out
}

// newPoly creates an object from canonical values stored verbatim in the given form.
func (m *c20Iop) newPoly(vals []*big.Int, basis, layout int) int {
	id := m.fresh()
	raws := make([]*big.Int, len(vals))
	for i, v := range vals {
		raws[i] = m.raw(v)
	}
	e := Ev{"op": "New", "id": id, "c": c20Digits(vals), "basis": basis, "layout": layout}
	var p any
	if msg, pk := c20try(func() { p = m.api.NewPoly(raws, basis, layout) }); pk {
		e["panic"] = msg
		m.t.Emit(e)
		m.objs[id] = &c20Obj{dead: true, vec: -1}
		return id
	}
	e["st"] = m.snapEv(p)
	m.t.Emit(e)
	m.objs[id] = &c20Obj{p: p, vec: id}
	return id
}

// kill retires a handle after a panic, with every handle sharing its struct (the specification moves
// to the specified successor; what a panicking call left behind is not specified)
func (m *c20Iop) kill(id int) {
	v := m.objs[id].vec
	for _, o := range m.objs {
		if o.vec == v {
			o.dead = true
		}
	}
}

// convEnabled mirrors ConvEnabled of the specification.
func (m *c20Iop) convEnabled(id, card int) bool {
	s := m.api.Snap(m.objs[id].p)
	if !c20IsPow2(card) || card > m.nmax {
		return false
	}
	if s.Basis == c20Canonical && s.Layout == c20Regular {
		return card >= len(s.Raws)
	}
	return card == len(s.Raws)
}

func (m *c20Iop) conv(kind string, id, card int, nbt []int) {
	o := m.objs[id]
	if o.dead {
		return
	}
	d := m.dom(card)
	e := Ev{"op": kind, "id": id, "card": card}
	if len(nbt) > 0 {
		e["nbt"] = nbt[0]
	}
	var ret any
	msg, pk := c20try(func() {
		switch kind {
		case "ToCanonical":
			ret = m.api.ToCanonical(o.p, d, nbt)
		case "ToLagrange":
			ret = m.api.ToLagrange(o.p, d, nbt)
		case "ToLagrangeCoset":
			ret = m.api.ToLagrangeCoset(o.p, d)
		default:
			fatal("conv kind %s", kind)
		}
	})
	if pk {
		e["panic"] = msg
		m.kill(id)
		m.t.Emit(e)
		return
	}
	e["same"] = ret == o.p
	e["st"] = m.snapEv(o.p)
	m.t.Emit(e)
}

func (m *c20Iop) flip(kind string, id int) {
	o := m.objs[id]
	if o.dead {
		return
	}
	e := Ev{"op": kind, "id": id}
	var ret any
	msg, pk := c20try(func() {
		if kind == "ToRegular" {
			ret = m.api.ToRegular(o.p)
		} else {
			ret = m.api.ToBitReverse(o.p)
		}
	})
	if pk {
		e["panic"] = msg
		m.kill(id)
		m.t.Emit(e)
		return
	}
	e["same"] = ret == o.p
	e["st"] = m.snapEv(o.p)
	m.t.Emit(e)
}

func (m *c20Iop) clone(id int, capacity []int) int {
	o := m.objs[id]
	dst := m.fresh()
	e := Ev{"op": "Clone", "id": id, "dst": dst}
	if len(capacity) > 0 {
		e["cap"] = capacity[0]
	}
	var p any
	if msg, pk := c20try(func() { p = m.api.Clone(o.p, capacity) }); pk {
		e["panic"] = msg
		m.t.Emit(e)
		m.objs[dst] = &c20Obj{dead: true, vec: -1}
		return dst
	}
	e["st"] = m.snapEv(p)
	e["capout"] = m.api.Snap(p).Cap
	m.t.Emit(e)
	m.objs[dst] = &c20Obj{p: p, vec: dst, shift: o.shift}
	return dst
}

func (m *c20Iop) shallow(id int) int {
	o := m.objs[id]
	dst := m.fresh()
	e := Ev{"op": "ShallowClone", "id": id, "dst": dst}
	var p any
	if msg, pk := c20try(func() { p = m.api.ShallowClone(o.p) }); pk {
		e["panic"] = msg
		m.t.Emit(e)
		m.objs[dst] = &c20Obj{dead: true, vec: -1}
		return dst
	}
	e["st"] = m.snapEv(p)
	m.t.Emit(e)
	m.objs[dst] = &c20Obj{p: p, vec: o.vec, shift: o.shift}
	return dst
}

func (m *c20Iop) shift(id, k int) {
	o := m.objs[id]
	if o.dead {
		return
	}
	e := Ev{"op": "Shift", "id": id, "k": k}
	var ret any
	if msg, pk := c20try(func() { ret = m.api.Shift(o.p, k) }); pk {
		e["panic"] = msg
		m.kill(id)
	} else {
		e["same"] = ret == o.p
		o.shift = k
	}
	m.t.Emit(e)
}

func (m *c20Iop) setSize(id, n int) {
	o := m.objs[id]
	if o.dead {
		return
	}
	e := Ev{"op": "SetSize", "id": id, "size": n}
	if msg, pk := c20try(func() { m.api.SetSize(o.p, n) }); pk {
		e["panic"] = msg
		m.kill(id)
	}
	m.t.Emit(e)
}

func (m *c20Iop) size(id int) {
	o := m.objs[id]
	if o.dead {
		return
	}
	e := Ev{"op": "Size", "id": id}
	var r int
	if msg, pk := c20try(func() { r = m.api.Size(o.p) }); pk {
		e["panic"] = msg
	} else {
		e["ret"] = r
	}
	m.t.Emit(e)
}

func (m *c20Iop) evaluate(id int, x *big.Int) {
	o := m.objs[id]
	if o.dead {
		return
	}
	e := Ev{"op": "Evaluate", "id": id, "x": digits(x)}
	var r *big.Int
	if msg, pk := c20try(func() { r = m.api.Evaluate(o.p, m.raw(x)) }); pk {
		e["panic"] = msg
	} else {
		e["out"] = digits(r)
	}
	m.t.Emit(e)
}

func (m *c20Iop) getCoeff(id, i int) {
	o := m.objs[id]
	if o.dead {
		return
	}
	e := Ev{"op": "GetCoeff", "id": id, "i": i}
	var r *big.Int
	if msg, pk := c20try(func() { r = m.api.GetCoeff(o.p, i) }); pk {
		e["panic"] = msg
	} else {
		e["out"] = digits(r)
	}
	m.t.Emit(e)
}

// coeffs dumps the stored vector (detects any mutation by a read-only call).
func (m *c20Iop) coeffs(id int) {
	o := m.objs[id]
	if o.dead {
		return
	}
	m.t.Emit(Ev{"op": "Coeffs", "id": id, "st": m.snapEv(o.p)})
}

func (m *c20Iop) dumpAll() {
	ids := make([]int, 0, len(m.objs))
	for id, o := range m.objs {
		if !o.dead {
			ids = append(ids, id)
		}
	}
	sort.Ints(ids)
	for _, id := range ids {
		m.coeffs(id)
	}
}

func (m *c20Iop) writeTo(id int) int {
	o := m.objs[id]
	var buf bytes.Buffer
	blob := len(m.blobs)
	e := Ev{"op": "WriteTo", "id": id, "blob": blob}
	var n int64
	var err error
	if msg, pk := c20try(func() { n, err = m.api.WriteTo(o.p, &buf) }); pk {
		e["panic"] = msg
	} else {
		e["n"] = int(n)
		e["nbytes"] = buf.Len()
		if err != nil {
			e["err"] = err.Error()
		}
	}
	m.blobs = append(m.blobs, append([]byte{}, buf.Bytes()...))
	m.t.Emit(e)
	return blob
}

// readFrom decodes blob (truncated to trunc bytes when trunc >= 0) into a new object.
func (m *c20Iop) readFrom(blob, trunc int, src int) int {
	b := m.blobs[blob]
	dst := m.fresh()
	e := Ev{"op": "ReadFrom", "blob": blob, "dst": dst, "total": len(b)}
	if trunc >= 0 && trunc < len(b) {
		b = b[:trunc]
		e["trunc"] = trunc
	}
	var p any
	var n int64
	var err error
	if msg, pk := c20try(func() { p, n, err = m.api.ReadFrom(bytes.NewReader(b)) }); pk {
		e["panic"] = msg
		m.t.Emit(e)
		m.objs[dst] = &c20Obj{dead: true, vec: -1}
		return dst
	}
	e["n"] = int(n)
	if err != nil {
		e["err"] = err.Error()
		m.objs[dst] = &c20Obj{dead: true, vec: -1}
	} else {
		e["st"] = m.snapEv(p)
		so := m.objs[src]
		m.objs[dst] = &c20Obj{p: p, vec: dst, shift: so.shift}
	}
	m.t.Emit(e)
	return dst
}

// observation points for object id: random, zero, one, a domain point, a coset point
func (m *c20Iop) points(id int, full bool) []*big.Int {
	s := m.api.Snap(m.objs[id].p)
	n := c20NextPow2(len(s.Raws))
	j := m.rng.Intn(n)
	pts := []*big.Int{m.rng.Below(m.f.Q)}
	if full {
		cos := new(big.Int).Mul(m.g, m.wpow(n, j))
		pts = append(pts, big.NewInt(0), big.NewInt(1), m.wpow(n, j), cos.Mod(cos, m.f.Q), m.wpow(n, n/2+1), big.NewInt(int64(2+m.rng.Intn(5))))
	}
	return pts
}

func (m *c20Iop) observe(id int, full bool) {
	o := m.objs[id]
	if o.dead {
		return
	}
	for _, x := range m.points(id, full) {
		m.evaluate(id, x)
	}
	s := m.api.Snap(o.p)
	n := len(s.Raws)
	if s.Basis != c20Canonical || o.shift == 0 {
		m.getCoeff(id, m.rng.Intn(n))
		if full {
			m.getCoeff(id, 0)
			m.getCoeff(id, n-1)
		}
	}
}

var c20ConvAlphabet = []string{"ToCanonical", "ToLagrange", "ToLagrangeCoset", "ToRegular", "ToBitReverse"}

func (m *c20Iop) rndNbt() []int {
	switch m.rng.Intn(6) {
	case 0:
		return nil
	case 1:
		return []int{1}
	case 2:
		return []int{2}
	case 3:
		return []int{3}
	case 4:
		return []int{8}
	default:
		return []int{1 + m.rng.Intn(40)}
	}
}

// apply one letter of the conversion alphabet to object id (card: 0 = the vector length)
func (m *c20Iop) letter(a string, id int, grow bool) {
	s := m.api.Snap(m.objs[id].p)
	card := c20NextPow2(len(s.Raws))
	if grow && s.Basis == c20Canonical && s.Layout == c20Regular && card*2 <= m.nmax {
		card *= 2
	}
	switch a {
	case "ToCanonical", "ToLagrange":
		m.conv(a, id, card, m.rndNbt())
	case "ToLagrangeCoset":
		m.conv(a, id, card, nil)
	default:
		m.flip(a, id)
	}
}

// formGraph: every word over the conversion alphabet of length <= depth, from each of the 6 forms
// (the object of a node is a Clone of its parent: prefixes are shared and Clone is exercised).
func (m *c20Iop) formGraph(n, depth int, growProb int) {
	for _, fm := range c20Forms {
		m.reset()
		root := m.newPoly(m.rndVals(n), fm[0], fm[1])
		if fm[0] == c20LagrangeCoset {
			// records the coset of the domain on the handle (no-op on the vector)
			m.conv("ToLagrangeCoset", root, n, nil)
		}
		m.observe(root, true)
		var rec func(parent, d int)
		cnt := 0
		rec = func(parent, d int) {
			if d == 0 {
				return
			}
			for _, a := range c20ConvAlphabet {
				child := m.clone(parent, nil)
				if m.objs[child].dead {
					continue
				}
				m.letter(a, child, growProb > 0 && m.rng.Intn(growProb) == 0)
				if m.objs[child].dead {
					continue
				}
				cnt++
				m.observe(child, cnt%9 == 0)
				rec(child, d-1)
				// the parent must be untouched by everything done to its clones
				if d == depth {
					m.observe(parent, false)
				}
				delete(m.objs, child)
				m.t.Emit(Ev{"op": "Drop", "id": child})
			}
		}
		rec(root, depth)
		m.dumpAll()
	}
}

// reach builds an object of the given form denoting a random polynomial of n coefficients
// (through conversions from canonical/regular, or directly from stored values).
func (m *c20Iop) reach(n int, fm [2]int, direct bool) int {
	if direct {
		id := m.newPoly(m.rndVals(n), fm[0], fm[1])
		if fm[0] == c20LagrangeCoset {
			m.conv("ToLagrangeCoset", id, n, nil)
		}
		return id
	}
	id := m.newPoly(m.rndVals(n), c20Canonical, c20Regular)
	switch fm[0] {
	case c20Lagrange:
		m.conv("ToLagrange", id, n, m.rndNbt())
	case c20LagrangeCoset:
		m.conv("ToLagrangeCoset", id, n, nil)
	}
	if m.objs[id].dead {
		return id
	}
	s := m.api.Snap(m.objs[id].p)
	if s.Layout != fm[1] {
		if fm[1] == c20Regular {
			m.flip("ToRegular", id)
		} else {
			m.flip("ToBitReverse", id)
		}
	}
	return id
}

func c20Shifts(n int) []int {
	return []int{0, 1, 2, 3, 5, 6, 7, n, n + 3, -1, -2, -n, -n - 3, 2*n + 1, 100003}
}

// shiftBattery: every form x every shift class x every point class
func (m *c20Iop) shiftBattery(n int, ext int) {
	for _, fm := range c20Forms {
		m.reset()
		var id int
		if ext > 1 {
			// polynomial of size n living on a domain of cardinality ext*n
			id = m.newPoly(m.rndVals(n), c20Canonical, c20Regular)
			switch fm[0] {
			case c20Canonical:
				m.conv("ToCanonical", id, ext*n, nil)
			case c20Lagrange:
				m.conv("ToLagrange", id, ext*n, m.rndNbt())
			case c20LagrangeCoset:
				m.conv("ToLagrangeCoset", id, ext*n, nil)
			}
			if m.objs[id].dead {
				continue
			}
			if s := m.api.Snap(m.objs[id].p); s.Layout != fm[1] {
				if fm[1] == c20Regular {
					m.flip("ToRegular", id)
				} else {
					m.flip("ToBitReverse", id)
				}
			}
		} else {
			id = m.reach(n, fm, m.rng.Intn(2) == 0)
		}
		if m.objs[id].dead {
			continue
		}
		m.size(id)
		for _, k := range c20Shifts(n) {
			m.shift(id, k)
			// shifts outside 0..5 are a known finding (every value is wrong): two points are enough there
			for _, x := range m.points(id, k >= 0 && k <= 5) {
				m.evaluate(id, x)
			}
			s := m.api.Snap(m.objs[id].p)
			if s.Basis != c20Canonical || k == 0 {
				N := len(s.Raws)
				for _, i := range []int{0, 1 % N, N / 2, N - 1} {
					m.getCoeff(id, i)
				}
			}
		}
		m.shift(id, 0)
		m.observe(id, false)
		m.dumpAll()
	}
}

func (m *c20Iop) cloneScenarios(n int) {
	for _, fm := range c20Forms {
		m.reset()
		a := m.reach(n, fm, false)
		if m.objs[a].dead {
			continue
		}
		m.shift(a, 1)
		// deep clone: independent vector, same denotation, own flags
		b := m.clone(a, []int{n + m.rng.Intn(3*n)})
		m.observe(b, false)
		for _, l := range []string{"ToLagrange", "ToBitReverse", "ToCanonical", "ToRegular", "ToLagrangeCoset"} {
			m.letter(l, b, false)
			if m.objs[b].dead {
				break
			}
		}
		m.shift(b, 2)
		m.observe(a, true) // the original is untouched
		m.observe(b, false)
		// shallow clone: own shift / size, shared vector
		c := m.shallow(a)
		m.shift(c, 3)
		m.observe(c, false)
		m.observe(a, false)
		m.setSize(c, n)
		m.size(c)
		m.size(a)
		// converting through one handle converts the shallow clone too (vector and form are shared); a deep
		// clone taken before stays as it was
		d := m.clone(a, nil)
		m.letter("ToLagrange", a, false)
		m.letter("ToBitReverse", a, false)
		m.letter("ToRegular", a, false)
		if !m.objs[a].dead {
			m.observe(a, false)
		}
		m.observe(d, false)
		m.observe(c, false)
		m.dumpAll()
	}
}

func (m *c20Iop) serialScenarios(n int) {
	for _, fm := range c20Forms {
		m.reset()
		a := m.reach(n, fm, m.rng.Intn(2) == 0)
		if m.objs[a].dead {
			continue
		}
		for _, k := range []int{0, 2, -1, n + 1} {
			m.shift(a, k)
			blob := m.writeTo(a)
			b := m.readFrom(blob, -1, a)
			if !m.objs[b].dead {
				m.size(b)
				m.observe(b, k == 0)
				// the copy is independent
				m.letter(c20ConvAlphabet[m.rng.Intn(5)], b, false)
				if !m.objs[b].dead {
					m.observe(b, false)
				}
			}
			m.observe(a, false)
			total := len(m.blobs[blob])
			for _, tr := range []int{0, 3, 4, total / 2, total - 33, total - 1} {
				if tr >= 0 && tr < total {
					m.readFrom(blob, tr, a)
				}
			}
		}
		m.dumpAll()
	}
}

// odd lengths (canonical / regular only), SetSize
func (m *c20Iop) sizeScenarios() {
	for _, n := range []int{3, 5, 6, 7, 12} {
		m.reset()
		a := m.newPoly(m.rndVals(n), c20Canonical, c20Regular)
		m.size(a)
		m.observe(a, true)
		b := m.clone(a, nil)
		blob := m.writeTo(a)
		c := m.readFrom(blob, -1, a)
		m.observe(c, false)
		m.letter("ToLagrange", b, false)
		m.observe(b, true)
		m.letter("ToLagrangeCoset", b, false)
		m.observe(b, true)
		m.letter("ToCanonical", b, false)
		m.letter("ToRegular", b, false)
		m.observe(b, true)
		m.observe(a, false)
		m.dumpAll()
	}
	for _, n := range []int{4, 8, 16} {
		for _, fm := range c20Forms {
			m.reset()
			a := m.reach(n, fm, false)
			if m.objs[a].dead {
				continue
			}
			for _, sz := range []int{n / 2, n / 4, n, 1} {
				if sz < 1 {
					continue
				}
				m.setSize(a, sz)
				m.size(a)
				for _, k := range []int{0, 1, 3} {
					m.shift(a, k)
					m.observe(a, true)
				}
			}
			m.dumpAll()
		}
	}
}

// ---- derived builders

type c20Expr struct {
	k0 *big.Int
	a  []*big.Int
	b  *big.Int
}

func (m *c20Iop) rndExpr(nx int) c20Expr {
	ex := c20Expr{k0: big.NewInt(int64(m.rng.Intn(3))), b: big.NewInt(int64(m.rng.Intn(3)))}
	for j := 0; j < nx; j++ {
		ex.a = append(ex.a, big.NewInt(int64(m.rng.Intn(4))))
	}
	switch m.rng.Intn(4) {
	case 0:
		ex.k0, ex.b = m.rng.Below(m.f.Q), m.rng.Below(m.f.Q)
	case 1:
		ex.b = big.NewInt(1)
		for j := range ex.a {
			ex.a[j] = big.NewInt(0)
		}
	}
	return ex
}

func (m *c20Iop) snaps(ids []int) []Ev {
	out := make([]Ev, len(ids))
	for i, id := range ids {
		out[i] = m.snapEv(m.objs[id].p)
	}
	return out
}

func (m *c20Iop) anyDead(ids ...int) bool {
	for _, id := range ids {
		if m.objs[id].dead {
			return true
		}
	}
	return false
}

func (m *c20Iop) ptrs(ids []int) []any {
	out := make([]any, len(ids))
	for i, id := range ids {
		out[i] = m.objs[id].p
	}
	return out
}

// expr runs iop.Evaluate. rmode: 0 nil, 1 slice of the right length, 2 slice of a wrong length
func (m *c20Iop) expr(ids []int, ex c20Expr, basis, layout, rmode int) int {
	q := m.f.Q
	f := func(i int, xs []*big.Int) *big.Int {
		// input function of the harness, evaluated with math/big on canonical values
		acc := new(big.Int).Mul(ex.k0, big.NewInt(int64(i)))
		prod := big.NewInt(1)
		for j, xr := range xs {
			v := m.val(xr)
			acc.Add(acc, new(big.Int).Mul(ex.a[j], v))
			prod.Mul(prod, v).Mod(prod, q)
		}
		acc.Add(acc, prod.Mul(prod, ex.b))
		return m.raw(acc.Mod(acc, q))
	}
	dst := m.fresh()
	e := Ev{"op": "Expr", "xs": ids, "dst": dst, "basis": basis, "layout": layout, "rmode": rmode,
		"ex": Ev{"k0": digits(ex.k0), "a": c20Digits(ex.a), "b": digits(ex.b)}}
	var p any
	var err error
	msg, pk := c20try(func() { p, err = m.api.Expr(f, rmode, basis, layout, m.ptrs(ids)) })
	switch {
	case pk:
		e["panic"] = msg
		for _, id := range ids {
			m.kill(id)
		}
		m.objs[dst] = &c20Obj{dead: true, vec: -1}
	case err != nil:
		e["err"] = err.Error()
		e["after"] = m.snaps(ids)
		m.objs[dst] = &c20Obj{dead: true, vec: -1}
	default:
		e["st"] = m.snapEv(p)
		e["after"] = m.snaps(ids)
		m.objs[dst] = &c20Obj{p: p, vec: dst}
	}
	m.t.Emit(e)
	return dst
}

func (m *c20Iop) exprScenarios(n int) {
	// same basis, mixed layouts and (non-negative) shifts; then mixed bases
	for round := 0; round < 6; round++ {
		m.reset()
		nx := 1 + m.rng.Intn(3)
		basis := []int{c20Lagrange, c20LagrangeCoset, c20Canonical, c20Lagrange, c20Lagrange, 0}[round]
		var ids []int
		for j := 0; j < nx; j++ {
			b := basis
			if b == 0 {
				b = []int{1, 2, 4}[m.rng.Intn(3)]
			}
			id := m.reach(n, [2]int{b, []int{8, 16}[m.rng.Intn(2)]}, m.rng.Intn(2) == 0)
			if m.objs[id].dead {
				continue
			}
			if b != c20Canonical {
				m.shift(id, []int{0, 1, 2, 6, n + 1}[m.rng.Intn(5)])
			}
			ids = append(ids, id)
		}
		if len(ids) == 0 {
			continue
		}
		nx = len(ids)
		ex := m.rndExpr(nx)
		ob := []int{1, 2, 4}[m.rng.Intn(3)]
		ol := []int{8, 16}[m.rng.Intn(2)]
		if basis != 0 {
			ob = basis
		}
		r := m.expr(ids, ex, ob, ol, m.rng.Intn(2))
		if !m.objs[r].dead {
			m.size(r)
			if ob == c20LagrangeCoset {
				m.conv("ToLagrangeCoset", r, n, nil)
			}
			m.observe(r, true)
			m.letter("ToCanonical", r, false)
			m.observe(r, false)
		}
		// the same handle twice
		if round%2 == 0 {
			m.expr([]int{ids[0], ids[0]}, m.rndExpr(2), ob, ol, 0)
		}
		m.dumpAll()
	}
	// error paths: no input is not expressible through the typed adapter (variadic); inconsistent sizes, wrong r
	if 2*n <= m.nmax {
		m.reset()
		a := m.reach(n, [2]int{2, 8}, false)
		b := m.reach(2*n, [2]int{2, 8}, false)
		if m.anyDead(a, b) {
			return
		}
		m.expr([]int{a, b}, m.rndExpr(2), 2, 8, 0)
		m.expr([]int{b, a}, m.rndExpr(2), 2, 16, 0)
		m.expr([]int{a, a}, m.rndExpr(2), 2, 8, 2)
		m.dumpAll()
	}
}

func (m *c20Iop) divide(id, card0, card1 int) int {
	o := m.objs[id]
	dst := m.fresh()
	e := Ev{"op": "Divide", "id": id, "dst": dst, "card0": card0, "card1": card1}
	d0, d1 := m.dom(card0), m.dom(card1)
	var p any
	var err error
	msg, pk := c20try(func() { p, err = m.api.Divide(o.p, d0, d1) })
	switch {
	case pk:
		e["panic"] = msg
		m.kill(id)
		m.objs[dst] = &c20Obj{dead: true, vec: -1}
	case err != nil:
		e["err"] = err.Error()
		e["after"] = []Ev{m.snapEv(o.p)}
		m.objs[dst] = &c20Obj{dead: true, vec: -1}
	default:
		e["st"] = m.snapEv(p)
		e["after"] = []Ev{m.snapEv(o.p)}
		m.objs[dst] = &c20Obj{p: p, vec: dst}
	}
	m.t.Emit(e)
	return dst
}

// divideShifted: a polynomial a of size n in canonical form is moved to the coset of a big domain of cardinality N that
// carries its OWN coset shift s1 (fft.WithShift), and divided by X^n - 1 with a small domain that carries another shift.
// The event is self-contained (raw coefficients of a, raw reply R): the documented contract R(x) (x^n - 1) = a(x) on the
// coset s1<w_N> is, coefficient-wise, R (X^n - 1) = a mod (X^N - s1^N), which the specification checks without any FFT.
// Everything is linear in a and R, so the check runs on the raw (Montgomery) words as logged.
func (m *c20Iop) divideShifted(n, ratio int) {
	if m.api.NewDomainShift == nil {
		return
	}
	N := n * ratio
	a := m.rndVals(n) // used as raw words (any word below q is a legal raw element)
	for _, shifts := range [][2]int64{{0, 7}, {5, 0}, {3, 11}} {
		e := Ev{"op": "DivideShifted", "n": n, "N": N, "a": c20Digits(a), "s0": digits(big.NewInt(shifts[0])),
			"s1": digits(big.NewInt(shifts[1]))}
		mk := func(card int, sh int64) any {
			if sh == 0 {
				return m.api.NewDomain(card)
			}
			return m.api.NewDomainShift(card, m.f.ToMont(big.NewInt(sh)))
		}
		var res any
		var err error
		msg, pk := c20try(func() {
			d0, d1 := mk(n, shifts[0]), mk(N, shifts[1])
			p := m.api.NewPoly(a, c20Canonical, c20Regular)
			m.api.ToLagrangeCoset(p, d1)
			res, err = m.api.Divide(p, d0, d1)
		})
		switch {
		case pk:
			e["panic"] = msg
		case err != nil:
			e["err"] = err.Error()
		default:
			sn := m.api.Snap(res)
			e["out"] = c20Digits(sn.Raws)
			e["basis"], e["layout"] = sn.Basis, sn.Layout
		}
		m.t.Emit(e)
	}
}

func (m *c20Iop) divideScenarios(n int) {
	for _, ratio := range []int{1, 2, 4} {
		if n*ratio > m.nmax {
			continue
		}
		for _, lay := range []int{8, 16} {
			m.reset()
			// a polynomial of size n extended to the coset of the domain of cardinality ratio*n
			a := m.newPoly(m.rndVals(n), c20Canonical, c20Regular)
			m.conv("ToLagrangeCoset", a, n*ratio, nil)
			if m.objs[a].dead {
				continue
			}
			if lay == c20Regular {
				m.flip("ToRegular", a)
			}
			for _, k := range []int{0, 1, n + 2} {
				m.shift(a, k)
				r := m.divide(a, n, n*ratio)
				if !m.objs[r].dead {
					m.size(r)
					m.observe(r, k == 0)
				}
			}
			m.shift(a, 0)
			// not in coset form: error
			b := m.clone(a, nil)
			m.letter("ToLagrange", b, false)
			if !m.objs[b].dead {
				m.divide(b, n, n*ratio)
			}
			m.dumpAll()
		}
	}
}

func (m *c20Iop) ratioShuffled(num, den []int, beta *big.Int, basis, layout, dom int) int {
	dst := m.fresh()
	all := append(append([]int{}, num...), den...)
	e := Ev{"op": "RatioShuffled", "num": num, "den": den, "beta": digits(beta), "basis": basis, "layout": layout,
		"dom": dom, "dst": dst}
	var d any
	if dom > 0 {
		d = m.dom(dom)
	}
	var p any
	var err error
	msg, pk := c20try(func() { p, err = m.api.RatioShuffled(m.ptrs(num), m.ptrs(den), m.raw(beta), basis, layout, d) })
	switch {
	case pk:
		e["panic"] = msg
		for _, id := range all {
			m.kill(id)
		}
		m.objs[dst] = &c20Obj{dead: true, vec: -1}
	case err != nil:
		e["err"] = err.Error()
		e["after"] = m.snaps(all)
		m.objs[dst] = &c20Obj{dead: true, vec: -1}
	default:
		e["st"] = m.snapEv(p)
		e["after"] = m.snaps(all)
		m.objs[dst] = &c20Obj{p: p, vec: dst}
	}
	m.t.Emit(e)
	return dst
}

func (m *c20Iop) ratioCopy(ents []int, perm []int64, beta, gamma *big.Int, basis, layout, dom int) int {
	dst := m.fresh()
	pi := make([]int, len(perm))
	for i, v := range perm {
		pi[i] = int(v)
	}
	e := Ev{"op": "RatioCopy", "ents": ents, "perm": pi, "beta": digits(beta), "gamma": digits(gamma), "basis": basis,
		"layout": layout, "dom": dom, "dst": dst}
	var d any
	if dom > 0 {
		d = m.dom(dom)
	}
	var p any
	var err error
	msg, pk := c20try(func() {
		p, err = m.api.RatioCopy(m.ptrs(ents), perm, m.raw(beta), m.raw(gamma), basis, layout, d)
	})
	switch {
	case pk:
		e["panic"] = msg
		for _, id := range ents {
			m.kill(id)
		}
		m.objs[dst] = &c20Obj{dead: true, vec: -1}
	case err != nil:
		e["err"] = err.Error()
		e["after"] = m.snaps(ents)
		m.objs[dst] = &c20Obj{dead: true, vec: -1}
	default:
		e["st"] = m.snapEv(p)
		e["after"] = m.snaps(ents)
		m.objs[dst] = &c20Obj{p: p, vec: dst}
	}
	m.t.Emit(e)
	return dst
}

func (m *c20Iop) observeBuilt(r, n, basis int) {
	if m.objs[r].dead {
		return
	}
	m.size(r)
	if basis == c20LagrangeCoset {
		// the builders do not record the coset on the handle; ToLagrangeCoset does (vector unchanged)
		m.conv("ToLagrangeCoset", r, n, nil)
	}
	m.observe(r, true)
}

func (m *c20Iop) ratioScenarios(n int) {
	for round := 0; round < 4; round++ {
		for _, fm := range c20Forms {
			m.reset()
			k := []int{2, 3, 2, 4}[round]
			if round == 3 && fm[1] == 16 {
				k = 1 // a single pair
			}
			var num, den []int
			for j := 0; j < k; j++ {
				inF := c20Forms[m.rng.Intn(6)]
				if inF[0] == c20LagrangeCoset {
					inF[0] = c20Lagrange
				}
				num = append(num, m.reach(n, inF, true))
				inF = c20Forms[m.rng.Intn(4)]
				den = append(den, m.reach(n, inF, true))
			}
			if m.anyDead(num...) || m.anyDead(den...) {
				continue
			}
			dom := n
			if round%2 == 1 {
				dom = 0
			}
			r := m.ratioShuffled(num, den, m.rng.Below(m.f.Q), fm[0], fm[1], dom)
			m.observeBuilt(r, n, fm[0])
			for _, id := range append(append([]int{}, num...), den...) {
				if !m.objs[id].dead {
					m.observe(id, false)
				}
			}
			m.dumpAll()
		}
	}
	// error paths
	m.reset()
	a, b, c := m.reach(n, [2]int{2, 8}, true), m.reach(n, [2]int{2, 8}, true), m.reach(n, [2]int{1, 8}, true)
	if m.anyDead(a, b, c) {
		return
	}
	m.ratioShuffled([]int{a, b}, []int{c}, big.NewInt(5), 2, 8, n) // numbers differ
	if 2*n <= m.nmax {
		m.ratioShuffled([]int{a, b}, []int{c, b}, big.NewInt(5), 2, 8, 2*n) // domain of the wrong size
	}
	m.dumpAll()
	m.reset()
	x, y := m.newPoly(m.rndVals(3), 1, 8), m.newPoly(m.rndVals(3), 1, 8)
	z, u := m.newPoly(m.rndVals(3), 1, 8), m.newPoly(m.rndVals(3), 1, 8)
	m.ratioShuffled([]int{x, y}, []int{z, u}, big.NewInt(5), 2, 8, 0) // not a power of two
	m.dumpAll()
}

func (m *c20Iop) copyScenarios(n int) {
	for round := 0; round < 3; round++ {
		for _, fm := range c20Forms {
			m.reset()
			k := 1 + (round+fm[1]/8)%3
			if n <= 4 && fm[0] == c20Forms[0][0] && fm[1] == c20Forms[0][1] {
				k = 7 + round%2 // many columns: the support of column j is shifted by the j-th power of the coset generator
			}
			var ents []int
			for j := 0; j < k; j++ {
				inF := c20Forms[m.rng.Intn(4)]
				ents = append(ents, m.reach(n, inF, true))
			}
			if m.anyDead(ents...) {
				continue
			}
			perm := make([]int64, k*n)
			for i := range perm {
				perm[i] = int64(i)
			}
			switch round {
			case 0: // a real permutation
				for i := len(perm) - 1; i > 0; i-- {
					j := m.rng.Intn(i + 1)
					perm[i], perm[j] = perm[j], perm[i]
				}
			case 1: // identity: Z = 1 everywhere
			default: // any map
				for i := range perm {
					perm[i] = int64(m.rng.Intn(len(perm)))
				}
			}
			dom := n
			if round == 1 {
				dom = 0
			}
			r := m.ratioCopy(ents, perm, m.rng.Below(m.f.Q), m.rng.Below(m.f.Q), fm[0], fm[1], dom)
			m.observeBuilt(r, n, fm[0])
			for _, id := range ents {
				if !m.objs[id].dead {
					m.observe(id, false)
				}
			}
			m.dumpAll()
		}
	}
}

// randomHistory: seeded random walk over a small heap with every action of the machine
func (m *c20Iop) randomHistory(steps int) {
	m.reset()
	n := []int{1, 2, 4, 4, 8, 8, 16}[m.rng.Intn(7)]
	live := []int{m.reach(n, c20Forms[m.rng.Intn(6)], m.rng.Intn(2) == 0)}
	pick := func() int {
		var c []int
		for _, id := range live {
			if o := m.objs[id]; !o.dead {
				c = append(c, id)
			}
		}
		if len(c) == 0 {
			return -1
		}
		return c[m.rng.Intn(len(c))]
	}
	for s := 0; s < steps; s++ {
		id := pick()
		if id < 0 {
			break
		}
		o := m.objs[id]
		sn := m.api.Snap(o.p)
		N := len(sn.Raws)
		switch k := m.rng.Intn(20); {
		case k < 8:
			if N == 1 && m.rng.Intn(4) != 0 {
				// ToLagrangeCoset on the domain of cardinality 1 is a known finding: keep some histories alive
				m.letter(c20ConvAlphabet[[]int{0, 1, 3, 4}[m.rng.Intn(4)]], id, m.rng.Intn(5) == 0)
			} else {
				m.letter(c20ConvAlphabet[m.rng.Intn(5)], id, m.rng.Intn(5) == 0)
			}
		case k < 10:
			if len(live) < 4 {
				live = append(live, m.clone(id, nil))
			}
		case k < 11:
			if len(live) < 4 {
				live = append(live, m.shallow(id))
			}
		case k < 14:
			if c20IsPow2(sn.Size) && N%sn.Size == 0 {
				sh := c20Shifts(sn.Size)
				m.shift(id, sh[m.rng.Intn(len(sh))])
			}
		case k < 15:
			if c20IsPow2(N) {
				sz := 1 << m.rng.Intn(bits.Len(uint(N)))
				if N%sz == 0 {
					m.setSize(id, sz)
				}
			}
		case k < 17:
			if len(live) < 4 {
				blob := m.writeTo(id)
				live = append(live, m.readFrom(blob, -1, id))
			}
		default:
			m.size(id)
		}
		if !o.dead {
			m.observe(id, m.rng.Intn(4) == 0)
		}
	}
	m.dumpAll()
}

// run drives one field. level: 0 light (quick tier, most fields), 1 full (quick tier, one field chosen
// by the seed), 2 thorough.
func (m *c20Iop) run(level int) {
	// (i) histories derived from the model
	m.begin("graph")
	switch level {
	case 0:
		m.formGraph(4, 2, 0)
		m.formGraph(2, 2, 3)
		m.formGraph(1, 2, 0)
	case 1:
		m.formGraph(4, 3, 0)
		m.formGraph(2, 2, 3)
		m.formGraph(1, 2, 0)
		m.formGraph(8, 2, 3)
	default:
		m.formGraph(4, 4, 4)
		m.formGraph(2, 3, 3)
		m.formGraph(1, 3, 0)
		m.formGraph(8, 3, 4)
		m.formGraph(16, 2, 3)
	}
	m.begin("shift")
	sizes := [][]int{{1, 4}, {1, 2, 4, 8, 16}, {1, 2, 4, 8, 16, 32, 64}}[level]
	for _, n := range sizes {
		if n > m.nmax {
			continue
		}
		m.shiftBattery(n, 1)
		if n >= 2 && 4*n <= m.nmax && n <= 8 && (level > 0 || n == 4) {
			m.shiftBattery(n, 4)
		}
	}
	m.begin("clone")
	for _, n := range [][]int{{2}, {1, 2, 8}, {1, 2, 4, 8, 32}}[level] {
		m.cloneScenarios(n)
		m.serialScenarios(n)
	}
	m.sizeScenarios()
	m.begin("build")
	for _, n := range [][]int{{1, 4}, {1, 2, 4, 8, 16}, {1, 2, 4, 8, 16, 32, 64}}[level] {
		m.exprScenarios(n)
		m.divideScenarios(n)
		for _, ratio := range []int{1, 2, 4} {
			if n*ratio >= 2 && n*ratio <= m.nmax {
				m.divideShifted(n, ratio)
			}
		}
		m.ratioScenarios(n)
		m.copyScenarios(n)
	}
	// batch inversion is split over several tasks only from 116 entries on
	m.reset()
	if m.nmax >= 128 {
		k := 2
		var ents []int
		for j := 0; j < k; j++ {
			ents = append(ents, m.reach(128, c20Forms[2+m.rng.Intn(2)], true))
		}
		perm := make([]int64, k*128)
		for i := range perm {
			perm[i] = int64(m.rng.Intn(len(perm)))
		}
		r := m.ratioCopy(ents, perm, m.rng.Below(m.f.Q), m.rng.Below(m.f.Q), 2, 8, 128)
		if !m.objs[r].dead {
			m.getCoeff(r, 127)
		}
	}
	// (ii) seeded random histories
	m.begin("random")
	nh := []int{25, 60, 600}[level]
	for i := 0; i < nh; i++ {
		m.randomHistory(14)
	}
	m.end()
}

// ---------------------------------------------------------------------------------------
// polynomial part

type c20Pol struct {
	api *c20API
	f   *Field
	t   *TraceWriter
	rng *Rng
}

func (m *c20Pol) raw(v *big.Int) *big.Int { return m.f.ToMont(new(big.Int).Mod(v, m.f.Q)) }
func (m *c20Pol) raws(vs []*big.Int) []*big.Int {
	out := make([]*big.Int, len(vs))
	for i, v := range vs {
		out[i] = m.raw(v)
	}
	return out
}
func (m *c20Pol) rndVal() *big.Int {
	switch m.rng.Intn(6) {
	case 0:
		return big.NewInt(int64(m.rng.Intn(3)))
	case 1:
		return new(big.Int).Sub(m.f.Q, big.NewInt(int64(1+m.rng.Intn(3))))
	case 2:
		return big.NewInt(int64(m.rng.Intn(1 << 20)))
	default:
		return m.rng.Below(m.f.Q)
	}
}
func (m *c20Pol) rndVals(n int) []*big.Int {
	out := make([]*big.Int, n)
	for i := range out {
		out[i] = m.rndVal()
	}
	return out
}

// emit runs fn (which fills e) and records a panic instead when there is one
func (m *c20Pol) emit(e Ev, fn func()) {
	if msg, pk := c20try(fn); pk {
		for k := range e {
			if strings.HasPrefix(k, "out") || k == "ret" || strings.HasPrefix(k, "after") {
				delete(e, k)
			}
		}
		e["panic"] = msg
	}
	m.t.Emit(e)
}

func (m *c20Pol) univariate(maxLen int) {
	a := m.api
	lens := []int{1, 2, 3, 4, 5, 8, 9, 17, maxLen}
	for _, n := range lens {
		p := m.rndVals(n)
		for _, x := range []*big.Int{m.rndVal(), big.NewInt(0), big.NewInt(1), m.rng.Below(m.f.Q)} {
			e := Ev{"op": "Eval", "p": c20Digits(p), "x": digits(x)}
			m.emit(e, func() { e["out"] = digits(a.PolEval(m.raws(p), m.raw(x))) })
		}
		{
			e := Ev{"op": "Clone", "p": c20Digits(p)}
			m.emit(e, func() {
				out, orig := a.PolClone(m.raws(p))
				e["out"], e["after"] = c20Digits(out), c20Digits(orig)
			})
		}
		c := m.rndVal()
		for _, rl := range []int{n, 0, n + 2} {
			e := Ev{"op": "Scale", "p": c20Digits(p), "c": digits(c), "rl": rl}
			m.emit(e, func() {
				out, a0 := a.PolScale(rl, m.raw(c), m.raws(p))
				e["out"], e["after"] = c20Digits(out), c20Digits(a0)
			})
			e2 := Ev{"op": "Set", "p": c20Digits(p), "rl": rl}
			m.emit(e2, func() {
				out, a1 := a.PolSet(rl, m.raws(p))
				e2["out"], e2["after"] = c20Digits(out), c20Digits(a1)
			})
		}
		{
			e := Ev{"op": "ScaleInPlace", "p": c20Digits(p), "c": digits(c)}
			m.emit(e, func() { e["out"] = c20Digits(a.PolScaleInPlace(m.raw(c), m.raws(p))) })
		}
	}
	// Add: every aliasing mode x length relation (incl. empty operands)
	for _, l := range [][2]int{{4, 4}, {5, 2}, {2, 5}, {1, 1}, {3, 0}, {0, 3}, {0, 0}, {8, 7}, {1, 9}} {
		p1, p2 := m.rndVals(l[0]), m.rndVals(l[1])
		big_, small := l[0], l[1]
		if small > big_ {
			big_, small = small, big_
		}
		type md struct {
			mode string
			rl   int
		}
		for _, x := range []md{{"nil", 0}, {"fresh", big_}, {"fresh", small}, {"fresh", big_ + 1}, {"p1", 0}, {"p2", 0}} {
			if x.mode == "fresh" && x.rl == 0 {
				continue // same as nil up to the pointer
			}
			e := Ev{"op": "Add", "mode": x.mode, "rl": x.rl, "p1": c20Digits(p1), "p2": c20Digits(p2)}
			m.emit(e, func() {
				out, a1, a2, same := a.PolAdd(x.mode, x.rl, m.raws(p1), m.raws(p2))
				e["out"], e["after1"], e["after2"], e["same"] = c20Digits(out), c20Digits(a1), c20Digits(a2), same
			})
		}
	}
	for _, l := range [][3]int{{4, 4, 4}, {1, 1, 1}, {7, 7, 7}, {4, 4, 3}, {4, 3, 4}, {3, 4, 4}, {0, 0, 0}} {
		p1, p2 := m.rndVals(l[1]), m.rndVals(l[2])
		e := Ev{"op": "Sub", "rl": l[0], "p1": c20Digits(p1), "p2": c20Digits(p2)}
		m.emit(e, func() {
			out, isNil, a1, a2 := a.PolSub(l[0], m.raws(p1), m.raws(p2))
			e["out"], e["nil"], e["after1"], e["after2"] = c20Digits(out), isNil, c20Digits(a1), c20Digits(a2)
		})
	}
	for _, l := range [][2]int{{3, 3}, {3, 4}, {0, 0}, {1, 1}} {
		p1 := m.rndVals(l[0])
		p2 := m.rndVals(l[1])
		if l[0] == l[1] && m.rng.Intn(2) == 0 {
			p2 = p1
		}
		e := Ev{"op": "Equal", "p1": c20Digits(p1), "p2": c20Digits(p2)}
		m.emit(e, func() { e["ret"] = a.PolEqual(m.raws(p1), m.raws(p2)) })
	}
}

func (m *c20Pol) interpolation(lens []int) {
	a := m.api
	for _, n := range lens {
		for rep := 0; rep < 2; rep++ { // second call: cached basis; the first result was scribbled on
			v := m.rndVals(n)
			e := Ev{"op": "Interpolate", "v": c20Digits(v), "n": n}
			m.emit(e, func() { e["out"] = c20Digits(a.PolInterp(m.raws(v), rep == 0)) })
		}
	}
	for _, n := range []int{256, 300} { // documented: too inefficient beyond 255
		v := make([]*big.Int, n)
		for i := range v {
			v[i] = big.NewInt(int64(i % 3))
		}
		e := Ev{"op": "Interpolate", "v": c20Digits(v[:1]), "n": n}
		m.emit(e, func() { e["out"] = c20Digits(a.PolInterp(m.raws(v), false)) })
	}
}

func (m *c20Pol) multilinear(maxVars int) {
	a := m.api
	for nv := 0; nv <= maxVars; nv++ {
		for rep := 0; rep < 3; rep++ {
			t := m.rndVals(1 << nv)
			if rep == 2 { // a hypercube indicator
				for i := range t {
					t[i] = big.NewInt(0)
				}
				t[m.rng.Intn(len(t))] = big.NewInt(1)
			}
			m.t.Emit(Ev{"op": "MLLoad", "t": c20Digits(t)})
			{
				e := Ev{"op": "NumVars", "n": len(t)}
				m.emit(e, func() { e["ret"] = a.MLNumVars(len(t)) })
				e2 := Ev{"op": "MLSum"}
				m.emit(e2, func() { e2["out"] = digits(a.MLSum(m.raws(t))) })
				e3 := Ev{"op": "MLClone"}
				m.emit(e3, func() {
					out, orig := a.MLClone(m.raws(t))
					e3["out"], e3["after"] = c20Digits(out), c20Digits(orig)
				})
			}
			for _, pool := range []bool{false, true} {
				xs := m.rndVals(nv)
				if rep == 1 { // a hypercube point
					for i := range xs {
						xs[i] = big.NewInt(int64(m.rng.Intn(2)))
					}
				}
				e := Ev{"op": "MLEvaluate", "xs": c20Digits(xs), "pool": pool}
				m.emit(e, func() {
					out, after := a.MLEvaluate(m.raws(t), m.raws(xs), pool)
					e["out"], e["after"] = digits(out), c20Digits(after)
				})
			}
			// fold step by step down to a constant
			cur := m.raws(t)
			for len(cur) >= 2 {
				r := m.rndVal()
				chunks := []int{0, 0, 1, 3}[m.rng.Intn(4)] // 0: Fold, otherwise FoldParallel run over that many ranges
				e := Ev{"op": "MLFold", "r": digits(r), "chunks": chunks}
				var out []*big.Int
				m.emit(e, func() {
					out = a.MLFold(cur, m.raw(r), chunks)
					e["out"] = c20Digits(out)
				})
				if out == nil {
					break
				}
				cur = out
			}
			u := m.rndVals(1 << nv)
			for _, rl := range []int{1 << nv, (1 << nv) + 1} {
				e := Ev{"op": "MLAdd", "a": c20Digits(t), "b": c20Digits(u), "rl": rl}
				m.emit(e, func() { e["out"] = c20Digits(a.MLAdd(rl, m.raws(t), m.raws(u))) })
			}
		}
		// Eq tables and EvalEq
		for rep := 0; rep < 3; rep++ {
			qs, hs := m.rndVals(nv), m.rndVals(nv)
			if rep == 1 {
				for i := range hs {
					hs[i] = big.NewInt(int64(m.rng.Intn(2)))
				}
			}
			if rep == 2 {
				hs = qs
			}
			t := make([]*big.Int, 1<<nv)
			for i := range t {
				t[i] = m.rndVal() // only entry 0 matters
			}
			m.t.Emit(Ev{"op": "MLLoad", "t": c20Digits(t)})
			e := Ev{"op": "MLEq", "qs": c20Digits(qs)}
			m.emit(e, func() { e["out"] = c20Digits(a.MLEq(m.raws(t), m.raws(qs))) })
			e2 := Ev{"op": "EvalEq", "q": c20Digits(qs), "h": c20Digits(hs)}
			m.emit(e2, func() { e2["out"] = digits(a.EvalEq(m.raws(qs), m.raws(hs))) })
			// the table just built, evaluated at h, is EvalEq(q, h) * t[0]
			xs := hs
			e3 := Ev{"op": "MLEvaluate", "xs": c20Digits(xs), "pool": false}
			m.emit(e3, func() {
				tb := a.MLEq(m.raws(t), m.raws(qs))
				out, after := a.MLEvaluate(tb, m.raws(xs), false)
				e3["out"], e3["after"] = digits(out), c20Digits(after)
			})
		}
	}
	// Eq with a destination of the wrong size: documented panic
	{
		t := m.rndVals(4)
		m.t.Emit(Ev{"op": "MLLoad", "t": c20Digits(t)})
		qs := m.rndVals(3)
		e := Ev{"op": "MLEq", "qs": c20Digits(qs)}
		m.emit(e, func() { e["out"] = c20Digits(a.MLEq(m.raws(t), m.raws(qs))) })
	}
}

func (m *c20Pol) run(tier string) {
	reps, maxLen, maxVars := 6, 33, 5
	ilens := []int{1, 2, 3, 4, 5, 8, 13, 2, 5, 1}
	if tier == "thorough" {
		reps, maxLen, maxVars = 25, 120, 8
		ilens = nil
		for i := 1; i <= 40; i++ {
			ilens = append(ilens, i)
		}
		ilens = append(ilens, 64, 100, 255, 7, 3)
	}
	for i := 0; i < reps; i++ {
		m.univariate(maxLen)
	}
	m.interpolation(ilens)
	for i := 0; i < reps; i++ {
		mv := maxVars
		if i > 0 && mv > 4 {
			mv = 4
		}
		m.multilinear(mv)
	}
}

// ---------------------------------------------------------------------------------------

func init() { register("c20", runC20) }

func runC20(args []string) {
	fs := flag.NewFlagSet("c20", flag.ExitOnError)
	out := fs.String("out", ".", "output directory")
	seed := fs.Uint64("seed", 1, "seed")
	tier := fs.String("tier", "quick", "quick|thorough")
	only := fs.String("fields", "", "comma separated field names (default: every field with a polynomial package)")
	part := fs.String("part", "", "iop|poly (default both)")
	fs.Parse(args)
	var names []string
	for n := range c20APIs {
		names = append(names, n)
	}
	sort.Strings(names)
	if *only != "" {
		names = strings.Split(*only, ",")
	}
	total := 0
	for fi, name := range names {
		api := c20APIs[name]
		f := fields[name]
		if api == nil || f == nil {
			fatal("no polynomial packages for field %s", name)
		}
		tag := strings.ReplaceAll(name, "/", "_")
		if api.HasIop && *part != "poly" {
			// quick tier: the full battery (all words of length <= 3, all sizes up to 16, the 128-point domain)
			// on one field chosen by the seed, a lighter one on the others; thorough: everything everywhere
			level, nmax := 0, 64
			if *tier == "thorough" {
				level, nmax = 2, 128
			} else if (int(*seed)+fi)%7 == 0 {
				level, nmax = 1, 128
			}
			rng := newRng(*seed*1000003 + uint64(fi)*7919 + 20)
			// the generator of the largest domain and the coset shift are read from the library (raw) and
			// checked by the specification (exact order, coset off the subgroup)
			d := api.NewDomain(nmax)
			_, gen, cg := api.DomainInfo(d)
			m := &c20Iop{api: api, f: f, out: *out, rng: rng, nmax: nmax, doms: map[int]any{}, objs: map[int]*c20Obj{},
				hdr: Ev{"property": "C20", "part": "iop", "field": name, "nmax": nmax, "level": level,
					"w": digits(gen), "g": digits(cg), "seed": int(*seed % (1 << 30)), "tier": *tier}}
			m.w, m.g = m.val(gen), m.val(cg)
			m.run(level)
			total += m.total
		}
		if *part != "iop" {
			rng := newRng(*seed*1000003 + uint64(fi)*7919 + 21)
			t := newTrace(*out, "c20_poly_"+tag, Ev{"property": "C20", "part": "poly", "field": name,
				"seed": int(*seed % (1 << 30)), "tier": *tier})
			m := &c20Pol{api: api, f: f, t: t, rng: rng}
			m.run(*tier)
			total += t.Close()
		}
	}
	fmt.Printf("c20: %d events, %d fields\n", total, len(names))
}
