package main

// C13: tables of the hash_to_field / hash_to_curve packages (generated once from the package lists).

import (
	"hash"
	"reflect"

	h2f_bls12377_fp "github.com/consensys/gnark-crypto/ecc/bls12-377/fp/hash_to_field"
	h2f_bls12377_fr "github.com/consensys/gnark-crypto/ecc/bls12-377/fr/hash_to_field"
	h2c_bls12377 "github.com/consensys/gnark-crypto/ecc/bls12-377/hash_to_curve"
	h2f_bls12381_fp "github.com/consensys/gnark-crypto/ecc/bls12-381/fp/hash_to_field"
	h2f_bls12381_fr "github.com/consensys/gnark-crypto/ecc/bls12-381/fr/hash_to_field"
	h2c_bls12381 "github.com/consensys/gnark-crypto/ecc/bls12-381/hash_to_curve"
	h2f_bls24315_fp "github.com/consensys/gnark-crypto/ecc/bls24-315/fp/hash_to_field"
	h2f_bls24315_fr "github.com/consensys/gnark-crypto/ecc/bls24-315/fr/hash_to_field"
	h2c_bls24315 "github.com/consensys/gnark-crypto/ecc/bls24-315/hash_to_curve"
	h2f_bls24317_fp "github.com/consensys/gnark-crypto/ecc/bls24-317/fp/hash_to_field"
	h2f_bls24317_fr "github.com/consensys/gnark-crypto/ecc/bls24-317/fr/hash_to_field"
	h2c_bls24317 "github.com/consensys/gnark-crypto/ecc/bls24-317/hash_to_curve"
	h2f_bn254_fp "github.com/consensys/gnark-crypto/ecc/bn254/fp/hash_to_field"
	h2f_bn254_fr "github.com/consensys/gnark-crypto/ecc/bn254/fr/hash_to_field"
	h2c_bn254 "github.com/consensys/gnark-crypto/ecc/bn254/hash_to_curve"
	h2f_bw6633_fp "github.com/consensys/gnark-crypto/ecc/bw6-633/fp/hash_to_field"
	h2f_bw6633_fr "github.com/consensys/gnark-crypto/ecc/bw6-633/fr/hash_to_field"
	h2c_bw6633 "github.com/consensys/gnark-crypto/ecc/bw6-633/hash_to_curve"
	h2f_bw6761_fp "github.com/consensys/gnark-crypto/ecc/bw6-761/fp/hash_to_field"
	h2f_bw6761_fr "github.com/consensys/gnark-crypto/ecc/bw6-761/fr/hash_to_field"
	h2c_bw6761 "github.com/consensys/gnark-crypto/ecc/bw6-761/hash_to_curve"
	h2f_grumpkin_fp "github.com/consensys/gnark-crypto/ecc/grumpkin/fp/hash_to_field"
	h2f_grumpkin_fr "github.com/consensys/gnark-crypto/ecc/grumpkin/fr/hash_to_field"
	h2c_grumpkin "github.com/consensys/gnark-crypto/ecc/grumpkin/hash_to_curve"
	h2c_secp256k1 "github.com/consensys/gnark-crypto/ecc/secp256k1/hash_to_curve"
)

// hash.Hash wrappers of <field>.Hash (one package per field of the pairing curves)
var c13Hashers = map[string]func([]byte) hash.Hash{
	"bls12-377/fp": h2f_bls12377_fp.New,
	"bls12-377/fr": h2f_bls12377_fr.New,
	"bls12-381/fp": h2f_bls12381_fp.New,
	"bls12-381/fr": h2f_bls12381_fr.New,
	"bls24-315/fp": h2f_bls24315_fp.New,
	"bls24-315/fr": h2f_bls24315_fr.New,
	"bls24-317/fp": h2f_bls24317_fp.New,
	"bls24-317/fr": h2f_bls24317_fr.New,
	"bn254/fp":     h2f_bn254_fp.New,
	"bn254/fr":     h2f_bn254_fr.New,
	"bw6-633/fp":   h2f_bw6633_fp.New,
	"bw6-633/fr":   h2f_bw6633_fr.New,
	"bw6-761/fp":   h2f_bw6761_fp.New,
	"bw6-761/fr":   h2f_bw6761_fr.New,
	"grumpkin/fp":  h2f_grumpkin_fp.New,
	"grumpkin/fr":  h2f_grumpkin_fr.New,
}

// exported helpers of the ecc/<curve>/hash_to_curve packages
var c13H2C = map[string]map[string]reflect.Value{
	"bn254": {
		"G1Sgn0":    reflect.ValueOf(h2c_bn254.G1Sgn0),
		"G1NotZero": reflect.ValueOf(h2c_bn254.G1NotZero),
		"G2Sgn0":    reflect.ValueOf(h2c_bn254.G2Sgn0),
		"G2NotZero": reflect.ValueOf(h2c_bn254.G2NotZero),
	},
	"bls12-377": {
		"G1SSWUIsogenyCurveCoefficients": reflect.ValueOf(h2c_bls12377.G1SSWUIsogenyCurveCoefficients),
		"G1SSWUIsogenyZ":                 reflect.ValueOf(h2c_bls12377.G1SSWUIsogenyZ),
		"G1IsogenyMap":                   reflect.ValueOf(h2c_bls12377.G1IsogenyMap),
		"G1Isogeny":                      reflect.ValueOf(h2c_bls12377.G1Isogeny),
		"G1SqrtRatio":                    reflect.ValueOf(h2c_bls12377.G1SqrtRatio),
		"G1MulByZ":                       reflect.ValueOf(h2c_bls12377.G1MulByZ),
		"G1Sgn0":                         reflect.ValueOf(h2c_bls12377.G1Sgn0),
		"G1NotZero":                      reflect.ValueOf(h2c_bls12377.G1NotZero),
		"G2SSWUIsogenyCurveCoefficients": reflect.ValueOf(h2c_bls12377.G2SSWUIsogenyCurveCoefficients),
		"G2SSWUIsogenyZ":                 reflect.ValueOf(h2c_bls12377.G2SSWUIsogenyZ),
		"G2IsogenyMap":                   reflect.ValueOf(h2c_bls12377.G2IsogenyMap),
		"G2Isogeny":                      reflect.ValueOf(h2c_bls12377.G2Isogeny),
		"G2SqrtRatio":                    reflect.ValueOf(h2c_bls12377.G2SqrtRatio),
		"G2MulByZ":                       reflect.ValueOf(h2c_bls12377.G2MulByZ),
		"G2Sgn0":                         reflect.ValueOf(h2c_bls12377.G2Sgn0),
		"G2NotZero":                      reflect.ValueOf(h2c_bls12377.G2NotZero),
	},
	"bls12-381": {
		"G1SSWUIsogenyCurveCoefficients": reflect.ValueOf(h2c_bls12381.G1SSWUIsogenyCurveCoefficients),
		"G1SSWUIsogenyZ":                 reflect.ValueOf(h2c_bls12381.G1SSWUIsogenyZ),
		"G1IsogenyMap":                   reflect.ValueOf(h2c_bls12381.G1IsogenyMap),
		"G1Isogeny":                      reflect.ValueOf(h2c_bls12381.G1Isogeny),
		"G1SqrtRatio":                    reflect.ValueOf(h2c_bls12381.G1SqrtRatio),
		"G1MulByZ":                       reflect.ValueOf(h2c_bls12381.G1MulByZ),
		"G1Sgn0":                         reflect.ValueOf(h2c_bls12381.G1Sgn0),
		"G1NotZero":                      reflect.ValueOf(h2c_bls12381.G1NotZero),
		"G2SSWUIsogenyCurveCoefficients": reflect.ValueOf(h2c_bls12381.G2SSWUIsogenyCurveCoefficients),
		"G2SSWUIsogenyZ":                 reflect.ValueOf(h2c_bls12381.G2SSWUIsogenyZ),
		"G2IsogenyMap":                   reflect.ValueOf(h2c_bls12381.G2IsogenyMap),
		"G2Isogeny":                      reflect.ValueOf(h2c_bls12381.G2Isogeny),
		"G2SqrtRatio":                    reflect.ValueOf(h2c_bls12381.G2SqrtRatio),
		"G2MulByZ":                       reflect.ValueOf(h2c_bls12381.G2MulByZ),
		"G2Sgn0":                         reflect.ValueOf(h2c_bls12381.G2Sgn0),
		"G2NotZero":                      reflect.ValueOf(h2c_bls12381.G2NotZero),
	},
	"bls24-315": {
		"G1SSWUIsogenyCurveCoefficients": reflect.ValueOf(h2c_bls24315.G1SSWUIsogenyCurveCoefficients),
		"G1SSWUIsogenyZ":                 reflect.ValueOf(h2c_bls24315.G1SSWUIsogenyZ),
		"G1IsogenyMap":                   reflect.ValueOf(h2c_bls24315.G1IsogenyMap),
		"G1Isogeny":                      reflect.ValueOf(h2c_bls24315.G1Isogeny),
		"G1SqrtRatio":                    reflect.ValueOf(h2c_bls24315.G1SqrtRatio),
		"G1MulByZ":                       reflect.ValueOf(h2c_bls24315.G1MulByZ),
		"G1Sgn0":                         reflect.ValueOf(h2c_bls24315.G1Sgn0),
		"G1NotZero":                      reflect.ValueOf(h2c_bls24315.G1NotZero),
	},
	"bls24-317": {
		"G1SSWUIsogenyCurveCoefficients": reflect.ValueOf(h2c_bls24317.G1SSWUIsogenyCurveCoefficients),
		"G1SSWUIsogenyZ":                 reflect.ValueOf(h2c_bls24317.G1SSWUIsogenyZ),
		"G1IsogenyMap":                   reflect.ValueOf(h2c_bls24317.G1IsogenyMap),
		"G1Isogeny":                      reflect.ValueOf(h2c_bls24317.G1Isogeny),
		"G1SqrtRatio":                    reflect.ValueOf(h2c_bls24317.G1SqrtRatio),
		"G1MulByZ":                       reflect.ValueOf(h2c_bls24317.G1MulByZ),
		"G1Sgn0":                         reflect.ValueOf(h2c_bls24317.G1Sgn0),
		"G1NotZero":                      reflect.ValueOf(h2c_bls24317.G1NotZero),
	},
	"bw6-633": {
		"G1SSWUIsogenyCurveCoefficients": reflect.ValueOf(h2c_bw6633.G1SSWUIsogenyCurveCoefficients),
		"G1SSWUIsogenyZ":                 reflect.ValueOf(h2c_bw6633.G1SSWUIsogenyZ),
		"G1IsogenyMap":                   reflect.ValueOf(h2c_bw6633.G1IsogenyMap),
		"G1Isogeny":                      reflect.ValueOf(h2c_bw6633.G1Isogeny),
		"G1SqrtRatio":                    reflect.ValueOf(h2c_bw6633.G1SqrtRatio),
		"G1MulByZ":                       reflect.ValueOf(h2c_bw6633.G1MulByZ),
		"G1Sgn0":                         reflect.ValueOf(h2c_bw6633.G1Sgn0),
		"G1NotZero":                      reflect.ValueOf(h2c_bw6633.G1NotZero),
		"G2SSWUIsogenyCurveCoefficients": reflect.ValueOf(h2c_bw6633.G2SSWUIsogenyCurveCoefficients),
		"G2SSWUIsogenyZ":                 reflect.ValueOf(h2c_bw6633.G2SSWUIsogenyZ),
		"G2IsogenyMap":                   reflect.ValueOf(h2c_bw6633.G2IsogenyMap),
		"G2Isogeny":                      reflect.ValueOf(h2c_bw6633.G2Isogeny),
		"G2SqrtRatio":                    reflect.ValueOf(h2c_bw6633.G2SqrtRatio),
		"G2MulByZ":                       reflect.ValueOf(h2c_bw6633.G2MulByZ),
		"G2Sgn0":                         reflect.ValueOf(h2c_bw6633.G2Sgn0),
		"G2NotZero":                      reflect.ValueOf(h2c_bw6633.G2NotZero),
	},
	"bw6-761": {
		"G1SSWUIsogenyCurveCoefficients": reflect.ValueOf(h2c_bw6761.G1SSWUIsogenyCurveCoefficients),
		"G1SSWUIsogenyZ":                 reflect.ValueOf(h2c_bw6761.G1SSWUIsogenyZ),
		"G1IsogenyMap":                   reflect.ValueOf(h2c_bw6761.G1IsogenyMap),
		"G1Isogeny":                      reflect.ValueOf(h2c_bw6761.G1Isogeny),
		"G1SqrtRatio":                    reflect.ValueOf(h2c_bw6761.G1SqrtRatio),
		"G1MulByZ":                       reflect.ValueOf(h2c_bw6761.G1MulByZ),
		"G1Sgn0":                         reflect.ValueOf(h2c_bw6761.G1Sgn0),
		"G1NotZero":                      reflect.ValueOf(h2c_bw6761.G1NotZero),
		"G2SSWUIsogenyCurveCoefficients": reflect.ValueOf(h2c_bw6761.G2SSWUIsogenyCurveCoefficients),
		"G2SSWUIsogenyZ":                 reflect.ValueOf(h2c_bw6761.G2SSWUIsogenyZ),
		"G2IsogenyMap":                   reflect.ValueOf(h2c_bw6761.G2IsogenyMap),
		"G2Isogeny":                      reflect.ValueOf(h2c_bw6761.G2Isogeny),
		"G2SqrtRatio":                    reflect.ValueOf(h2c_bw6761.G2SqrtRatio),
		"G2MulByZ":                       reflect.ValueOf(h2c_bw6761.G2MulByZ),
		"G2Sgn0":                         reflect.ValueOf(h2c_bw6761.G2Sgn0),
		"G2NotZero":                      reflect.ValueOf(h2c_bw6761.G2NotZero),
	},
	"grumpkin": {
		"G1Sgn0":    reflect.ValueOf(h2c_grumpkin.G1Sgn0),
		"G1NotZero": reflect.ValueOf(h2c_grumpkin.G1NotZero),
	},
	"secp256k1": {
		"G1Sgn0":    reflect.ValueOf(h2c_secp256k1.G1Sgn0),
		"G1NotZero": reflect.ValueOf(h2c_secp256k1.G1NotZero),
	},
}
