package main

// C09 driver: operations with more than one implementation (assembly with/without ADX, AVX-512
// kernels, pure Go). The same binary (plus a purego build) is run under every CPU configuration with
// the same seed: the event streams are identical in their inputs, and /verif/check merges them line
// by line; spec/C09_config/ConfigIndependence.tla demands identical replies.

import (
	"flag"
	"fmt"
	"math/big"
	"reflect"
	"strings"
)

func init() { register("c09", runC09) }

var c09Small = map[string]func(t *TraceWriter, r *Rng, tier string){}

func runC09(args []string) {
	fs := flag.NewFlagSet("c09", flag.ExitOnError)
	out := fs.String("out", ".", "output directory")
	seed := fs.Uint64("seed", 1, "seed")
	tier := fs.String("tier", "quick", "quick|thorough")
	config := fs.String("config", "default", "configuration label")
	fs.Parse(args)
	total := 0
	// (1) every field: element operations on the boundary lattice + vectors of every length / alignment
	for _, name := range fieldNames {
		f := fields[name]
		rng := newRng(*seed*15485863 + uint64(len(name))*11 + uint64(name[len(name)-1]))
		t := newTrace(*out, "c09_f_"+strings.ReplaceAll(name, "/", "_")+"_"+*config, Ev{"property": "C09", "field": name, "config": *config})
		m := &fieldMachine{f: f, t: t, rng: rng, lean: true}
		lat := f.rawLattice(rng, 16)
		pool := append([]*big.Int{}, lat...)
		for i := 0; i < 8; i++ {
			pool = append(pool, rng.Below(f.Q))
		}
		np := 120
		if *tier == "thorough" {
			np = 1500
		}
		for i := 0; i < np; i++ {
			a := pool[rng.Intn(len(pool))]
			b := pool[rng.Intn(len(pool))]
			if i%5 == 0 {
				b = new(big.Int).Sub(f.Q, a)
				if b.Cmp(f.Q) >= 0 {
					b = big.NewInt(0)
				}
			}
			m.battery(a, b, i%10 == 0)
		}
		// operands crafted for the carries of the word-level Montgomery multiplication (see montCarryPairs): the portable,
		// the generic and the assembly multiplications must agree on them too
		for _, pr := range montCarryPairs(f, rng) {
			m.battery(pr[0], pr[1], false)
		}
		var lens []int
		if f.Limbs == 4 || f.WBits == 32 { // fields with vector assembly: every length and tail
			for n := 0; n <= 70; n++ {
				lens = append(lens, n)
			}
			lens = append(lens, 111, 112, 113, 127, 128, 129, 256, 257)
		} else {
			lens = []int{0, 1, 2, 3, 7, 16, 17, 33}
		}
		if *tier == "thorough" {
			lens = append(lens, 511, 512, 513, 1023, 1024, 1025, 4097)
		}
		m.vectors(pool, lens)
		total += t.Close()
	}
	// (2) E2 / E6 / E12 of the pairing curves (E2 has assembly)
	for _, name := range curveNames {
		c := curves[name]
		if !c.HasG2() {
			continue
		}
		rng := newRng(*seed*32452843 + uint64(len(name)))
		t := newTrace(*out, "c09_t_"+name+"_"+*config, Ev{"property": "C09", "curve": name, "config": *config})
		for _, tn := range []string{"E2", "E4", "E6", "E12", "E24", "E3"} {
			T, ok := c.Types[tn]
			if !ok {
				continue
			}
			g := &Group{C: c, CoordT: T}
			mk := func(k int) reflect.Value {
				z := g.RandCoord(rng)
				if k%5 == 0 { // zero a sub-coordinate
					z.Elem().Field(z.Elem().NumField() - 1).Set(reflect.Zero(z.Elem().Field(0).Type()))
				}
				if k%7 == 0 {
					z = reflect.New(T)
				}
				return z
			}
			pT := reflect.PtrTo(T)
			n := 12
			if tn == "E12" || tn == "E24" {
				n = 4
			}
			for k := 0; k < n; k++ {
				x, y := mk(k), mk(k+1)
				for i := 0; i < pT.NumMethod(); i++ {
					mt := pT.Method(i)
					ft := mt.Type
					if ft.NumOut() != 1 || ft.Out(0) != pT || strings.HasPrefix(mt.Name, "Set") || strings.Contains(mt.Name, "Random") {
						continue
					}
					var argv []reflect.Value
					okSig := true
					for a := 1; a < ft.NumIn(); a++ {
						if ft.In(a) != pT {
							okSig = false
						}
					}
					if !okSig || ft.NumIn() > 3 || ft.NumIn() < 2 {
						continue
					}
					in := []any{enc(x)}
					argv = append(argv, x)
					if ft.NumIn() == 3 {
						argv = append(argv, y)
						in = append(in, enc(y))
					}
					z := reflect.New(T)
					e := Ev{"op": tn + "." + mt.Name, "in": in}
					_, _, pk := call(z.Method(i), argv...)
					if pk {
						e["panic"] = true
					} else {
						e["out"] = enc(z)
					}
					t.Emit(e)
				}
			}
		}
		total += t.Close()
	}
	// (3) small-field kernels
	for _, name := range []string{"babybear", "koalabear"} {
		rng := newRng(*seed*49979687 + uint64(len(name)))
		t := newTrace(*out, "c09_s_"+name+"_"+*config, Ev{"property": "C09", "field": name, "config": *config})
		c09Small[name](t, rng, *tier)
		total += t.Close()
	}
	fmt.Printf("c09: %d events\n", total)
}
