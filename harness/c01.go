package main

// C01 driver: register-machine programs over field elements. Every exported arithmetic entry
// point is one event; the raw limbs of the destination are logged after the call.

import (
	"flag"
	"fmt"
	"math/big"
	"reflect"
	"sort"
	"strings"
)

const nRegs = 4

type fieldMachine struct {
	lean bool // C09: do not log the operands after the call (C01 does)
	f    *Field
	t    *TraceWriter
	regs [nRegs]reflect.Value
	rng  *Rng
}

func (m *fieldMachine) load(d int, raw *big.Int) {
	m.regs[d] = m.f.NewRaw(raw)
	m.t.Emit(Ev{"op": "Load", "d": d, "out": digits(raw)})
}

func (m *fieldMachine) dump() {
	rs := make([][]int, nRegs)
	for i := range rs {
		rs[i] = digits(m.f.Raw(m.regs[i]))
	}
	m.t.Emit(Ev{"op": "Dump", "regs": rs})
}

// step runs one operation. d: destination register; s: sources.
func (m *fieldMachine) step(op string, d int, s []int, extra any) {
	f := m.f
	if s == nil {
		s = []int{}
	}
	e := Ev{"op": op, "d": d, "s": s}
	z := m.regs[d]
	var out []reflect.Value
	var pm string
	var pk bool
	src := func(i int) reflect.Value { return m.regs[s[i]] }
	switch op {
	case "Add", "Sub", "Mul", "Div":
		out, pm, pk = call(method(z, op), src(0), src(1))
	case "Neg", "Double", "Square", "Inverse", "Set":
		out, pm, pk = call(method(z, op), src(0))
	case "Sqrt":
		out, pm, pk = call(method(z, op), src(0))
		if !pk {
			e["nil"] = out[0].IsNil()
		}
	case "Halve":
		out, pm, pk = call(method(z, op))
	case "MulBy3", "MulBy5", "MulBy13":
		out, pm, pk = call(f.Funcs[op], z)
	case "Exp":
		k := extra.(*big.Int)
		e["k"] = zint(k)
		out, pm, pk = call(method(z, op), src(0).Elem(), reflect.ValueOf(k))
	case "Select":
		c := extra.(int)
		e["c"] = c
		out, pm, pk = call(method(z, op), reflect.ValueOf(c), src(0), src(1))
	case "Butterfly":
		// in place on registers d and s[0]
		out, pm, pk = call(f.Funcs[op], z, src(0))
		if !pk {
			e["out2"] = digits(f.Raw(src(0)))
		}
	case "SetZero", "SetOne":
		out, pm, pk = call(method(z, op))
	case "SetRandom":
		out, pm, pk = call(method(z, op))
	case "Mul2ExpNegN":
		n := extra.(int)
		e["n"] = n
		out, pm, pk = call(method(z, op), src(0), reflect.ValueOf(uint32(n)))
	default:
		fatal("unknown op %s", op)
	}
	_ = out
	if pk {
		e["panic"] = pm
	} else {
		e["out"] = digits(f.Raw(z))
	}
	m.t.Emit(e)
}

// pred runs a predicate / observer that must not modify anything.
func (m *fieldMachine) pred(op string, s []int) {
	f := m.f
	e := Ev{"op": op, "s": s}
	x := m.regs[s[0]]
	var out []reflect.Value
	var pm string
	var pk bool
	switch op {
	case "IsZero", "IsOne", "Legendre", "LexicographicallyLargest", "IsUint64", "FitsOnOneWord", "BitLen", "Uint64":
		out, pm, pk = call(method(x, op))
	case "Cmp", "Equal", "NotEqual":
		out, pm, pk = call(method(x, op), m.regs[s[1]])
	default:
		fatal("unknown pred %s", op)
	}
	if pk {
		e["panic"] = pm
	} else {
		switch out[0].Kind() {
		case reflect.Bool:
			e["ret"] = out[0].Bool()
		case reflect.Int:
			e["ret"] = int(out[0].Int())
		case reflect.Uint64, reflect.Uint32, reflect.Uint:
			if op == "Uint64" {
				e["retn"] = digits(new(big.Int).SetUint64(out[0].Uint()))
			} else if out[0].Uint() != 0 { // NotEqual: only zero / non-zero is specified
				e["ret"] = 1
			} else {
				e["ret"] = 0
			}
		}
	}
	_ = f
	m.t.Emit(e)
}

func rawList(xs []*big.Int) [][]int {
	out := make([][]int, len(xs))
	for i, x := range xs {
		out[i] = digits(x)
	}
	return out
}

func (m *fieldMachine) batchInvert(raws []*big.Int) {
	f := m.f
	in := reflect.MakeSlice(reflect.SliceOf(f.ElemT), len(raws), len(raws))
	for i, r := range raws {
		f.SetRaw(in.Index(i).Addr(), r)
	}
	e := Ev{"op": "BatchInvert", "vin": rawList(raws)}
	out, pm, pk := call(f.Funcs["BatchInvert"], in)
	if pk {
		e["panic"] = pm
	} else {
		e["vout"] = f.VecRaw(out[0])
		e["vafter"] = f.VecRaw(in)
	}
	m.t.Emit(e)
}

// vecOp runs one Vector operation; la, lb, lr are the lengths of a, b and the receiver
// (mismatches must panic). off shifts the sub-slice start inside a larger backing array.
func (m *fieldMachine) vecOp(op string, a, b []*big.Int, lr int, off int, scalar *big.Int) {
	f := m.f
	mk := func(raws []*big.Int) reflect.Value {
		back := reflect.MakeSlice(f.VecT, len(raws)+off+3, len(raws)+off+3)
		v := back.Slice(off, off+len(raws))
		for i, r := range raws {
			f.SetRaw(v.Index(i).Addr(), r)
		}
		return v
	}
	va, vb := mk(a), mk(b)
	res := reflect.New(f.VecT)
	res.Elem().Set(mk(make([]*big.Int, 0)).Slice(0, 0))
	if lr > 0 {
		zero := make([]*big.Int, lr)
		for i := range zero {
			zero[i] = big.NewInt(0)
		}
		res.Elem().Set(mk(zero))
	}
	e := Ev{"op": "Vec" + op, "va": rawList(a), "lr": lr, "off": off}
	var out []reflect.Value
	var pm string
	var pk bool
	switch op {
	case "Add", "Sub", "Mul":
		e["vb"] = rawList(b)
		out, pm, pk = call(method(res, op), va, vb)
		if !pk {
			e["vout"] = f.VecRaw(res.Elem())
		}
	case "ScalarMul":
		e["x"] = digits(scalar)
		out, pm, pk = call(method(res, op), va, f.NewRaw(scalar))
		if !pk {
			e["vout"] = f.VecRaw(res.Elem())
		}
	case "Sum":
		pa := reflect.New(f.VecT)
		pa.Elem().Set(va)
		out, pm, pk = call(method(pa, op))
		if !pk {
			r := reflect.New(f.ElemT)
			r.Elem().Set(out[0])
			e["out"] = digits(f.Raw(r))
		}
	case "Sort": // sort.Sort over the documented sort.Interface of Vector
		pa := reflect.New(f.VecT)
		pa.Elem().Set(va)
		_, pm, pk = call(reflect.ValueOf(func() { sort.Sort(pa.Interface().(sort.Interface)) }))
		if !pk {
			e["vout"] = f.VecRaw(va)
		}
	case "InnerProduct":
		e["vb"] = rawList(b)
		pa := reflect.New(f.VecT)
		pa.Elem().Set(va)
		out, pm, pk = call(method(pa, op), vb)
		if !pk {
			r := reflect.New(f.ElemT)
			r.Elem().Set(out[0])
			e["out"] = digits(f.Raw(r))
		}
	}
	if pk {
		e["panic"] = pm
	} else if !m.lean && op != "Sort" {
		// the sources must be untouched
		e["vaafter"] = f.VecRaw(va)
		if _, ok := e["vb"]; ok {
			e["vbafter"] = f.VecRaw(vb)
		}
	}
	m.t.Emit(e)
}

func (m *fieldMachine) twoAdicSqrts() {
	q := m.f.Q
	one := big.NewInt(1)
	qm1 := new(big.Int).Sub(q, one)
	sAdic := 0
	t := new(big.Int).Set(qm1)
	for t.Bit(0) == 0 {
		t.Rsh(t, 1)
		sAdic++
	}
	half := new(big.Int).Rsh(qm1, 1)
	g := big.NewInt(2)
	for new(big.Int).Exp(g, half, q).Cmp(one) == 0 {
		g.Add(g, one)
	}
	z := new(big.Int).Exp(g, t, q) // order 2^s
	for j := 0; j <= sAdic && j <= 48; j++ {
		// x has 2-adic order 2^(s-j), times a random element of odd order
		u := new(big.Int).Exp(m.rng.Below(q), new(big.Int).Lsh(one, uint(sAdic)), q)
		x := new(big.Int).Mul(z, u)
		x.Mod(x, q)
		m.load(0, m.f.ToMont(x))
		m.step("Sqrt", 1, []int{0}, nil)
		m.pred("Legendre", []int{0})
		m.step("Inverse", 2, []int{0}, nil)
		z.Mul(z, z).Mod(z, q)
	}
	m.dump()
}

var unaryOps = []string{"Neg", "Double", "Square", "Inverse", "Sqrt", "Set"}
var binaryOps = []string{"Add", "Sub", "Mul", "Div"}
var inplaceOps = []string{"Halve", "MulBy3", "MulBy5", "MulBy13"}
var preds1 = []string{"IsZero", "IsOne", "Legendre", "LexicographicallyLargest", "IsUint64", "FitsOnOneWord", "BitLen", "Uint64"}
var preds2 = []string{"Cmp", "Equal", "NotEqual"}

func (f *Field) exponents(r *Rng) []*big.Int {
	q := f.Q
	one := big.NewInt(1)
	var out []*big.Int
	for _, v := range []int64{0, 1, -1, 2, -2, 3, 65537} {
		out = append(out, big.NewInt(v))
	}
	out = append(out, new(big.Int).Sub(q, big.NewInt(2)), new(big.Int).Sub(q, one), new(big.Int).Set(q), new(big.Int).Neg(q),
		new(big.Int).Lsh(one, 64), new(big.Int).Neg(new(big.Int).Lsh(one, 1024)), new(big.Int).Rsh(new(big.Int).Sub(q, one), 1),
		new(big.Int).SetUint64(r.U64()), r.Below(q), new(big.Int).Neg(r.Below(q)), r.Big(q.BitLen()+70))
	return out
}

// battery: every operation on the ordered pair (a,b), distinct destination registers.
func (m *fieldMachine) battery(a, b *big.Int, full bool) {
	m.load(0, a)
	m.load(1, b)
	m.load(2, big.NewInt(0))
	m.load(3, big.NewInt(0))
	for _, op := range binaryOps {
		m.step(op, 2, []int{0, 1}, nil)
	}
	for _, op := range unaryOps {
		m.step(op, 3, []int{0}, nil)
	}
	for _, op := range inplaceOps {
		m.step("Set", 2, []int{0}, nil)
		m.step(op, 2, nil, nil)
	}
	for _, op := range preds1 {
		m.pred(op, []int{0})
	}
	for _, op := range preds2 {
		m.pred(op, []int{0, 1})
		m.pred(op, []int{0, 0})
	}
	m.step("Select", 2, []int{0, 1}, 0)
	m.step("Select", 2, []int{0, 1}, 1)
	m.step("Select", 2, []int{0, 1}, -3)
	m.step("Set", 2, []int{0}, nil)
	m.step("Set", 3, []int{1}, nil)
	m.step("Butterfly", 2, []int{3}, nil)
	if m.f.WBits == 32 {
		m.step("Mul2ExpNegN", 2, []int{0}, m.rng.Intn(33))
	}
	if full {
		for _, k := range m.f.exponents(m.rng) {
			m.step("Exp", 2, []int{0}, k)
		}
	}
	m.dump()
}

// program: a random straight-line program with free register choice (aliasing included).
func (m *fieldMachine) program(pool []*big.Int, n int) {
	r := m.rng
	for i := 0; i < nRegs; i++ {
		m.load(i, pool[r.Intn(len(pool))])
	}
	for i := 0; i < n; i++ {
		d := r.Intn(nRegs)
		switch k := r.Intn(10); {
		case k < 4:
			m.step(binaryOps[r.Intn(len(binaryOps))], d, []int{r.Intn(nRegs), r.Intn(nRegs)}, nil)
		case k < 7:
			m.step(unaryOps[r.Intn(len(unaryOps))], d, []int{r.Intn(nRegs)}, nil)
		case k < 8:
			m.step(inplaceOps[r.Intn(len(inplaceOps))], d, nil, nil)
		case k < 9:
			ex := m.f.exponents(r)
			m.step("Exp", d, []int{r.Intn(nRegs)}, ex[r.Intn(len(ex))])
		default:
			s := r.Intn(nRegs)
			if s != d {
				m.step("Butterfly", d, []int{s}, nil)
			} else {
				m.step("Select", d, []int{r.Intn(nRegs), r.Intn(nRegs)}, r.Intn(3)-1)
			}
		}
	}
	m.dump()
}

func (m *fieldMachine) vectors(pool []*big.Int, lens []int) {
	r := m.rng
	pick := func(n int) []*big.Int {
		out := make([]*big.Int, n)
		for i := range out {
			if r.Intn(3) == 0 {
				out[i] = pool[r.Intn(len(pool))]
			} else {
				out[i] = r.Below(m.f.Q)
			}
		}
		return out
	}
	for _, n := range lens {
		off := r.Intn(4)
		a, b := pick(n), pick(n)
		for _, op := range []string{"Add", "Sub", "Mul"} {
			m.vecOp(op, a, b, n, off, nil)
		}
		m.vecOp("ScalarMul", a, nil, n, off, pool[r.Intn(len(pool))])
		m.vecOp("Sum", a, nil, 0, off, nil)
		m.vecOp("InnerProduct", a, b, 0, off, nil)
		if n <= 64 {
			// with repeated entries: the pool values come back several times
			m.vecOp("Sort", append(append([]*big.Int{}, a...), a[:n/2]...), nil, 0, off, nil)
		}
		// batch inversion with zeros sprinkled in
		bi := pick(n)
		for i := range bi {
			if r.Intn(5) == 0 {
				bi[i] = big.NewInt(0)
			}
		}
		m.batchInvert(bi)
	}
	// structured vectors whose sum / inner product lands on 0 or just above it (the reductions of the
	// accumulating kernels are only exercised near their boundaries by such inputs)
	q := m.f.Q
	for _, n := range []int{16, 113, 114, 128, 200, 257} {
		one := m.f.ToMont(big.NewInt(1))
		minusOne := m.f.ToMont(new(big.Int).Sub(q, big.NewInt(1)))
		x := r.Below(q)
		negx := new(big.Int).Sub(q, x)
		negx.Mod(negx, q)
		alt := make([]*big.Int, n)  // x, -x, x, -x ... (sum 0 or x)
		pm1 := make([]*big.Int, n)  // 1, -1, ...
		comp := make([]*big.Int, n) // random, last = -(sum of the others) in value
		allMax := make([]*big.Int, n)
		acc := new(big.Int)
		for i := 0; i < n; i++ {
			if i%2 == 0 {
				alt[i], pm1[i] = x, one
			} else {
				alt[i], pm1[i] = negx, minusOne
			}
			allMax[i] = new(big.Int).Sub(q, big.NewInt(1))
			if i < n-1 {
				v := r.Below(q)
				comp[i] = m.f.ToMont(v)
				acc.Add(acc, v)
			}
		}
		last := new(big.Int).Mod(new(big.Int).Neg(acc), q)
		comp[n-1] = m.f.ToMont(last)
		ones := make([]*big.Int, n)
		for i := range ones {
			ones[i] = one
		}
		for _, v := range [][]*big.Int{alt, pm1, comp, allMax} {
			m.vecOp("Sum", v, nil, 0, r.Intn(4), nil)
			m.vecOp("InnerProduct", v, ones, 0, 0, nil)
			m.vecOp("InnerProduct", v, v, 0, 0, nil)
		}
		m.vecOp("Add", alt, pm1, n, 0, nil)
		m.vecOp("Sub", comp, comp, n, 0, nil)
		m.vecOp("Mul", allMax, allMax, n, 0, nil)
		m.vecOp("ScalarMul", allMax, nil, n, 0, minusOne)
	}
	// length mismatches: must panic in every configuration
	for _, c := range [][3]int{{0, 1, 0}, {1, 0, 1}, {2, 2, 1}, {3, 2, 3}, {0, 0, 1}, {17, 16, 17}, {16, 16, 0}, {1, 1, 0}} {
		a, b := pick(c[0]), pick(c[1])
		for _, op := range []string{"Add", "Sub", "Mul"} {
			m.vecOp(op, a, b, c[2], 0, nil)
		}
		if c[0] != c[2] {
			m.vecOp("ScalarMul", a, nil, c[2], 0, pool[0])
		}
		if c[0] != c[1] {
			m.vecOp("InnerProduct", a, b, 0, 0, nil)
		}
	}
}

func montCarryPairs(f *Field, rng *Rng) [][2]*big.Int {
	if f.Limbs < 2 {
		return nil
	}
	W := uint(f.WBits)
	mod := new(big.Int).Lsh(big.NewInt(1), W)
	mask := new(big.Int).Sub(mod, big.NewInt(1))
	limb := func(x *big.Int, j int) *big.Int { return new(big.Int).And(new(big.Int).Rsh(x, uint(j)*W), mask) }
	q0 := limb(f.Q, 0)
	targets := []*big.Int{new(big.Int).Set(mask), new(big.Int).Sub(mask, big.NewInt(1)), big.NewInt(1), new(big.Int).Lsh(big.NewInt(1), W-1)}
	for j := 0; j < f.Limbs; j++ {
		qj := limb(f.Q, j)
		if qj.Bit(0) == 1 {
			inv := new(big.Int).ModInverse(qj, mod)
			targets = append(targets, new(big.Int).Sub(mod, inv)) // lo(T*q[j]) = 2^W - 1
			targets = append(targets, inv)                        // lo(T*q[j]) = 1
		}
	}
	var out [][2]*big.Int
	one := big.NewInt(1)
	for _, T := range targets {
		y0 := new(big.Int).Mul(T, q0)
		y0.Neg(y0).Mod(y0, mod)
		for rep := 0; rep < 4; rep++ {
			hi := rng.Below(f.Q)
			if rep == 1 {
				hi = new(big.Int).Sub(f.Q, one) // upper limbs as large as the modulus allows: large incoming carries
			}
			if rep >= 2 {
				// middle limbs all ones (every partial product x[0]*y[j] + t[j] + carry then carries on), top limb zero or just
				// below the modulus' top limb
				hi = new(big.Int)
				for j := 1; j < f.Limbs-1; j++ {
					hi.Or(hi, new(big.Int).Lsh(mask, uint(j)*W))
				}
				if rep == 3 {
					top := limb(f.Q, f.Limbs-1)
					if top.Sign() > 0 {
						hi.Or(hi, new(big.Int).Lsh(new(big.Int).Sub(top, one), uint(f.Limbs-1)*W))
					}
				}
			}
			y := new(big.Int).Or(new(big.Int).Lsh(new(big.Int).Rsh(hi, W), W), y0)
			if y.Cmp(f.Q) >= 0 {
				y.Sub(y, new(big.Int).Lsh(one, W*uint(f.Limbs-1))) // clear one unit of the top limb
				if y.Sign() < 0 || y.Cmp(f.Q) >= 0 {
					continue
				}
			}
			out = append(out, [2]*big.Int{one, y})
			// both operands with the crafted low limb: x = 1 + 2^W * (random upper limbs) keeps x[0] = 1
			x := new(big.Int).Or(new(big.Int).Lsh(new(big.Int).Rsh(rng.Below(f.Q), W), W), one)
			if x.Cmp(f.Q) < 0 {
				out = append(out, [2]*big.Int{x, y})
			}
		}
	}
	return out
}

func init() { register("c01", runC01) }

func runC01(args []string) {
	fs := flag.NewFlagSet("c01", flag.ExitOnError)
	out := fs.String("out", ".", "output directory")
	seed := fs.Uint64("seed", 1, "seed")
	tier := fs.String("tier", "quick", "quick|thorough")
	config := fs.String("config", "default", "configuration label")
	only := fs.String("fields", "", "comma separated field names (default all)")
	fs.Parse(args)
	names := fieldNames
	if *only != "" {
		names = strings.Split(*only, ",")
	}
	nPairs, nProg, nLat, nRnd := 150, 60, 12, 10
	lens := []int{0, 1, 2, 3, 4, 5, 7, 8, 9, 15, 16, 17, 31, 32, 33, 63, 65, 113}
	if *tier == "thorough" {
		nPairs, nProg, nLat, nRnd = 2500, 1500, 60, 40
		lens = nil
		for i := 0; i <= 70; i++ {
			lens = append(lens, i)
		}
		lens = append(lens, 111, 112, 113, 127, 128, 129, 255, 256, 257)
	}
	total := 0
	for _, name := range names {
		f := fields[name]
		if f == nil {
			fatal("unknown field %s", name)
		}
		rng := newRng(*seed*1000003 + uint64(len(name))*7919 + uint64(name[len(name)-1]))
		t := newTrace(*out, "c01_"+strings.ReplaceAll(name, "/", "_")+"_"+*config,
			Ev{"property": "C01", "field": name, "config": *config, "seed": int(*seed % (1 << 30))})
		m := &fieldMachine{f: f, t: t, rng: rng}
		lat := f.rawLattice(rng, nLat)
		pool := append([]*big.Int{}, lat...)
		for i := 0; i < nRnd; i++ {
			pool = append(pool, rng.Below(f.Q))
		}
		// relation-driven partners: q - x (raw complement) and raw of 1/x, -x
		core := pool[:min(len(pool), 10)]
		cnt := 0
		for _, a := range core {
			for _, b := range core {
				m.battery(a, b, cnt%7 == 0)
				cnt++
			}
		}
		// operands that drive the Montgomery reduction factor m of the first round to chosen words (all ones, the words
		// that make lo(m*q[j]) all ones, ...): the carries of the word-level multiplication that random operands meet with
		// probability 2^-64. With the raw operand 1, m = y[0] * (-1/q[0]), so y[0] = -T*q[0] gives m = T.
		for _, pr := range montCarryPairs(f, rng) {
			m.battery(pr[0], pr[1], false)
			m.battery(pr[1], pr[0], false)
		}
		for cnt < nPairs {
			a := pool[rng.Intn(len(pool))]
			var b *big.Int
			switch rng.Intn(4) {
			case 0:
				b = new(big.Int).Sub(f.Q, a) // a + b = q exactly (t = q after add)
				if b.Cmp(f.Q) >= 0 {
					b = big.NewInt(0)
				}
			case 1:
				b = new(big.Int).Set(a)
			default:
				b = pool[rng.Intn(len(pool))]
			}
			m.battery(a, b, cnt%5 == 0)
			cnt++
		}
		for i := 0; i < nProg; i++ {
			m.program(pool, 12)
		}
		// square roots: elements of every 2-adic order (Tonelli-Shanks takes a different number of
		// rounds for each), built with math/big: q-1 = 2^s t, z = g^t for a non-residue g has order 2^s
		m.twoAdicSqrts()
		m.vectors(pool, lens)
		for i := 0; i < 20; i++ {
			m.step("SetRandom", 0, nil, nil)
		}
		total += t.Close()
	}
	fmt.Printf("c01: %d events, %d fields\n", total, len(names))
}
