package main

// X01 (extension beyond the listed properties): the Starknet Pedersen hash of ecc/stark-curve/pedersen-hash.
// Every call of Pedersen / PedersenArray is logged with its operands and reply (raw limbs) and judged by
// spec/X01_starkpedersen/TracePedersenHash (definition over the textbook group law). Inputs: the nibble and byte
// boundaries of the table look-ups (0, 1, 15, 16, 2^4k +- 1, 2^248 - 1, 2^248, 2^251, p - 1), operands that make
// partial sums meet (a = b, small multiples), seeded random ones, arrays of 0..4 elements.

import (
	"flag"
	"fmt"
	"math/big"
	"reflect"

	sfp "github.com/consensys/gnark-crypto/ecc/stark-curve/fp"
	pedersenhash "github.com/consensys/gnark-crypto/ecc/stark-curve/pedersen-hash"
)

func init() { register("x01", runX01) }

func runX01(args []string) {
	fs := flag.NewFlagSet("x01", flag.ExitOnError)
	out := fs.String("out", ".", "output directory")
	seed := fs.Uint64("seed", 1, "seed")
	tier := fs.String("tier", "quick", "quick|thorough")
	fs.Parse(args)
	f := fields["stark-curve/fp"]
	r := newRng(*seed*6089 + 17)
	t := newTrace(*out, "x01_starkpedersen", Ev{"property": "X01", "seed": int(*seed % (1 << 30))})
	raw := func(e *sfp.Element) []int { return digits(f.Raw(reflect.ValueOf(e))) }
	mk := func(v *big.Int) *sfp.Element {
		e := new(sfp.Element)
		f.SetRaw(reflect.ValueOf(e), f.ToMont(new(big.Int).Mod(v, f.Q)))
		return e
	}
	pow := func(k uint) *big.Int { return new(big.Int).Lsh(big.NewInt(1), k) }
	var vals []*big.Int
	for _, v := range []int64{0, 1, 2, 15, 16, 17, 255, 256} {
		vals = append(vals, big.NewInt(v))
	}
	for _, k := range []uint{4, 8, 60, 64, 124, 128, 244, 247, 248, 249, 251} {
		vals = append(vals, pow(k), new(big.Int).Sub(pow(k), big.NewInt(1)), new(big.Int).Add(pow(k), big.NewInt(1)))
	}
	vals = append(vals, new(big.Int).Sub(f.Q, big.NewInt(1)), new(big.Int).Sub(f.Q, big.NewInt(2)), new(big.Int).Rsh(f.Q, 1))
	nr := 6
	if *tier == "thorough" {
		nr = 60
	}
	for i := 0; i < nr; i++ {
		vals = append(vals, r.Below(f.Q))
	}
	one := func(av, bv *big.Int) {
		a, b := mk(av), mk(bv)
		e := Ev{"op": "Pedersen", "a": raw(a), "b": raw(b)}
		var res sfp.Element
		_, pm, pk := call(reflect.ValueOf(func() { res = pedersenhash.Pedersen(a, b) }))
		if pk {
			e["panic"] = pm
		} else {
			e["out"] = raw(&res)
			e["aafter"], e["bafter"] = raw(a), raw(b)
		}
		t.Emit(e)
	}
	for i, a := range vals {
		for j, b := range vals {
			// all pairs in the thorough tier; a band around the diagonal plus the first rows / columns otherwise
			if *tier == "thorough" || i < 3 || j < 3 || (i-j)*(i-j) <= 1 || (i+j)%7 == int(*seed%7) {
				one(a, b)
			}
		}
	}
	for n := 0; n <= 4; n++ {
		for rep := 0; rep < 3; rep++ {
			es := make([]*sfp.Element, n)
			var in [][]int
			for i := range es {
				es[i] = mk(vals[r.Intn(len(vals))])
				in = append(in, raw(es[i]))
			}
			if in == nil {
				in = [][]int{}
			}
			e := Ev{"op": "PedersenArray", "es": in}
			var res sfp.Element
			_, pm, pk := call(reflect.ValueOf(func() { res = pedersenhash.PedersenArray(es...) }))
			if pk {
				e["panic"] = pm
			} else {
				e["out"] = raw(&res)
				after := [][]int{}
				for i := range es {
					after = append(after, raw(es[i]))
				}
				e["esafter"] = after
			}
			t.Emit(e)
		}
	}
	fmt.Printf("x01: %d events\n", t.Close())
}
