package main

// C10: registry of the 10 FFT packages (reflect values of their exported API), keyed by the field name
// used in harness/reg_gen.go. Hand-maintained next to c10.go; nothing here computes a value.

import (
	"reflect"

	fft_bls12377_fr "github.com/consensys/gnark-crypto/ecc/bls12-377/fr/fft"
	fft_bls12381_fr "github.com/consensys/gnark-crypto/ecc/bls12-381/fr/fft"
	fft_bls24315_fr "github.com/consensys/gnark-crypto/ecc/bls24-315/fr/fft"
	fft_bls24317_fr "github.com/consensys/gnark-crypto/ecc/bls24-317/fr/fft"
	fft_bn254_fr "github.com/consensys/gnark-crypto/ecc/bn254/fr/fft"
	fft_bw6633_fr "github.com/consensys/gnark-crypto/ecc/bw6-633/fr/fft"
	fft_bw6761_fr "github.com/consensys/gnark-crypto/ecc/bw6-761/fr/fft"
	fft_babybear "github.com/consensys/gnark-crypto/field/babybear/fft"
	fft_goldilocks "github.com/consensys/gnark-crypto/field/goldilocks/fft"
	fft_koalabear "github.com/consensys/gnark-crypto/field/koalabear/fft"
)

type c10Pkg struct {
	Field             string
	DomainT           reflect.Type
	NewDomain         reflect.Value
	BitReverse        reflect.Value
	WithShift         reflect.Value
	WithoutPrecompute reflect.Value
	OnCoset           reflect.Value
	WithNbTasks       reflect.Value
	DIT, DIF          reflect.Value
}

var c10Pkgs = map[string]*c10Pkg{}
var c10Names []string

func c10Register(p *c10Pkg) {
	c10Pkgs[p.Field] = p
	c10Names = append(c10Names, p.Field)
}

func init() {
	c10Register(&c10Pkg{Field: "bls12-377/fr", DomainT: reflect.TypeOf(fft_bls12377_fr.Domain{}), NewDomain: reflect.ValueOf(fft_bls12377_fr.NewDomain), BitReverse: reflect.ValueOf(fft_bls12377_fr.BitReverse),
		WithShift: reflect.ValueOf(fft_bls12377_fr.WithShift), WithoutPrecompute: reflect.ValueOf(fft_bls12377_fr.WithoutPrecompute), OnCoset: reflect.ValueOf(fft_bls12377_fr.OnCoset), WithNbTasks: reflect.ValueOf(fft_bls12377_fr.WithNbTasks),
		DIT: reflect.ValueOf(fft_bls12377_fr.DIT), DIF: reflect.ValueOf(fft_bls12377_fr.DIF)})
	c10Register(&c10Pkg{Field: "bls12-381/fr", DomainT: reflect.TypeOf(fft_bls12381_fr.Domain{}), NewDomain: reflect.ValueOf(fft_bls12381_fr.NewDomain), BitReverse: reflect.ValueOf(fft_bls12381_fr.BitReverse),
		WithShift: reflect.ValueOf(fft_bls12381_fr.WithShift), WithoutPrecompute: reflect.ValueOf(fft_bls12381_fr.WithoutPrecompute), OnCoset: reflect.ValueOf(fft_bls12381_fr.OnCoset), WithNbTasks: reflect.ValueOf(fft_bls12381_fr.WithNbTasks),
		DIT: reflect.ValueOf(fft_bls12381_fr.DIT), DIF: reflect.ValueOf(fft_bls12381_fr.DIF)})
	c10Register(&c10Pkg{Field: "bls24-315/fr", DomainT: reflect.TypeOf(fft_bls24315_fr.Domain{}), NewDomain: reflect.ValueOf(fft_bls24315_fr.NewDomain), BitReverse: reflect.ValueOf(fft_bls24315_fr.BitReverse),
		WithShift: reflect.ValueOf(fft_bls24315_fr.WithShift), WithoutPrecompute: reflect.ValueOf(fft_bls24315_fr.WithoutPrecompute), OnCoset: reflect.ValueOf(fft_bls24315_fr.OnCoset), WithNbTasks: reflect.ValueOf(fft_bls24315_fr.WithNbTasks),
		DIT: reflect.ValueOf(fft_bls24315_fr.DIT), DIF: reflect.ValueOf(fft_bls24315_fr.DIF)})
	c10Register(&c10Pkg{Field: "bls24-317/fr", DomainT: reflect.TypeOf(fft_bls24317_fr.Domain{}), NewDomain: reflect.ValueOf(fft_bls24317_fr.NewDomain), BitReverse: reflect.ValueOf(fft_bls24317_fr.BitReverse),
		WithShift: reflect.ValueOf(fft_bls24317_fr.WithShift), WithoutPrecompute: reflect.ValueOf(fft_bls24317_fr.WithoutPrecompute), OnCoset: reflect.ValueOf(fft_bls24317_fr.OnCoset), WithNbTasks: reflect.ValueOf(fft_bls24317_fr.WithNbTasks),
		DIT: reflect.ValueOf(fft_bls24317_fr.DIT), DIF: reflect.ValueOf(fft_bls24317_fr.DIF)})
	c10Register(&c10Pkg{Field: "bn254/fr", DomainT: reflect.TypeOf(fft_bn254_fr.Domain{}), NewDomain: reflect.ValueOf(fft_bn254_fr.NewDomain), BitReverse: reflect.ValueOf(fft_bn254_fr.BitReverse),
		WithShift: reflect.ValueOf(fft_bn254_fr.WithShift), WithoutPrecompute: reflect.ValueOf(fft_bn254_fr.WithoutPrecompute), OnCoset: reflect.ValueOf(fft_bn254_fr.OnCoset), WithNbTasks: reflect.ValueOf(fft_bn254_fr.WithNbTasks),
		DIT: reflect.ValueOf(fft_bn254_fr.DIT), DIF: reflect.ValueOf(fft_bn254_fr.DIF)})
	c10Register(&c10Pkg{Field: "bw6-633/fr", DomainT: reflect.TypeOf(fft_bw6633_fr.Domain{}), NewDomain: reflect.ValueOf(fft_bw6633_fr.NewDomain), BitReverse: reflect.ValueOf(fft_bw6633_fr.BitReverse),
		WithShift: reflect.ValueOf(fft_bw6633_fr.WithShift), WithoutPrecompute: reflect.ValueOf(fft_bw6633_fr.WithoutPrecompute), OnCoset: reflect.ValueOf(fft_bw6633_fr.OnCoset), WithNbTasks: reflect.ValueOf(fft_bw6633_fr.WithNbTasks),
		DIT: reflect.ValueOf(fft_bw6633_fr.DIT), DIF: reflect.ValueOf(fft_bw6633_fr.DIF)})
	c10Register(&c10Pkg{Field: "bw6-761/fr", DomainT: reflect.TypeOf(fft_bw6761_fr.Domain{}), NewDomain: reflect.ValueOf(fft_bw6761_fr.NewDomain), BitReverse: reflect.ValueOf(fft_bw6761_fr.BitReverse),
		WithShift: reflect.ValueOf(fft_bw6761_fr.WithShift), WithoutPrecompute: reflect.ValueOf(fft_bw6761_fr.WithoutPrecompute), OnCoset: reflect.ValueOf(fft_bw6761_fr.OnCoset), WithNbTasks: reflect.ValueOf(fft_bw6761_fr.WithNbTasks),
		DIT: reflect.ValueOf(fft_bw6761_fr.DIT), DIF: reflect.ValueOf(fft_bw6761_fr.DIF)})
	c10Register(&c10Pkg{Field: "koalabear", DomainT: reflect.TypeOf(fft_koalabear.Domain{}), NewDomain: reflect.ValueOf(fft_koalabear.NewDomain), BitReverse: reflect.ValueOf(fft_koalabear.BitReverse),
		WithShift: reflect.ValueOf(fft_koalabear.WithShift), WithoutPrecompute: reflect.ValueOf(fft_koalabear.WithoutPrecompute), OnCoset: reflect.ValueOf(fft_koalabear.OnCoset), WithNbTasks: reflect.ValueOf(fft_koalabear.WithNbTasks),
		DIT: reflect.ValueOf(fft_koalabear.DIT), DIF: reflect.ValueOf(fft_koalabear.DIF)})
	c10Register(&c10Pkg{Field: "babybear", DomainT: reflect.TypeOf(fft_babybear.Domain{}), NewDomain: reflect.ValueOf(fft_babybear.NewDomain), BitReverse: reflect.ValueOf(fft_babybear.BitReverse),
		WithShift: reflect.ValueOf(fft_babybear.WithShift), WithoutPrecompute: reflect.ValueOf(fft_babybear.WithoutPrecompute), OnCoset: reflect.ValueOf(fft_babybear.OnCoset), WithNbTasks: reflect.ValueOf(fft_babybear.WithNbTasks),
		DIT: reflect.ValueOf(fft_babybear.DIT), DIF: reflect.ValueOf(fft_babybear.DIF)})
	c10Register(&c10Pkg{Field: "goldilocks", DomainT: reflect.TypeOf(fft_goldilocks.Domain{}), NewDomain: reflect.ValueOf(fft_goldilocks.NewDomain), BitReverse: reflect.ValueOf(fft_goldilocks.BitReverse),
		WithShift: reflect.ValueOf(fft_goldilocks.WithShift), WithoutPrecompute: reflect.ValueOf(fft_goldilocks.WithoutPrecompute), OnCoset: reflect.ValueOf(fft_goldilocks.OnCoset), WithNbTasks: reflect.ValueOf(fft_goldilocks.WithNbTasks),
		DIT: reflect.ValueOf(fft_goldilocks.DIT), DIF: reflect.ValueOf(fft_goldilocks.DIF)})
}
