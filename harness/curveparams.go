package main

// `harness curvegens` prints spec/params/CurveGens.tla: the generators of every group as abstract
// (non-Montgomery) values. Run ONCE on the pinned tree, output committed and frozen; validated by
// spec/params/ParamsCheck (on curve for the DOCUMENTED coefficients, killed by r, r and q prime).

import (
	"fmt"
	"math/big"
	"reflect"
	"strings"
)

func init() { register("curvegens", runCurveGens) }

// tlaVal renders a coordinate (field element / tower element) as nested TLA+ tuples of values.
func tlaVal(f *Field, v reflect.Value) string {
	for v.Kind() == reflect.Ptr {
		v = v.Elem()
	}
	if isElem(v.Type()) {
		raw := rawOfElem(v)
		x := new(big.Int).Mul(raw, f.Rinv)
		x.Mod(x, f.Q)
		return tlaDigits(digits(x))
	}
	parts := make([]string, v.NumField())
	for i := range parts {
		parts[i] = tlaVal(f, v.Field(i))
	}
	return "<<" + strings.Join(parts, ", ") + ">>"
}

func runCurveGens(args []string) {
	fmt.Println("----------------------------- MODULE CurveGens -----------------------------")
	fmt.Println("(* Frozen generators of G1/G2 (abstract values, nested tuples for tower coordinates). *)")
	fmt.Println("(* Generated once by `harness curvegens`; validated by ParamsCheck.                   *)")
	fmt.Println("GenP(name) ==")
	fmt.Println("  CASE")
	for i, n := range curveNames {
		c := curves[n]
		sep := "  [] "
		if i == 0 {
			sep = "     "
		}
		g1 := c.Group("G1")
		s := fmt.Sprintf("%sname = \"%s\" -> [g1 |-> [x |-> %s, y |-> %s]", sep, n, tlaVal(c.Fp, g1.GenAff.Elem().Field(0)), tlaVal(c.Fp, g1.GenAff.Elem().Field(1)))
		if c.HasG2() {
			g2 := c.Group("G2")
			s += fmt.Sprintf(",\n        g2 |-> [x |-> %s, y |-> %s]", tlaVal(c.Fp, g2.GenAff.Elem().Field(0)), tlaVal(c.Fp, g2.GenAff.Elem().Field(1)))
		}
		fmt.Println(s + "]")
	}
	fmt.Println("=============================================================================")
}
