package main

// C15 driver: call histories on the real fiatshamir.Transcript.
//
// The transcript is given a recording hash.Hash (c15Rec) that delegates to the real SHA-256 /
// MiMC and records every Reset / Write / Sum, so a ComputeChallenge event carries the exact byte
// strings the transcript fed to the hash and the digest it got back. After every event the
// private fields of the object are read by reflection ("st"). Caller-side events (overwriting a
// slice that was passed to Bind, overwriting a returned challenge, using the hash object between
// calls) are explicit events. Nothing is judged here: spec/C15_transcript/TraceTranscript.tla is
// the judge.
//
// Histories: (i) exhaustive - every word of length D over the alphabet of the model
// MCTranscript (Bind(name|unknown, 2 values), Compute(name|unknown), MutBound, MutRet) for
// 1..4 names, each followed by a drain that computes every challenge in order; (ii) directed
// edge cases; (iii) seeded random long histories with random names, value lengths and aliasing
// patterns.

import (
	"crypto/sha256"
	"flag"
	"fmt"
	"hash"
	"reflect"
	"sort"
	"strings"

	mimcbn254 "github.com/consensys/gnark-crypto/ecc/bn254/fr/mimc"
	mimcbw6761 "github.com/consensys/gnark-crypto/ecc/bw6-761/fr/mimc"
	fiatshamir "github.com/consensys/gnark-crypto/fiat-shamir"
)

// ---------------------------------------------------------------------------------------
// recording hash

type c15Rec struct {
	inner hash.Hash
	cur   [][]byte // successful writes since the last Reset
	ops   []Ev     // operations since the harness last cleared it
}

// hashPanic records a panic of the real hash (op "X") and lets it continue to the caller.
func (r *c15Rec) hashPanic(in string, extra Ev) {
	if x := recover(); x != nil {
		msg := strings.SplitN(fmt.Sprint(x), "\n", 2)[0]
		if len(msg) > 120 {
			msg = msg[:120]
		}
		if extra != nil {
			r.ops = append(r.ops, extra)
		}
		r.ops = append(r.ops, Ev{"k": "X", "in": in, "msg": msg})
		panic(x)
	}
}

func (r *c15Rec) Write(p []byte) (n int, err error) {
	b := append([]byte{}, p...)
	defer r.hashPanic("Write", Ev{"k": "W", "b": bytesToInts(b), "ok": false})
	n, err = r.inner.Write(p)
	if err == nil {
		r.cur = append(r.cur, b)
	}
	r.ops = append(r.ops, Ev{"k": "W", "b": bytesToInts(b), "ok": err == nil})
	return n, err
}

func (r *c15Rec) Sum(b []byte) []byte {
	defer r.hashPanic("Sum", nil)
	out := r.inner.Sum(b)
	pre := make([][]int, len(r.cur))
	for i := range r.cur {
		pre[i] = bytesToInts(r.cur[i])
	}
	r.ops = append(r.ops, Ev{"k": "S", "pre": pre, "d": bytesToInts(out[len(b):])})
	return out
}

func (r *c15Rec) Reset() {
	defer r.hashPanic("Reset", nil)
	r.inner.Reset()
	r.cur = r.cur[:0]
	r.ops = append(r.ops, Ev{"k": "R"})
}
func (r *c15Rec) Size() int      { return r.inner.Size() }
func (r *c15Rec) BlockSize() int { return r.inner.BlockSize() }

type c15Hash struct {
	name string // header "hash"
	kind string // header "hk": sha256 (streaming, known to the spec) | mimc (block padded, uninterpreted)
	bs   int    // block size of MiMC (bytes of a field element), 0 for sha256
	mk   func() hash.Hash
}

var c15Hashes = []c15Hash{
	{"sha256", "sha256", 0, func() hash.Hash { return sha256.New() }},
	{"mimc_bn254", "mimc", mimcbn254.BlockSize, func() hash.Hash { return mimcbn254.NewMiMC() }},
	{"mimc_bw6-761", "mimc", mimcbw6761.BlockSize, func() hash.Hash { return mimcbw6761.NewMiMC() }},
}

// ---------------------------------------------------------------------------------------
// reading the private state (reflection only reads; a changed layout disables it)

func c15Snapshot(t *fiatshamir.Transcript) (st Ev, ok bool) {
	defer func() {
		if r := recover(); r != nil {
			st, ok = nil, false
		}
	}()
	v := reflect.ValueOf(t).Elem()
	m := v.FieldByName("challenges")
	type ch struct {
		pos int
		e   Ev
	}
	var chs []ch
	it := m.MapRange()
	for it.Next() {
		c := it.Value()
		bs := c.FieldByName("bindings")
		b := make([][]int, bs.Len())
		for j := range b {
			b[j] = bytesToInts(bs.Index(j).Bytes())
		}
		chs = append(chs, ch{int(c.FieldByName("position").Int()), Ev{
			"nm": bytesToInts([]byte(it.Key().String())),
			"b":  b,
			"c":  c.FieldByName("isComputed").Bool(),
			"v":  bytesToInts(c.FieldByName("value").Bytes()),
		}})
	}
	sort.Slice(chs, func(i, j int) bool { return chs[i].pos < chs[j].pos })
	list := make([]Ev, len(chs))
	for i := range chs {
		list[i] = chs[i].e
	}
	st = Ev{"ch": list, "prev": 0}
	p := v.FieldByName("previous")
	if !p.IsNil() {
		st["prev"] = int(p.Elem().FieldByName("position").Int()) + 1
		st["pv"] = bytesToInts(p.Elem().FieldByName("value").Bytes())
	}
	return st, true
}

// ---------------------------------------------------------------------------------------
// one scenario = one transcript object

type c15Ret struct {
	b   []byte
	nth int // 1 = slice returned by the first successful ComputeChallenge(name) of the scenario, 2.. = by a later one
}

type c15Scn struct {
	w          *TraceWriter
	h          c15Hash
	introspect bool
	sc         int
	t          *fiatshamir.Transcript
	rec        *c15Rec
	bound      [][]byte // slices the caller passed to Bind
	rets       []c15Ret // slices the caller got from ComputeChallenge
	ncomp      map[string]int
	t11        bool // the caller has overwritten a non-empty slice returned by a repeated ComputeChallenge
}

func c15Do(f func()) (msg string, panicked bool) {
	defer func() {
		if r := recover(); r != nil {
			panicked = true
			msg = strings.SplitN(fmt.Sprint(r), "\n", 2)[0]
			if len(msg) > 120 {
				msg = msg[:120]
			}
		}
	}()
	f()
	return
}

func (s *c15Scn) emit(e Ev) {
	e["sc"] = s.sc
	if s.t11 {
		e["t11"] = true
	}
	if s.introspect && s.t != nil {
		if st, ok := c15Snapshot(s.t); ok {
			e["st"] = st
		}
	}
	s.w.Emit(e)
}

func c15Names(names []string) [][]int {
	out := make([][]int, len(names))
	for i, n := range names {
		out[i] = bytesToInts([]byte(n))
	}
	return out
}

func (s *c15Scn) start(names ...string) {
	s.sc++
	s.rec = &c15Rec{inner: s.h.mk(), ops: []Ev{}}
	s.bound, s.rets, s.ncomp, s.t11, s.t = nil, nil, map[string]int{}, false, nil
	e := Ev{"op": "New", "names": c15Names(names)}
	if msg, pk := c15Do(func() { s.t = fiatshamir.NewTranscript(s.rec, names...) }); pk {
		e["panic"] = msg
	}
	s.emit(e)
}

func (s *c15Scn) bind(name string, v []byte) {
	e := Ev{"op": "Bind", "name": bytesToInts([]byte(name)), "val": bytesToInts(v)}
	if v == nil {
		e["nil"] = true
	}
	var err error
	msg, pk := c15Do(func() { err = s.t.Bind(name, v) })
	e["valafter"] = bytesToInts(v)
	if pk {
		e["panic"] = msg
	} else if err != nil {
		e["err"] = err.Error()
	}
	s.bound = append(s.bound, v)
	s.emit(e)
}

func (s *c15Scn) compute(name string) {
	e := Ev{"op": "Compute", "name": bytesToInts([]byte(name))}
	s.rec.ops = []Ev{}
	var ret []byte
	var err error
	msg, pk := c15Do(func() { ret, err = s.t.ComputeChallenge(name) })
	e["hops"] = s.rec.ops
	s.rec.ops = []Ev{}
	if pk {
		e["panic"] = msg
	} else if err != nil {
		e["err"] = err.Error()
	} else {
		e["ret"] = bytesToInts(ret)
		s.ncomp[name]++
		e["nth"] = s.ncomp[name]
		s.rets = append(s.rets, c15Ret{ret, s.ncomp[name]})
	}
	s.emit(e)
}

func c15Flip(b []byte) {
	for i := range b {
		b[i] ^= byte(0x5A + i)
		if i%3 == 0 {
			b[i]++
		}
	}
}

// mutBound overwrites the k-th slice passed to Bind (k < 0: all of them).
func (s *c15Scn) mutBound(k int) {
	e := Ev{"op": "MutBound"}
	if k >= len(s.bound) {
		return // nothing to overwrite (the driver never assumes that a call succeeded)
	}
	if k < 0 {
		for _, b := range s.bound {
			c15Flip(b)
		}
		e["all"] = len(s.bound)
	} else {
		c15Flip(s.bound[k])
		e["i"], e["now"] = k, bytesToInts(s.bound[k])
	}
	s.emit(e)
}

// mutRet overwrites the k-th slice returned by ComputeChallenge (k < 0: all of them).
func (s *c15Scn) mutRet(k int) {
	e := Ev{"op": "MutRet"}
	if k >= len(s.rets) {
		return
	}
	hit := func(r c15Ret) {
		c15Flip(r.b)
		if r.nth >= 2 && len(r.b) > 0 {
			s.t11 = true
		}
	}
	if k < 0 {
		for _, r := range s.rets {
			hit(r)
		}
		e["all"] = len(s.rets)
	} else {
		hit(s.rets[k])
		e["i"], e["nth"], e["now"] = k, s.rets[k].nth, bytesToInts(s.rets[k].b)
	}
	s.emit(e)
}

// pollute: the caller writes into the hash object it handed to the transcript.
func (s *c15Scn) pollute(b []byte) {
	var err error
	_, pk := c15Do(func() { _, err = s.rec.Write(b) })
	s.rec.ops = []Ev{}
	s.emit(Ev{"op": "Pollute", "b": bytesToInts(b), "ok": err == nil && !pk})
}

func (s *c15Scn) drain(names []string) {
	for _, n := range names {
		s.compute(n)
	}
}

// ---------------------------------------------------------------------------------------
// trace files: split at scenario boundaries

type c15Out struct {
	dir, gen     string
	h            c15Hash
	seed         uint64
	introspect   bool
	perFile      int
	part, total  int
	nfiles, nscn int
	s            *c15Scn
}

func (o *c15Out) scn() *c15Scn {
	if o.s == nil || o.s.w.n >= o.perFile {
		sc := 0
		if o.s != nil {
			sc = o.s.sc
			o.total += o.s.w.Close()
		}
		o.part++
		o.nfiles++
		w := newTrace(o.dir, fmt.Sprintf("c15_%s_%s_%03d", o.h.name, o.gen, o.part),
			Ev{"property": "C15", "hash": o.h.name, "hk": o.h.kind, "bs": o.h.bs, "gen": o.gen,
				"seed": int(o.seed % (1 << 30)), "introspect": o.introspect})
		o.s = &c15Scn{w: w, h: o.h, introspect: o.introspect, sc: sc}
	}
	o.nscn++
	return o.s
}

func (o *c15Out) close() {
	if o.s != nil {
		o.total += o.s.w.Close()
		o.s = nil
	}
}

// ---------------------------------------------------------------------------------------
// (i) exhaustive histories over the alphabet of MCTranscript

var c15ExhNames = []string{"a", "b", "c", "d"}

func c15Exhaustive(o *c15Out, n, depth int) {
	names := c15ExhNames[:n]
	all := append(append([]string{}, names...), "u") // "u" was not declared
	v1, v2 := []byte("x"), []byte("yz")
	if o.h.kind == "mimc" { // a short value (padded by MiMC) and a full block below the modulus
		v2 = make([]byte, o.h.bs)
		for i := 1; i < len(v2); i++ {
			v2[i] = byte(7*i + 1)
		}
	}
	nl := 3*(n+1) + 2
	word := make([]int, depth)
	for {
		s := o.scn()
		s.start(names...)
		for _, c := range word {
			switch {
			case c < 2*(n+1):
				v := v1
				if c%2 == 1 {
					v = v2
				}
				s.bind(all[c/2], append([]byte{}, v...))
			case c < 3*(n+1):
				s.compute(all[c-2*(n+1)])
			case c == 3*(n+1):
				s.mutBound(-1)
			default:
				s.mutRet(-1)
			}
		}
		s.drain(names)
		i := depth - 1
		for ; i >= 0; i-- {
			word[i]++
			if word[i] < nl {
				break
			}
			word[i] = 0
		}
		if i < 0 {
			return
		}
	}
}

// ---------------------------------------------------------------------------------------
// (ii) directed edge cases

// c15Val returns a value of the given length that the hash accepts (MiMC: every full block
// is below the modulus because its top byte is 0; lengths above one block must be multiples).
func c15Val(r *Rng, h c15Hash, n int) []byte {
	b := r.Bytes(n)
	if h.kind == "mimc" {
		for i := 0; i+h.bs <= n; i += h.bs {
			b[i] = 0
		}
	}
	return b
}

func c15Edge(o *c15Out, r *Rng) {
	h := o.h
	bs := h.bs
	if bs == 0 {
		bs = 32
	}
	lens := []int{0, 1, 2, bs - 1, bs, 2 * bs, 3 * bs}
	if h.kind == "sha256" {
		lens = append(lens, 31, 33, 55, 56, 63, 64, 65, 119, 120, 200)
	}
	// 1. the documented flow for every number of names, values of every length class, recompute twice
	for n := 0; n <= 4; n++ {
		names := c15ExhNames[:n]
		s := o.scn()
		s.start(names...)
		for _, nm := range names {
			for _, l := range lens {
				s.bind(nm, c15Val(r, h, l))
			}
			s.bind(nm, nil)
		}
		s.bind("u", []byte{1})
		s.compute("u")
		s.drain(names)
		s.drain(names)
		for i := len(names) - 1; i >= 0; i-- {
			s.compute(names[i])
			s.bind(names[i], []byte{9})
		}
		s.mutBound(-1)
		s.mutRet(-1) // includes slices from repeated calls
		s.drain(names)
	}
	// 2. first returns only: overwrite each returned challenge before the next one is computed
	{
		names := c15ExhNames
		s := o.scn()
		s.start(names...)
		for i, nm := range names {
			s.bind(nm, c15Val(r, h, 5))
			s.compute(nm)
			s.mutRet(len(s.rets) - 1)
			s.mutBound(i)
		}
		s.drain(names)
	}
	// 3. order: every permutation of computing three challenges, with bindings in between
	perms := [][]int{{0, 1, 2}, {0, 2, 1}, {1, 0, 2}, {1, 2, 0}, {2, 0, 1}, {2, 1, 0}}
	for _, p := range perms {
		names := c15ExhNames[:3]
		s := o.scn()
		s.start(names...)
		for _, i := range p {
			s.bind(names[i], c15Val(r, h, 3))
			s.compute(names[i])
			s.bind(names[i], c15Val(r, h, 4))
		}
		s.drain(names)
	}
	// 4. names: empty, prefixes of each other, differing in case, non UTF-8, long
	nameSets := [][]string{
		{""}, {"", "a"}, {"a", ""}, {"a", "ab", "abc"}, {"abc", "ab", "a"}, {"alpha", "Alpha", "alpha "},
		{"\xff\xfe", "\x00", "\x00\x00"}, {"gamma", "beta", "alpha"},
		{strings.Repeat("n", bs-1), strings.Repeat("n", bs)[1:] + "m"},
	}
	if h.kind == "sha256" {
		nameSets = append(nameSets, []string{strings.Repeat("long", 40), strings.Repeat("long", 40) + "x"})
	}
	for _, names := range nameSets {
		s := o.scn()
		s.start(names...)
		for _, nm := range names {
			s.bind(nm, c15Val(r, h, 2))
			s.bind(nm+"x", c15Val(r, h, 2))
			s.compute(nm + "\x00")
		}
		s.drain(names)
		s.drain(names)
	}
	// 5. the caller uses the hash object between calls
	{
		names := c15ExhNames[:3]
		s := o.scn()
		s.start(names...)
		s.pollute([]byte("junk"))
		s.bind("a", c15Val(r, h, 1))
		s.pollute([]byte{1, 2, 3})
		s.compute("b") // refused
		s.pollute([]byte{4})
		s.compute("a")
		s.pollute([]byte{5})
		s.compute("a") // cached
		s.pollute([]byte{6})
		s.compute("u")
		s.compute("b")
		s.drain(names)
	}
	// 6. one slice bound several times and to several challenges, sub-slices with spare capacity
	{
		names := c15ExhNames[:2]
		s := o.scn()
		s.start(names...)
		buf := c15Val(r, h, 3*bs)
		s.bind("a", buf[:bs])
		s.bind("a", buf[:bs])
		s.bind("b", buf[:bs])
		s.bind("b", buf[bs:2*bs:2*bs])
		s.bind("a", buf[:0])
		c15Flip(buf)
		s.emit(Ev{"op": "MutBound", "all": len(s.bound)})
		s.compute("a")
		s.mutBound(0)
		s.compute("b")
		s.drain(names)
	}
	// 7. MiMC refuses some writes: a block that is not below the modulus, a length that is
	// neither short nor a multiple of the block size (value, name)
	if h.kind == "mimc" {
		big := make([]byte, bs)
		for i := range big {
			big[i] = 0xff
		}
		for _, bad := range [][]byte{big, c15Val(r, h, bs+1), append(c15Val(r, h, bs), big...)} {
			names := c15ExhNames[:3]
			s := o.scn()
			s.start(names...)
			s.bind("a", c15Val(r, h, 2))
			s.compute("a")
			s.bind("b", c15Val(r, h, 2))
			s.bind("b", bad)
			s.compute("b") // the hash refuses the second binding
			s.compute("b")
			s.bind("b", c15Val(r, h, 1)) // still bindable
			s.compute("c")               // refused: predecessor not computed
			s.bind("c", c15Val(r, h, 1))
			s.drain(names)
		}
		long := strings.Repeat("q", bs+3)
		s := o.scn()
		s.start("a", long, "c")
		s.bind(long, c15Val(r, h, 1))
		s.drain([]string{"a", long, "c"})
		s.drain([]string{"a", long, "c"})
	}
}

// ---------------------------------------------------------------------------------------
// (iii) seeded random long histories

func c15RandName(r *Rng, h c15Hash) string {
	switch r.Intn(10) {
	case 0:
		return ""
	case 1:
		return string(r.Bytes(1 + r.Intn(8))) // arbitrary bytes
	case 2:
		if h.kind == "mimc" {
			return strings.Repeat("w", h.bs-1)
		}
		return strings.Repeat("w", 30+r.Intn(80))
	default:
		const al = "abcdefgh"
		n := 1 + r.Intn(6)
		b := make([]byte, n)
		for i := range b {
			b[i] = al[r.Intn(len(al))]
		}
		return string(b)
	}
}

func c15RandVal(r *Rng, h c15Hash) []byte {
	if h.kind == "mimc" {
		switch r.Intn(40) {
		case 0: // refused by MiMC: not below the modulus
			b := r.Bytes(h.bs)
			b[0] = 0xff
			return b
		case 1: // refused by MiMC: length
			return r.Bytes(h.bs + 1 + r.Intn(h.bs-1))
		}
		ls := []int{0, 1, 2, 5, h.bs - 1, h.bs, h.bs, 2 * h.bs}
		return c15Val(r, h, ls[r.Intn(len(ls))])
	}
	ls := []int{0, 1, 1, 2, 3, 8, 31, 32, 33, 55, 56, 64, 65, 100}
	return r.Bytes(ls[r.Intn(len(ls))])
}

func c15Random(o *c15Out, r *Rng, nScn, maxLen int) {
	h := o.h
	for k := 0; k < nScn; k++ {
		n := 1 + r.Intn(4)
		var names []string
		seen := map[string]bool{}
		for len(names) < n {
			nm := c15RandName(r, h)
			if !seen[nm] {
				seen[nm] = true
				names = append(names, nm)
			}
		}
		unknown := func() string {
			for {
				nm := c15RandName(r, h)
				if r.Intn(2) == 0 {
					nm = names[r.Intn(n)] + string(rune('a'+r.Intn(3)))
				}
				if !seen[nm] {
					return nm
				}
			}
		}
		s := o.scn()
		s.start(names...)
		risky := r.Intn(7) == 0
		next := 0 // index of the next challenge the driver intends to compute (a hint, not a judgement)
		L := 8 + r.Intn(maxLen-7)
		for i := 0; i < L; i++ {
			switch c := r.Intn(100); {
			case c < 38:
				nm := names[r.Intn(n)]
				if r.Intn(3) > 0 && next < n {
					nm = names[next+r.Intn(n-next)] // mostly still bindable
				}
				v := c15RandVal(r, h)
				switch r.Intn(8) {
				case 0:
					if len(s.bound) > 0 { // the same slice object again
						v = s.bound[r.Intn(len(s.bound))]
					}
				case 1: // sub-slice with spare capacity
					big := append(append([]byte{}, v...), r.Bytes(16)...)
					v = big[:len(v)]
				case 2:
					if len(v) == 0 {
						v = nil
					}
				}
				s.bind(nm, v)
			case c < 44:
				s.bind(unknown(), c15RandVal(r, h))
			case c < 58:
				if next < n {
					s.compute(names[next])
					next++
				} else {
					s.compute(names[r.Intn(n)])
				}
			case c < 72:
				s.compute(names[r.Intn(n)])
			case c < 77:
				s.compute(unknown())
			case c < 85:
				if len(s.bound) > 0 {
					s.mutBound(r.Intn(len(s.bound)))
				}
			case c < 93:
				// slices from first returns; in a "risky" history (1 in 7) also slices that a repeated
				// call returned, so that most histories stay comparable to their end even while a
				// repeated ComputeChallenge still returns the internal slice
				var cand []int
				for j := range s.rets {
					if risky || s.rets[j].nth == 1 {
						cand = append(cand, j)
					}
				}
				if len(cand) > 0 {
					s.mutRet(cand[r.Intn(len(cand))])
				}
			case c < 97:
				s.pollute(c15Val(r, h, 1+r.Intn(4)))
			default:
				if r.Intn(2) == 0 {
					s.mutBound(-1)
				} else if risky {
					s.mutRet(-1)
				} else {
					for j := range s.rets {
						if s.rets[j].nth == 1 {
							s.mutRet(j)
						}
					}
				}
			}
		}
		s.drain(names)
	}
}

// ---------------------------------------------------------------------------------------

func runC15(args []string) {
	fs := flag.NewFlagSet("c15", flag.ExitOnError)
	out := fs.String("out", ".", "output directory")
	seed := fs.Uint64("seed", 1, "seed")
	tier := fs.String("tier", "quick", "quick|thorough")
	perFile := fs.Int("perfile", 12000, "events per trace file (split at scenario boundaries)")
	useSnap := fs.Bool("introspect", true, "read the private state by reflection after every event")
	fs.Parse(args)

	// is the private layout still the one c15Snapshot knows?
	_, introspect := c15Snapshot(fiatshamir.NewTranscript(sha256.New(), "probe"))
	introspect = introspect && *useSnap

	// (names, depth) of the exhaustive part per hash kind
	type nd struct{ n, d int }
	exh := map[string][]nd{
		"sha256":       {{1, 4}, {2, 4}, {3, 3}, {4, 3}},
		"mimc_bn254":   {{1, 4}, {2, 3}, {3, 3}, {4, 2}},
		"mimc_bw6-761": {{1, 3}, {2, 3}, {3, 2}},
	}
	nRand, maxLen := 300, 40
	if *tier == "thorough" {
		exh = map[string][]nd{
			"sha256":       {{1, 5}, {2, 5}, {3, 4}, {4, 4}},
			"mimc_bn254":   {{1, 5}, {2, 4}, {3, 3}, {4, 3}},
			"mimc_bw6-761": {{1, 4}, {2, 4}, {3, 3}, {4, 2}},
		}
		nRand, maxLen = 3400, 60
	}
	files, events, scns := 0, 0, 0
	for hi, h := range c15Hashes {
		for _, gen := range []string{"exh", "edge", "rand"} {
			o := &c15Out{dir: *out, gen: gen, h: h, seed: *seed, introspect: introspect, perFile: *perFile}
			r := newRng(*seed*1000003 + uint64(hi)*7919 + uint64(len(gen)))
			switch gen {
			case "exh":
				for _, x := range exh[h.name] {
					c15Exhaustive(o, x.n, x.d)
				}
			case "edge":
				c15Edge(o, r)
			case "rand":
				c15Random(o, r, nRand, maxLen)
			}
			o.close()
			files, events, scns = files+o.nfiles, events+o.total, scns+o.nscn
		}
	}
	fmt.Printf("c15: %d trace files, %d histories, %d events, introspect=%v\n", files, scns, events, introspect)
}

func init() { register("c15", runC15) }
