package main

// X03 (extension beyond the listed properties): Eisenstein integers (field/eisenstein), judged by
// spec/X03_eisenstein/TraceEisenstein.

import (
	"flag"
	"fmt"
	"math/big"
	"reflect"
	"time"

	"github.com/consensys/gnark-crypto/field/eisenstein"
)

func init() { register("x03", runX03) }

func x03call(f func()) ([]reflect.Value, string, bool) { return call(reflect.ValueOf(f)) }

func runX03(args []string) {
	hangs := 0
	fs := flag.NewFlagSet("x03", flag.ExitOnError)
	out := fs.String("out", ".", "output directory")
	seed := fs.Uint64("seed", 1, "seed")
	tier := fs.String("tier", "quick", "quick|thorough")
	fs.Parse(args)
	r := newRng(*seed*7919 + 3)
	t := newTrace(*out, "x03_eisenstein", Ev{"property": "X03", "seed": int(*seed % (1 << 30))})
	mk := func(a0, a1 *big.Int) *eisenstein.ComplexNumber {
		return &eisenstein.ComplexNumber{A0: new(big.Int).Set(a0), A1: new(big.Int).Set(a1)}
	}
	ev := func(z *eisenstein.ComplexNumber) []any {
		a0, a1 := z.A0, z.A1
		if a0 == nil {
			a0 = new(big.Int)
		}
		if a1 == nil {
			a1 = new(big.Int)
		}
		return []any{zint(a0), zint(a1)}
	}
	var vals []*eisenstein.ComplexNumber
	rng := int64(2)
	if *tier == "thorough" {
		rng = 4
	}
	for a := -rng; a <= rng; a++ {
		for b := -rng; b <= rng; b++ {
			vals = append(vals, mk(big.NewInt(a), big.NewInt(b)))
		}
	}
	sgn := func(v *big.Int) *big.Int {
		if r.Intn(2) == 0 {
			return new(big.Int).Neg(v)
		}
		return v
	}
	nb := 8
	if *tier == "thorough" {
		nb = 40
	}
	for i := 0; i < nb; i++ {
		bits := []uint{7, 31, 64, 65, 127, 256, 400}[i%7]
		top := new(big.Int).Lsh(big.NewInt(1), bits)
		vals = append(vals, mk(sgn(r.Below(top)), sgn(r.Below(top))))
	}
	vals = append(vals, mk(new(big.Int).Lsh(big.NewInt(1), 64), big.NewInt(0)), mk(big.NewInt(0), new(big.Int).Lsh(big.NewInt(1), 128)))
	unary := func(op string, x *eisenstein.ComplexNumber) {
		xc := mk(x.A0, x.A1)
		e := Ev{"op": op, "x": ev(x)}
		z := mk(big.NewInt(77), big.NewInt(-5)) // a receiver holding another value
		_, pm, pk := call(reflect.ValueOf(func() {
			switch op {
			case "Neg":
				z.Neg(xc)
			case "Conjugate":
				z.Conjugate(xc)
			case "Set":
				z.Set(xc)
			case "Norm":
				e["n"] = zint(xc.Norm())
			}
		}))
		if pk {
			e["panic"] = pm
		} else {
			if op != "Norm" {
				e["out"] = ev(z)
			}
			e["xafter"] = ev(xc)
		}
		t.Emit(e)
	}
	binary := func(op string, x, y *eisenstein.ComplexNumber) {
		xc, yc := mk(x.A0, x.A1), mk(y.A0, y.A1)
		e := Ev{"op": op, "x": ev(x), "y": ev(y)}
		z := mk(big.NewInt(-9), big.NewInt(13))
		rem := mk(big.NewInt(4), big.NewInt(4))
		var h [3]*eisenstein.ComplexNumber
		var eq bool
		if hangs >= 2 && (op == "HalfGCD" || op == "QuoRem") {
			return // two calls already ran away (each is reported): do not wait for more
		}
		var pm string
		var pk bool
		finished := withWatchdog(60*time.Second, func() {
			_, pm, pk = x03call(func() {
				switch op {
				case "Add":
					z.Add(xc, yc)
				case "Sub":
					z.Sub(xc, yc)
				case "Mul":
					z.Mul(xc, yc)
				case "Equal":
					eq = xc.Equal(yc)
				case "QuoRem":
					z.QuoRem(xc, yc, rem)
				case "HalfGCD":
					h = eisenstein.HalfGCD(xc, yc)
				}
			})
		})
		if !finished {
			hangs++
			e["hang"] = true
		} else if pk {
			e["panic"] = pm
		} else {
			switch op {
			case "Equal":
				e["ret"] = eq
			case "QuoRem":
				e["q"], e["r"] = ev(z), ev(rem)
			case "HalfGCD":
				e["w"], e["v"], e["u"] = ev(h[0]), ev(h[1]), ev(h[2])
			default:
				e["out"] = ev(z)
			}
			e["xafter"], e["yafter"] = ev(xc), ev(yc)
		}
		t.Emit(e)
	}
	for _, x := range vals {
		for _, op := range []string{"Neg", "Conjugate", "Set", "Norm"} {
			unary(op, x)
		}
	}
	for i, x := range vals {
		for j, y := range vals {
			if *tier != "thorough" && i >= 25 && j >= 25 && (i+j)%3 != 0 {
				continue
			}
			for _, op := range []string{"Add", "Sub", "Mul", "Equal", "QuoRem"} {
				binary(op, x, y)
			}
			if x.A0.Sign() != 0 || x.A1.Sign() != 0 {
				binary("HalfGCD", x, y)
			}
		}
	}
	fmt.Printf("x03: %d events\n", t.Close())
}
