package main

// C10 driver: the FFT packages of the 10 FFT-capable fields. One event per public call
// (NewDomain, FFT, FFTInverse, BitReverse, WriteTo, ReadFrom, table accessors), logged at its
// return with raw observations only: Montgomery limbs of every output element, counts, error
// strings, panics. spec/C10_fft/TraceFFT.tla replays the log and judges every reply.
//
// Inputs: (i) enumerated from the model (spec/C10_fft/MCFFTMachine): every log-size, both
// decimations, coset on/off, precompute on/off, default and custom shift, the task counts that
// change the split depth or the chunking, all basis vectors at the small sizes, every reader
// chunking class for ReadFrom; (ii) seeded random vectors, shifts, task counts and chunkings.

import (
	"bytes"
	"flag"
	"fmt"
	"io"
	"math/big"
	"os"
	"path/filepath"
	"reflect"
	"runtime"
	"strings"
	"unsafe"
)

type c10Drv struct {
	f    *Field
	p    *c10Pkg
	t    *TraceWriter
	rng  *Rng
	doms [8]reflect.Value // *Domain
	vecs [4]reflect.Value // []Element
	nslices int // windows handed out by elemSlice (rotates their offset)
	tag  Ev               // extra keys attached to every event (input class markers)
	adic int              // two-adicity (frozen copy of the documented constant, input selection only)
	thin int              // >0: matrix() visits, per task count, 2 of the 4 (dec, coset) pairs (rotating with thin)
}

// two-adicity per field: only used to choose which sizes to ask for (the spec has its own frozen copy)
var c10Adicity = map[string]int{"bls12-377/fr": 47, "bls12-381/fr": 32, "bls24-315/fr": 22, "bls24-317/fr": 60, "bn254/fr": 28,
	"bw6-633/fr": 20, "bw6-761/fr": 46, "koalabear": 24, "babybear": 27, "goldilocks": 32}

func (d *c10Drv) emit(e Ev) {
	for k, v := range d.tag {
		e[k] = v
	}
	d.t.Emit(e)
}

// elemSlice returns a window into a larger array at a rotating offset (a fresh allocation is 64-byte aligned, a window is
// not: vector kernels must not assume alignment) with spare capacity behind it.
func (d *c10Drv) elemSlice(n int) reflect.Value {
	d.nslices++
	off := d.nslices % 4
	return reflect.MakeSlice(reflect.SliceOf(d.f.ElemT), n+off+2, n+off+2).Slice(off, off+n)
}

func (d *c10Drv) vecRaw(v reflect.Value) [][]int {
	out := make([][]int, v.Len())
	for i := range out {
		out[i] = digits(d.f.Raw(v.Index(i).Addr()))
	}
	return out
}

func (d *c10Drv) fieldsOf(dom reflect.Value, e Ev) {
	s := dom.Elem()
	e["card"] = digits(new(big.Int).SetUint64(s.FieldByName("Cardinality").Uint()))
	for _, kv := range [][2]string{{"cinv", "CardinalityInv"}, {"gen", "Generator"}, {"geninv", "GeneratorInv"},
		{"fmg", "FrMultiplicativeGen"}, {"fmginv", "FrMultiplicativeGenInv"}} {
		e[kv[0]] = digits(d.f.Raw(s.FieldByName(kv[1]).Addr()))
	}
}

// newDomain calls NewDomain(m, [WithShift(shift)], [WithoutPrecompute()]); shift is a raw limb value.
func (d *c10Drv) newDomain(id int, m uint64, shift *big.Int, pre bool) bool {
	e := Ev{"op": "NewDomain", "d": id, "m": digits(new(big.Int).SetUint64(m)), "pre": pre}
	args := []reflect.Value{reflect.ValueOf(m)}
	if shift != nil {
		e["shift"] = digits(shift)
		o, _, _ := call(d.p.WithShift, d.f.NewRaw(shift).Elem())
		args = append(args, o[0])
	}
	if !pre {
		o, _, _ := call(d.p.WithoutPrecompute)
		args = append(args, o[0])
	}
	out, pm, pk := call(d.p.NewDomain, args...)
	if pk {
		e["panic"] = pm
		d.doms[id] = reflect.Value{}
	} else {
		d.doms[id] = out[0]
		d.fieldsOf(out[0], e)
	}
	d.emit(e)
	return !pk
}

func (d *c10Drv) load(v int, raws []*big.Int) {
	s := d.elemSlice(len(raws))
	for i, r := range raws {
		d.f.SetRaw(s.Index(i).Addr(), r)
	}
	d.vecs[v] = s
	d.emit(Ev{"op": "Load", "v": v, "vec": c10RawList(raws)})
}

func (d *c10Drv) loadSparse(v, n int, idx []int, raws []*big.Int) {
	s := d.elemSlice(n)
	for k, i := range idx {
		d.f.SetRaw(s.Index(i).Addr(), raws[k])
	}
	d.vecs[v] = s
	d.emit(Ev{"op": "LoadSparse", "v": v, "n": n, "idx": idx, "vals": c10RawList(raws)})
}

func (d *c10Drv) copyVec(dst, src int) {
	n := d.vecs[src].Len()
	s := d.elemSlice(n)
	reflect.Copy(s, d.vecs[src])
	d.vecs[dst] = s
	d.emit(Ev{"op": "Copy", "v": dst, "s": src})
}

const c10NoTasks = -1 << 30 // "WithNbTasks not passed"

// transform calls dom.FFT / dom.FFTInverse (in place on register v) and logs the resulting vector.
func (d *c10Drv) transform(op string, dom, v int, dec string, coset bool, nbt int) {
	e := Ev{"op": op, "d": dom, "v": v, "dec": dec, "coset": coset}
	dv := d.p.DIF
	if dec == "DIT" {
		dv = d.p.DIT
	}
	args := []reflect.Value{d.vecs[v], dv}
	if coset {
		o, _, _ := call(d.p.OnCoset)
		args = append(args, o[0])
	}
	if nbt != c10NoTasks {
		e["nbt"] = nbt
		o, _, _ := call(d.p.WithNbTasks, reflect.ValueOf(nbt))
		args = append(args, o[0])
	}
	_, pm, pk := call(method(d.doms[dom], op), args...)
	if pk {
		e["panic"] = pm
	} else {
		e["out"] = d.vecRaw(d.vecs[v])
	}
	d.emit(e)
}

func (d *c10Drv) bitReverse(v int) {
	e := Ev{"op": "BitReverse", "v": v, "len": d.vecs[v].Len()}
	_, pm, pk := call(d.p.BitReverse, d.vecs[v])
	if pk {
		e["panic"] = pm
	} else {
		e["out"] = d.vecRaw(d.vecs[v])
	}
	d.emit(e)
}

// bitReverseIdx: entry i holds the raw limb value i; BitReverse once or twice; the limb values found
// afterwards are logged at every position (sample == 0) or at `sample` seeded positions.
func (d *c10Drv) bitReverseIdx(logn int, twice bool, sample int) {
	n := 1 << logn
	s := d.elemSlice(n)
	w0 := func(i int) reflect.Value { return s.Index(i).Index(0) }
	if d.f.WBits == 64 && n >= 1<<16 {
		// large slices: write the index into limb 0 of every element directly (reflection costs seconds per 2^24 entries)
		base := unsafe.Slice((*uint64)(s.UnsafePointer()), n*d.f.Limbs)
		for i := 0; i < n; i++ {
			base[i*d.f.Limbs] = uint64(i)
		}
	} else {
		for i := 0; i < n; i++ {
			w0(i).SetUint(uint64(i))
		}
	}
	e := Ev{"op": "BitReverseIdx", "logn": logn, "twice": twice}
	if sample > 0 {
		e["op"] = "BitReverseSample"
	}
	_, pm, pk := call(d.p.BitReverse, s)
	if !pk && twice {
		_, pm, pk = call(d.p.BitReverse, s)
	}
	if pk {
		e["panic"] = pm
	} else if sample == 0 {
		out := make([]int, n)
		for i := range out {
			out[i] = int(w0(i).Uint())
		}
		e["outi"] = out
	} else {
		pos := make([]int, sample)
		got := make([]int, sample)
		for j := range pos {
			switch {
			case j < 64:
				pos[j] = j
			case j < 128:
				pos[j] = n - 1 - (j - 64)
			default:
				pos[j] = d.rng.Intn(n)
			}
			got[j] = int(w0(pos[j]).Uint())
		}
		e["pos"], e["got"] = pos, got
	}
	d.emit(e)
}

func (d *c10Drv) writeTo(dom int) []byte {
	var buf bytes.Buffer
	e := Ev{"op": "WriteTo", "d": dom}
	out, pm, pk := call(method(d.doms[dom], "WriteTo"), reflect.ValueOf(&buf))
	if pk {
		e["panic"] = pm
	} else {
		e["n"] = int(out[0].Int())
		if !out[1].IsNil() {
			e["err"] = out[1].Interface().(error).Error()
		}
		e["bytes"] = bytesToInts(buf.Bytes())
	}
	d.emit(e)
	return buf.Bytes()
}

// c10ChunkReader is a legal io.Reader handing out data in pieces that end at the given positions:
// a Read never crosses the end of the current piece (like a network connection or a pipe).
type c10ChunkReader struct {
	data   []byte
	bounds []int
	pos    int
}

func (r *c10ChunkReader) Read(p []byte) (int, error) {
	if len(p) == 0 {
		return 0, nil
	}
	if r.pos >= len(r.data) {
		return 0, io.EOF
	}
	end := len(r.data)
	for _, b := range r.bounds {
		if b > r.pos && b < end {
			end = b
		}
	}
	n := copy(p, r.data[r.pos:end])
	r.pos += n
	return n, nil
}

// readFrom calls dom.ReadFrom on a fresh (or the current, used) Domain value; returns true when the
// call returned without error or panic (a caller would only then go on using the domain).
func (d *c10Drv) readFrom(id int, stream []byte, bounds []int, fresh bool) bool {
	if fresh || !d.doms[id].IsValid() {
		d.doms[id] = reflect.New(d.p.DomainT)
		fresh = true
	}
	rd := &c10ChunkReader{data: stream, bounds: bounds}
	e := Ev{"op": "ReadFrom", "d": id, "stream": bytesToInts(stream), "bounds": bounds, "fresh": fresh}
	out, pm, pk := call(method(d.doms[id], "ReadFrom"), reflect.ValueOf(rd))
	ok := false
	if pk {
		e["panic"] = pm
	} else {
		e["n"] = int(out[0].Int())
		e["consumed"] = rd.pos
		if !out[1].IsNil() {
			e["err"] = out[1].Interface().(error).Error()
		} else {
			ok = true
		}
		d.fieldsOf(d.doms[id], e)
	}
	d.emit(e)
	return ok
}

func (d *c10Drv) domainFields(id int) {
	e := Ev{"op": "DomainFields", "d": id}
	d.fieldsOf(d.doms[id], e)
	d.emit(e)
}

// tables logs Twiddles(), TwiddlesInv(), CosetTable(), CosetTableInv() (contents, or how many returned an error).
func (d *c10Drv) tables(id int) {
	e := Ev{"op": "Tables", "d": id}
	errs := 0
	for _, kv := range [][2]string{{"tw", "Twiddles"}, {"twinv", "TwiddlesInv"}, {"coset", "CosetTable"}, {"cosetinv", "CosetTableInv"}} {
		out, pm, pk := call(method(d.doms[id], kv[1]))
		if pk {
			e["panic"] = pm
			break
		}
		if !out[1].IsNil() {
			errs++
			continue
		}
		if out[0].Type().Elem().Kind() == reflect.Slice {
			t := make([][][]int, out[0].Len())
			for i := range t {
				t[i] = d.vecRaw(out[0].Index(i))
			}
			e[kv[0]] = t
		} else {
			e[kv[0]] = d.vecRaw(out[0])
		}
	}
	e["errs"] = errs
	d.emit(e)
}

// ---------------------------------------------------------------------------------------
// input construction (math/big only)

func (d *c10Drv) randRaws(n int) []*big.Int {
	out := make([]*big.Int, n)
	for i := range out {
		switch d.rng.Intn(16) {
		case 0:
			out[i] = big.NewInt(0)
		case 1:
			out[i] = new(big.Int).Sub(d.f.Q, big.NewInt(1)) // largest raw value
		default:
			out[i] = d.rng.Below(d.f.Q)
		}
	}
	return out
}

func (d *c10Drv) randNonZeroRaw() *big.Int {
	for {
		x := d.rng.Below(d.f.Q)
		if x.Sign() != 0 {
			return x
		}
	}
}

func c10RawList(xs []*big.Int) [][]int {
	out := make([][]int, len(xs))
	for i, x := range xs {
		out[i] = digits(x)
	}
	return out
}

func c10Other(dec string) string {
	if dec == "DIF" {
		return "DIT"
	}
	return "DIF"
}

var c10Decs = []string{"DIF", "DIT"}
var c10Tasks9 = []int{1, 2, 3, 4, 7, 8, 16, 64, 512}

// matrix runs, on domain register dom and the master vector in register 0, every (dec, coset, nbt):
// FFT and FFTInverse on a copy of the master; with undo, each is followed by the transform that must
// undo it (opposite decimation, same coset option, another task count). both = false keeps only the chain
// FFT -> FFTInverse (which still visits both transforms with every option).
func (d *c10Drv) matrix(dom int, tasks []int, undo bool, both bool) {
	for ti, nbt := range tasks {
		nbt2 := tasks[(ti+1+d.rng.Intn(len(tasks)))%len(tasks)]
		for di, dec := range c10Decs {
			for ci, coset := range []bool{false, true} {
				if d.thin > 0 && (di+ci+ti+d.thin)%2 != 0 {
					continue
				}
				d.copyVec(1, 0)
				d.transform("FFT", dom, 1, dec, coset, nbt)
				if undo {
					d.transform("FFTInverse", dom, 1, c10Other(dec), coset, nbt2)
				}
				if !both {
					continue // the chain above already visits FFTInverse with every (dec, coset, task count)
				}
				d.copyVec(1, 0)
				d.transform("FFTInverse", dom, 1, dec, coset, nbt)
				if undo {
					d.transform("FFT", dom, 1, c10Other(dec), coset, nbt2)
				}
			}
		}
	}
}

// domainsFor creates the (precompute, shift) variants of a domain of size 2^logn in registers 0..3:
// 0: precompute, default shift   1: no precompute, custom shift   2: precompute, custom   3: no precompute, default
func (d *c10Drv) domainsFor(logn int, which []int) {
	for _, id := range which {
		var shift *big.Int
		if id == 1 || id == 2 {
			shift = d.randNonZeroRaw()
		}
		d.newDomain(id, uint64(1)<<uint(logn), shift, id == 0 || id == 2)
	}
}

// scBasis: all basis vectors (random non-zero coefficient) through the option matrix.
func (d *c10Drv) scBasis(logn int, which []int, tasks []int, rotate bool) {
	n := 1 << logn
	d.domainsFor(logn, which)
	all := tasks
	for j := 0; j < n; j++ {
		if rotate {
			tasks = []int{all[j%len(all)]}
		}
		c := d.randNonZeroRaw()
		if j%5 == 0 {
			c = d.f.ToMont(big.NewInt(1))
		}
		d.loadSparse(0, n, []int{j}, []*big.Int{c})
		for _, id := range which {
			d.matrix(id, tasks, false, true)
		}
	}
	for _, id := range which {
		d.domainFields(id)
	}
}

// scDense: seeded random dense vectors (and a few sparse ones) through the option matrix, with undo.
func (d *c10Drv) scDense(logn int, which []int, tasks []int, nvec int, sparse bool, both bool) {
	n := 1 << logn
	d.domainsFor(logn, which)
	for k := 0; k < nvec; k++ {
		d.load(0, d.randRaws(n))
		for _, id := range which {
			d.matrix(id, tasks, true, both)
		}
	}
	if sparse && n >= 4 {
		for _, j := range []int{0, 1, n / 2, n - 1} {
			d.loadSparse(0, n, []int{j}, []*big.Int{d.randNonZeroRaw()})
			for _, id := range which {
				d.matrix(id, []int{tasks[d.rng.Intn(len(tasks))]}, false, true)
			}
		}
	}
	for _, id := range which {
		d.domainFields(id)
	}
}

// scBig: one dense vector at a large size: FFT then the inverse that undoes it, per (task count, dec, coset).
func (d *c10Drv) scBig(logn, id int, tasks []int) {
	d.domainsFor(logn, []int{id})
	d.load(0, d.randRaws(1<<logn))
	for ti, nbt := range tasks {
		for _, dec := range c10Decs {
			for _, coset := range []bool{false, true} {
				d.copyVec(1, 0)
				d.transform("FFT", id, 1, dec, coset, nbt)
				d.transform("FFTInverse", id, 1, c10Other(dec), coset, tasks[(ti+1)%len(tasks)])
			}
		}
	}
	d.domainFields(id)
}

// scTasksSweep: every task count 1..512 (and out-of-range / absent values) on the paths whose chunking
// depends on it.
func (d *c10Drv) scTasksSweep(logn int, which []int, lo, hi int) {
	n := 1 << logn
	d.domainsFor(logn, which)
	d.load(0, d.randRaws(n))
	for _, id := range which {
		for nbt := lo; nbt <= hi; nbt++ {
			dec := c10Decs[nbt%2]
			for _, coset := range []bool{true, false} {
				if !coset && nbt%4 != 0 {
					continue
				}
				d.copyVec(1, 0)
				d.transform("FFT", id, 1, dec, coset, nbt)
				d.transform("FFTInverse", id, 1, c10Other(dec), coset, nbt)
				d.copyVec(1, 0)
				d.transform("FFT", id, 1, c10Other(dec), coset, nbt)
				d.transform("FFTInverse", id, 1, dec, coset, nbt)
			}
		}
	}
}

// scOddTasks: task counts outside 1..512 are clamped, an absent option means NumCPU; the result is the same.
func (d *c10Drv) scOddTasks(logn int) {
	n := 1 << logn
	d.domainsFor(logn, []int{0, 1})
	d.load(0, d.randRaws(n))
	for _, id := range []int{0, 1} {
		for _, nbt := range []int{c10NoTasks, 0, -5, 513, 1 << 20, 5, 6, 9, 15, 17, 31, 33, 100, 255, 256, 257, 511} {
			for _, dec := range c10Decs {
				d.copyVec(1, 0)
				d.transform("FFT", id, 1, dec, true, nbt)
				d.transform("FFTInverse", id, 1, c10Other(dec), true, nbt)
			}
		}
	}
}

// scDomains: NewDomain for every log-size up to the two-adicity (and just above: must panic), sizes
// that are not powers of two, custom shifts; the precomputed tables at the small sizes.
func (d *c10Drv) scDomains(maxPre int) {
	k := d.adic
	for logn := 0; logn <= k; logn++ {
		d.newDomain(0, uint64(1)<<uint(logn), nil, false)
		if logn <= maxPre {
			d.newDomain(1, uint64(1)<<uint(logn), d.randNonZeroRaw(), true)
			if logn <= 5 {
				d.tables(1)
				d.tables(0)
			}
		}
	}
	// beyond the two-adicity no root of unity exists
	for _, m := range []uint64{uint64(1)<<uint(k) + 1, uint64(1) << uint(k+1), uint64(1) << 63, uint64(1)<<63 + 1, ^uint64(0)} {
		d.newDomain(2, m, nil, false)
	}
	// cardinality = next power of two
	for _, m := range []uint64{0, 1, 2, 3, 5, 6, 7, 9, 15, 17, 1000, 1023, 1025, uint64(1)<<uint(k) - 1} {
		d.newDomain(2, m, nil, false)
	}
	for i := 0; i < 4; i++ {
		d.newDomain(2, uint64(d.rng.Intn(1<<12)), d.randNonZeroRaw(), i%2 == 0)
	}
	one := d.f.ToMont(big.NewInt(1))
	d.newDomain(2, 8, one, true)                                                 // shift 1: the coset is the subgroup itself
	d.newDomain(3, 8, d.f.ToMont(new(big.Int).Sub(d.f.Q, big.NewInt(1))), false) // shift -1
	d.load(0, d.randRaws(8))
	d.matrix(2, []int{1, 3}, true, true)
	d.matrix(3, []int{1, 3}, true, true)
}

// scBitReverse: the permutation and its involution on random vectors; lengths that are not powers of two.
func (d *c10Drv) scBitReverse(maxLog int) {
	for logn := 0; logn <= maxLog; logn++ {
		d.load(2, d.randRaws(1<<logn))
		d.bitReverse(2)
		d.bitReverse(2)
	}
	for _, n := range []int{0, 3, 5, 6, 7, 12, 100, 1000} {
		d.load(2, d.randRaws(n))
		d.bitReverse(2)
	}
}

// uniform pieces of size c
func c10Uniform(total, c int) []int {
	var b []int
	for p := c; p < total; p += c {
		b = append(b, p)
	}
	return append(b, total)
}

// scSerialize: WriteTo, then ReadFrom through readers with every class of chunking, into fresh and used
// domains; the deserialised domain is then used (FFT round trip on the coset, WriteTo again).
func (d *c10Drv) scSerialize(full bool, nRandom int) {
	B := d.f.Limbs * d.f.WBits / 8
	SL := 8 + 5*B + 1
	use := func(id int) {
		n := int(d.doms[id].Elem().FieldByName("Cardinality").Uint())
		if n > 64 {
			return
		}
		d.load(0, d.randRaws(n))
		for _, dec := range c10Decs {
			d.copyVec(1, 0)
			d.transform("FFT", id, 1, dec, true, 3)
			d.transform("FFTInverse", id, 1, c10Other(dec), true, 2)
		}
		d.writeTo(id)
		d.domainFields(id)
		d.tables(id)
	}
	// an element is cut by a piece boundary: the input class of candidate defect F15
	cuts := func(bounds []int) bool {
		for _, b := range bounds {
			if b > 8 && b < 8+5*B && (b-8)%B != 0 {
				return true
			}
		}
		return false
	}
	read := func(id int, stream []byte, bounds []int, fresh bool, follow bool) {
		if cuts(bounds) {
			d.tag = Ev{"cutselem": true}
		}
		if d.readFrom(id, stream, bounds, fresh) && follow && d.tag == nil {
			use(id)
		}
		d.tag = nil
	}
	type dspec struct {
		logn  int
		pre   bool
		shift bool
	}
	specs := []dspec{{3, true, false}, {5, false, true}, {0, true, true}, {4, false, false}, {6, true, true}}
	for si, s := range specs {
		var shift *big.Int
		if s.shift {
			shift = d.randNonZeroRaw()
		}
		d.newDomain(4, uint64(1)<<uint(s.logn), shift, s.pre)
		stream := d.writeTo(4)
		if len(stream) != SL {
			continue // the WriteTo event is rejected by the spec; nothing sensible to read back
		}
		// one piece, into a fresh domain and into a used one (a domain of another size and the opposite precompute mode)
		read(5, stream, []int{SL}, true, true)
		d.newDomain(5, uint64(1)<<uint((s.logn+2)%7), nil, !s.pre)
		read(5, stream, []int{SL}, false, true)
		// ... and into a used domain of the SAME size and precompute mode but with the other coset shift: tables that are
		// not serialised must be rebuilt from what was read, not kept
		var other *big.Int
		if !s.shift {
			other = d.randNonZeroRaw()
		}
		d.newDomain(5, uint64(1)<<uint(s.logn), other, s.pre)
		read(5, stream, []int{SL}, false, true)
		if si < 2 && full {
			for c := 1; c < SL; c++ {
				read(5, stream, c10Uniform(SL, c), c%2 == 0, c%7 == 0)
			}
			for b := 1; b < SL; b++ {
				read(5, stream, []int{b, SL}, b%2 == 1, b%11 == 0)
			}
		} else {
			for _, c := range []int{1, 2, 3, B - 1, B, B + 1, 8, 8 + B, SL - 1} {
				if c >= 1 {
					read(5, stream, c10Uniform(SL, c), true, c == B)
				}
			}
			for _, b := range []int{1, 7, 8, 9, 8 + B/2, 8 + B, 8 + B + 1, 8 + 5*B - 1, 8 + 5*B, SL - 1} {
				read(5, stream, []int{b, SL}, true, false)
			}
		}
		// pieces ending exactly on the item boundaries
		read(5, stream, []int{8, 8 + B, 8 + 2*B, 8 + 3*B, 8 + 4*B, 8 + 5*B, SL}, true, true)
		// seeded random compositions
		for i := 0; i < nRandom; i++ {
			var bounds []int
			p := 0
			for p < SL {
				p += 1 + d.rng.Intn(1+d.rng.Intn(2*B+8))
				if p < SL {
					bounds = append(bounds, p)
				}
			}
			read(5, stream, append(bounds, SL), i%2 == 0, i%5 == 0)
		}
		// truncated streams: the error must surface (one piece, and one-byte pieces)
		for _, cut := range []int{0, 1, 7, 8, 9, 8 + B - 1, 8 + B, 8 + 3*B + 1, 8 + 5*B - 1, 8 + 5*B} {
			read(5, stream[:cut], []int{cut}, true, false)
			if cut > 1 {
				read(5, stream[:cut], c10Uniform(cut, B), true, false)
			}
		}
		// trailing data after a complete domain must stay in the reader
		read(5, append(append([]byte{}, stream...), d.rng.Bytes(1+d.rng.Intn(40))...), []int{SL + 41}, true, true)
		// an element encoding that is not below the modulus
		bad := append([]byte{}, stream...)
		for i := 0; i < B; i++ {
			bad[8+B+i] = 0xff
		}
		read(5, bad, []int{SL}, true, false)
	}
}

// ---------------------------------------------------------------------------------------

func init() { register("c10", runC10) }

func runC10(args []string) {
	fs := flag.NewFlagSet("c10", flag.ExitOnError)
	out := fs.String("out", ".", "output directory")
	seed := fs.Uint64("seed", 1, "seed")
	tier := fs.String("tier", "quick", "quick|thorough")
	config := fs.String("config", "default", "configuration label")
	only := fs.String("fields", "", "comma separated field names (default: the 10 FFT fields)")
	parts := fs.String("parts", "", "comma separated part names (default all): dom,m1,m2,m3,big,sweep,brbig,brhuge")
	raceLog := fs.String("racelog", "", "GORACE log_path prefix: a RaceReport event with the number of reports is appended")
	fs.Parse(args)
	names := c10Names
	if *only != "" {
		names = strings.Split(*only, ",")
	}
	want := func(p string) bool {
		if *parts == "" {
			return true
		}
		for _, x := range strings.Split(*parts, ",") {
			if x == p {
				return true
			}
		}
		return false
	}
	thorough := *tier == "thorough"
	total, files := 0, 0
	for _, name := range names {
		f, p := fields[name], c10Pkgs[name]
		if f == nil || p == nil {
			fatal("unknown FFT field %s", name)
		}
		small := f.Limbs == 1
		part := 0
		// Parts are grouped into a few trace files per field (one TLC run each: the JVM start dominates small
		// traces). Every part builds its own domains and vectors, so parts can follow each other in one file.
		var cur *TraceWriter
		curGroup := ""
		groupOf := func(label string) string {
			switch {
			case thorough && (label == "dom" || label == "ser" || label == "m1"):
				return "a"
			case thorough && (label == "m2_5" || label == "m2_d"):
				return "m2"
			case thorough && (label == "m3_7" || label == "m3_8"):
				return "m3_78"
			case thorough && (strings.HasPrefix(label, "m3_9_") || strings.HasPrefix(label, "m3_10_")):
				return label[:len(label)-2]
			case thorough:
				return label // large: one file per part
			case label == "dom" || label == "ser" || label == "m1":
				return "a"
			case strings.HasPrefix(label, "m2"):
				return "b"
			case small:
				return "c"
			case label == "m3_7_0" || label == "m3_8_0" || label == "m3_9_0" || label == "m3_9_1":
				return "c"
			}
			return "d"
		}
		closeCur := func() {
			if cur != nil {
				total += cur.Close()
				files++
				cur = nil
			}
		}
		open := func(label string) *c10Drv {
			part++
			rng := newRng(*seed*1000003 + uint64(len(name))*7919 + uint64(name[len(name)-1]) + uint64(part)*104729)
			if g := groupOf(label); cur == nil || g != curGroup {
				closeCur()
				curGroup = g
				cur = newTrace(*out, fmt.Sprintf("c10_%s_%s_%s", strings.ReplaceAll(name, "/", "_"), *config, g),
					Ev{"property": "C10", "field": name, "config": *config, "group": g, "seed": int(*seed % (1 << 30)),
						"ncpu": runtime.NumCPU(), "gomaxprocs": runtime.GOMAXPROCS(0)})
			}
			return &c10Drv{f: f, p: p, t: cur, rng: rng, adic: c10Adicity[name]}
		}
		tasks6 := []int{1, 2, 3, 8, 64, 512} // one per split depth class: none, 1, 2, 3, 6, 9
		// thorough: the heaviest parts (all basis vectors at 128/256 points, 2^14..2^18 points, the 1..512 task
		// sweep, the large bit reversals) run on one field per element width
		heavy := name == "bn254/fr" || name == "koalabear" || name == "goldilocks"
		if want("dom") {
			d := open("dom")
			d.scDomains(map[bool]int{false: 10, true: 12}[thorough])
			d.scBitReverse(map[bool]int{false: 10, true: 13}[thorough])
			d.scOddTasks(7)
		}
		if want("m1") {
			d := open("m1")
			for logn := 0; logn <= 4; logn++ {
				if thorough {
					d.scBasis(logn, []int{0, 1, 2, 3}, c10Tasks9, false)
				} else {
					// up to 16 points the task count only changes the chunking of the coset scaling:
					// one chunk, uneven chunks (two ways), one element per chunk
					d.scBasis(logn, []int{0, 1}, []int{1, 3, 7, 512}, false)
				}
			}
		}
		if want("dom") {
			// (last in its file: the events of candidate defect F15 are rejected here, and the set of rejected
			// events is part of the TLC state)
			d := open("ser")
			d.scSerialize(true, map[bool]int{false: 20, true: 300}[thorough])
		}
		if want("m2") && !thorough {
			for _, logn := range []int{5, 6} {
				d := open(fmt.Sprintf("m2_%d", logn))
				d.scBasis(logn, []int{0, 1}, []int{1, 8, 3}, true) // every basis vector, the task counts in turn
				d.scDense(logn, []int{0, 1}, c10Tasks9, 1, true, false)
			}
		}
		if want("m2") && thorough {
			open("m2_5").scBasis(5, []int{0, 1}, tasks6, false)
			d := open("m2_d")
			d.scDense(5, []int{0, 1, 2, 3}, c10Tasks9, 2, true, true)
			d.scDense(6, []int{0, 1, 2, 3}, c10Tasks9, 2, true, true)
			open("m2_6_0").scBasis(6, []int{0}, []int{1, 3, 8, 512}, false)
			open("m2_6_1").scBasis(6, []int{1}, []int{1, 3, 8, 512}, false)
		}
		if want("m3") && !thorough {
			// 7..10: every (precompute, task count) with 2 of the 4 (dec, coset) pairs, rotating with the size;
			// 11 (12 on the 31/64-bit fields): the no-precompute kernels and the BuildExpTable parallel thresholds
			top := 11
			if small {
				top = 12
			}
			for logn := 7; logn <= top; logn++ {
				for _, id := range []int{0, 1} {
					tasks := c10Tasks9
					if logn >= 9 {
						tasks = tasks6
					}
					if logn >= 11 {
						tasks = []int{1, 3, 4, 16, 512}
						if id == 0 && !small {
							continue
						}
					}
					if logn == 12 {
						tasks = []int{4, 512}
					}
					if logn <= 8 && id == 1 {
						continue // both domains in one part
					}
					d := open(fmt.Sprintf("m3_%d_%d", logn, id))
					d.thin = logn
					if logn <= 8 {
						d.scDense(logn, []int{0, 1}, tasks, 1, true, false)
					} else {
						d.scDense(logn, []int{id}, tasks, 1, false, false)
					}
				}
			}
		}
		if want("m3") && thorough {
			for _, logn := range []int{7, 8} {
				open(fmt.Sprintf("m3_%d", logn)).scDense(logn, []int{0, 1}, c10Tasks9, 1, true, true)
			}
			if heavy {
				open("m3_7b").scBasis(7, []int{0, 1}, []int{1, 8}, true)
				for _, id := range []int{0, 1} {
					d := open(fmt.Sprintf("m3_8b%d", id))
					d.thin = 8 + id
					d.scBasis(8, []int{id}, []int{1, 8, 3}, true)
				}
			}
			for logn := 9; logn <= 12; logn++ {
				for _, id := range []int{0, 1} {
					if logn == 12 && id == 0 && !heavy {
						continue
					}
					d := open(fmt.Sprintf("m3_%d_%d", logn, id))
					switch {
					case logn == 9:
						d.scDense(logn, []int{id}, c10Tasks9, 1, true, true)
					case logn <= 11:
						d.scDense(logn, []int{id}, c10Tasks9, 1, false, false)
					default:
						d.scDense(logn, []int{id}, []int{1, 3, 4, 16, 512}, 1, false, false)
					}
				}
			}
		}
		if want("big") && thorough {
			// the large sizes: every split depth once per decimation, with and without precompute
			top := 13
			if heavy {
				top = 14
			}
			if heavy && small {
				top = 17
			}
			if name == "koalabear" {
				top = 18
			}
			for logn := 13; logn <= top; logn++ {
				for _, id := range []int{0, 1} {
					if id == 1 && !heavy {
						continue
					}
					d := open(fmt.Sprintf("big_%d_%d", logn, id))
					tasks := []int{3, 512}
					if logn >= 17 {
						tasks = []int{[]int{16, 512}[logn-17]}
					}
					d.scBig(logn, id, tasks)
				}
			}
		}
		if want("sweep") && thorough && (name == "bn254/fr" || name == "koalabear") {
			for _, r := range [][2]int{{1, 128}, {129, 256}, {257, 384}, {385, 512}} {
				d := open(fmt.Sprintf("sweep_%d", r[0]))
				d.scTasksSweep(7, []int{0, 1}, r[0], r[1])
			}
		}
		// the specialised in-place permutations (one routine per size 2^21 .. 2^27, fields with the cobra variants): sampled
		// positions of the index vector. goldilocks has the smallest elements (2^27 entries = 1 GiB); thorough adds bn254/fr
		if want("brhuge") && (name == "goldilocks" || (thorough && name == "bn254/fr")) {
			d := open("brhuge")
			top := 27
			if name != "goldilocks" {
				top = 26
			}
			for logn := 19; logn <= top; logn++ {
				d.bitReverseIdx(logn, false, 3000)
				if thorough {
					d.bitReverseIdx(logn, true, 3000)
				}
			}
		}
		if want("brbig") && thorough && name == "koalabear" {
			d := open("brbig")
			for _, logn := range []int{16, 20, 21} {
				d.bitReverseIdx(logn, false, 0)
				d.bitReverseIdx(logn, true, 0)
			}
			d = open("brhuge")
			for logn := 22; logn <= 27; logn++ {
				d.bitReverseIdx(logn, false, 20000)
				d.bitReverseIdx(logn, true, 20000)
			}
		}
		closeCur()
	}
	if *raceLog != "" {
		// the race detector (GORACE=log_path=<prefix>) writes its reports to <prefix>.<pid>
		n := 0
		if m, _ := filepath.Glob(*raceLog + ".*"); m != nil {
			for _, fn := range m {
				b, _ := os.ReadFile(fn)
				n += strings.Count(string(b), "WARNING: DATA RACE")
			}
		}
		t := newTrace(*out, fmt.Sprintf("c10_race_%s", *config), Ev{"property": "C10", "field": names[0], "config": *config, "part": "race"})
		t.Emit(Ev{"op": "RaceReport", "count": n})
		total += t.Close()
		files++
	}
	fmt.Printf("c10: %d events, %d files, %d fields\n", total, files, len(names))
}
