package main

// C02 (twisted Edwards part) + frozen parameter printer.

import (
	"fmt"
	"math/big"
	"reflect"
	"sort"
	"strings"
)

type Edwards struct {
	Name      string
	FieldName string
	AffT      reflect.Type
	ProjT     reflect.Type
	ExtT      reflect.Type
	GetCurve  reflect.Value
}

var edwards = map[string]*Edwards{}
var edwardsNames []string

func registerEdwards(e *Edwards) {
	edwards[e.Name] = e
	edwardsNames = append(edwardsNames, e.Name)
	sort.Strings(edwardsNames)
}

func init() { register("edwardsparams", runEdwardsParams) }

func (e *Edwards) F() *Field { return fields[e.FieldName] }

func (e *Edwards) params() (a, d *big.Int, order *big.Int, base reflect.Value) {
	cp := e.GetCurve.Call(nil)[0]
	f := e.F()
	val := func(v reflect.Value) *big.Int {
		x := new(big.Int).Mul(rawOfElem(v), f.Rinv)
		return x.Mod(x, f.Q)
	}
	a = val(cp.FieldByName("A"))
	d = val(cp.FieldByName("D"))
	o := cp.FieldByName("Order").Interface().(big.Int)
	order = &o
	base = reflect.New(e.AffT)
	base.Elem().Set(cp.FieldByName("Base"))
	return
}

func runEdwardsParams(args []string) {
	fmt.Println("---------------------------- MODULE EdwardsParams ----------------------------")
	fmt.Println("(* Frozen parameters of the twisted Edwards companion curves a x^2 + y^2 = 1 + d x^2 y^2 *)")
	fmt.Println("(* (abstract values). Generated once by `harness edwardsparams`; validated by EdwardsCheck. *)")
	fmt.Println("EdwardsNames == {" + func() string {
		q := make([]string, len(edwardsNames))
		for i, n := range edwardsNames {
			q[i] = `"` + n + `"`
		}
		return strings.Join(q, ", ")
	}() + "}")
	fmt.Println("EdwardsP(name) ==")
	fmt.Println("  CASE")
	for i, n := range edwardsNames {
		e := edwards[n]
		f := e.F()
		a, d, order, base := e.params()
		val := func(v reflect.Value) *big.Int {
			x := new(big.Int).Mul(rawOfElem(v), f.Rinv)
			return x.Mod(x, f.Q)
		}
		sep := "  [] "
		if i == 0 {
			sep = "     "
		}
		fmt.Printf("%sname = \"%s\" -> [field |-> \"%s\", a |-> %s, d |-> %s,\n        order |-> %s,\n        bx |-> %s,\n        by |-> %s]\n", sep, n, e.FieldName,
			tlaDigits(digits(a)), tlaDigits(digits(d)), tlaDigits(digits(order)), tlaDigits(digits(val(base.Elem().Field(0)))), tlaDigits(digits(val(base.Elem().Field(1)))))
	}
	fmt.Println("=============================================================================")
}

type edOp struct {
	name string
	recv string
	args []string
	pred bool
	z1   bool // operands must have Z = 1
}

var edOps = []edOp{
	{"Add", "aff", []string{"aff", "aff"}, false, false},
	{"Double", "aff", []string{"aff"}, false, false},
	{"Neg", "aff", []string{"aff"}, false, false},
	{"Set", "aff", []string{"aff"}, false, false},
	{"FromProj", "aff", []string{"proj"}, false, false},
	{"FromExtended", "aff", []string{"ext"}, false, false},
	{"Set", "proj", []string{"proj"}, false, false},
	{"Neg", "proj", []string{"proj"}, false, false},
	{"FromAffine", "proj", []string{"aff"}, false, false},
	{"MixedAdd", "proj", []string{"proj", "aff"}, false, false},
	{"Double", "proj", []string{"proj"}, false, false},
	{"Add", "proj", []string{"proj", "proj"}, false, false},
	{"Set", "ext", []string{"ext"}, false, false},
	{"Neg", "ext", []string{"ext"}, false, false},
	{"FromAffine", "ext", []string{"aff"}, false, false},
	{"Add", "ext", []string{"ext", "ext"}, false, false},
	{"MixedAdd", "ext", []string{"ext", "aff"}, false, false},
	{"Double", "ext", []string{"ext"}, false, false},
	{"MixedDouble", "ext", []string{"ext"}, false, true},
	{"Equal", "aff", []string{"aff"}, true, false},
	{"Equal", "proj", []string{"proj"}, true, false},
	{"Equal", "ext", []string{"ext"}, true, false},
	{"IsZero", "aff", nil, true, false},
	{"IsZero", "proj", nil, true, false},
	{"IsZero", "ext", nil, true, false},
	{"IsOnCurve", "aff", nil, true, false},
}

type edPoint struct {
	label string
	reps  map[string][]reflect.Value // kind -> representatives (index 0 has Z = 1)
}

func (e *Edwards) typeOf(kind string) reflect.Type {
	switch kind {
	case "aff":
		return e.AffT
	case "proj":
		return e.ProjT
	}
	return e.ExtT
}

func (e *Edwards) mkPoint(label string, aff reflect.Value, r *Rng) *edPoint {
	f := e.F()
	p := &edPoint{label: label, reps: map[string][]reflect.Value{"aff": {aff}}}
	pr := reflect.New(e.ProjT)
	method(pr, "FromAffine").Call([]reflect.Value{aff})
	ex := reflect.New(e.ExtT)
	method(ex, "FromAffine").Call([]reflect.Value{aff})
	p.reps["proj"] = []reflect.Value{pr}
	p.reps["ext"] = []reflect.Value{ex}
	for i := 0; i < 2; i++ {
		lam := f.NewRaw(r.Below(f.Q))
		if f.Raw(lam).Sign() == 0 {
			continue
		}
		for _, k := range []string{"proj", "ext"} {
			c := clonePtr(p.reps[k][0])
			for j := 0; j < c.Elem().NumField(); j++ {
				co := c.Elem().Field(j).Addr()
				method(co, "Mul").Call([]reflect.Value{co, lam})
			}
			p.reps[k] = append(p.reps[k], c)
		}
	}
	return p
}

func (e *Edwards) runOp(t *TraceWriter, op edOp, operands []*edPoint, r *Rng, garbage *edPoint) {
	kinds := op.args
	if op.pred {
		kinds = append([]string{op.recv}, op.args...)
	}
	vals := make([]reflect.Value, len(kinds))
	before := make([]any, len(kinds))
	labels := make([]string, len(kinds))
	for i, k := range kinds {
		reps := operands[i].reps[k]
		idx := r.Intn(len(reps))
		if op.z1 {
			idx = 0
		}
		vals[i] = clonePtr(reps[idx])
		before[i] = tagged(k, vals[i])
		labels[i] = operands[i].label
	}
	ev := Ev{"op": op.name, "rk": op.recv, "args": before, "labels": labels}
	var recv reflect.Value
	var args []reflect.Value
	if op.pred {
		recv, args = vals[0], vals[1:]
	} else {
		g := garbage.reps[op.recv]
		recv, args = clonePtr(g[r.Intn(len(g))]), vals
	}
	out, pm, pk := call(method(recv, op.name), args...)
	if pk {
		ev["panic"] = pm
	} else {
		if op.pred {
			ev["ret"] = out[0].Bool()
		} else {
			ev["out"] = tagged(op.recv, recv)
		}
		after := make([]any, len(vals))
		for i := range vals {
			after[i] = tagged(kinds[i], vals[i])
		}
		ev["after"] = after
	}
	t.Emit(ev)
}

func runC02Edwards(out string, seed uint64, tier string) int {
	total := 0
	nRandom, reps := 1, 1
	if tier == "thorough" {
		nRandom, reps = 4, 6
	}
	for _, name := range edwardsNames {
		e := edwards[name]
		f := e.F()
		r := newRng(seed*104729 + uint64(len(name))*17 + uint64(name[len(name)-1]))
		t := newTrace(out, "c02ed_"+name, Ev{"property": "C02", "edwards": name, "seed": int(seed % (1 << 30))})
		_, _, _, base := e.params()
		mul := func(k *big.Int) reflect.Value {
			p := reflect.New(e.AffT)
			method(p, "ScalarMultiplication").Call([]reflect.Value{base, reflect.ValueOf(k)})
			return p
		}
		neg := func(a reflect.Value) reflect.Value {
			n := reflect.New(e.AffT)
			method(n, "Neg").Call([]reflect.Value{a})
			return n
		}
		id := reflect.New(e.AffT)
		f.SetRaw(id.Elem().Field(1).Addr(), f.ToMont(big.NewInt(1)))
		var pts []*edPoint
		B1, B2 := mul(big.NewInt(1)), mul(big.NewInt(2))
		pts = append(pts, e.mkPoint("Id", id, r), e.mkPoint("B", B1, r), e.mkPoint("-B", neg(B1), r), e.mkPoint("2B", B2, r),
			e.mkPoint("-2B", neg(B2), r), e.mkPoint("3B", mul(big.NewInt(3)), r))
		for i := 0; i < nRandom; i++ {
			pts = append(pts, e.mkPoint("kB", mul(r.Below(f.Q)), r))
		}
		garbage := pts[3]
		for rep := 0; rep < reps; rep++ {
			for _, op := range edOps {
				n := len(op.args)
				if op.pred {
					n++
				}
				if n == 1 {
					for _, p := range pts {
						e.runOp(t, op, []*edPoint{p}, r, garbage)
					}
				} else {
					for _, p := range pts {
						for _, q := range pts {
							e.runOp(t, op, []*edPoint{p, q}, r, garbage)
						}
					}
				}
			}
		}
		// off-curve affine point for IsOnCurve
		off := reflect.New(e.AffT)
		f.SetRaw(off.Elem().Field(0).Addr(), r.Below(f.Q))
		f.SetRaw(off.Elem().Field(1).Addr(), r.Below(f.Q))
		offp := &edPoint{label: "off", reps: map[string][]reflect.Value{"aff": {off}}}
		e.runOp(t, edOps[len(edOps)-1], []*edPoint{offp}, r, garbage)
		total += t.Close()
	}
	return total
}
