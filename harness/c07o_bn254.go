package main

// C07 structured objects, typed constructors for bn254 (c07o.go holds the driver); the other pairing curves get
// generated copies of this file (tools/c07ogen.py).

import (
	"io"
	"reflect"

	curve "github.com/consensys/gnark-crypto/ecc/bn254"
	"github.com/consensys/gnark-crypto/ecc/bn254/fflonk"
	"github.com/consensys/gnark-crypto/ecc/bn254/fr"
	"github.com/consensys/gnark-crypto/ecc/bn254/fr/pedersen"
	"github.com/consensys/gnark-crypto/ecc/bn254/kzg"
	"github.com/consensys/gnark-crypto/ecc/bn254/shplonk"
)

func init() {
	type wt = interface {
		WriteTo(io.Writer) (int64, error)
	}
	type rf = interface {
		ReadFrom(io.Reader) (int64, error)
	}
	writeTo := func(obj any, w io.Writer) (int64, error) { return obj.(wt).WriteTo(w) }
	readFrom := func(obj any, r io.Reader) (int64, error) { return obj.(rf).ReadFrom(r) }
	rv := func(xs ...any) []reflect.Value {
		out := make([]reflect.Value, len(xs))
		for i, x := range xs {
			out[i] = reflect.ValueOf(x).Elem()
		}
		return out
	}
	c07Objs["bn254"] = []c07ObjKind{
		{name: "pedersen.ProvingKey", tys: []string{"sg1", "sg1"}, eqlen: true,
			build: func(v []reflect.Value) any {
				return &pedersen.ProvingKey{Basis: v[0].Interface().([]curve.G1Affine), BasisExpSigma: v[1].Interface().([]curve.G1Affine)}
			},
			items: func(o any) []reflect.Value { k := o.(*pedersen.ProvingKey); return rv(&k.Basis, &k.BasisExpSigma) },
			fresh: func() any { return new(pedersen.ProvingKey) },
			writers: map[string]func(any, io.Writer) (int64, error){"WriteTo": writeTo,
				"WriteRawTo": func(o any, w io.Writer) (int64, error) { return o.(*pedersen.ProvingKey).WriteRawTo(w) }},
			readers: map[string]func(any, io.Reader) (int64, error){"ReadFrom": readFrom}},
		{name: "pedersen.VerifyingKey", tys: []string{"g2", "g2"},
			build: func(v []reflect.Value) any {
				return &pedersen.VerifyingKey{G: v[0].Interface().(curve.G2Affine), GSigmaNeg: v[1].Interface().(curve.G2Affine)}
			},
			items: func(o any) []reflect.Value { k := o.(*pedersen.VerifyingKey); return rv(&k.G, &k.GSigmaNeg) },
			fresh: func() any { return new(pedersen.VerifyingKey) },
			writers: map[string]func(any, io.Writer) (int64, error){"WriteTo": writeTo,
				"WriteRawTo": func(o any, w io.Writer) (int64, error) { return o.(*pedersen.VerifyingKey).WriteRawTo(w) }},
			readers: map[string]func(any, io.Reader) (int64, error){"ReadFrom": readFrom,
				"UnsafeReadFrom": func(o any, r io.Reader) (int64, error) { return o.(*pedersen.VerifyingKey).UnsafeReadFrom(r) }}},
		{name: "kzg.ProvingKey", tys: []string{"sg1"},
			build: func(v []reflect.Value) any { return &kzg.ProvingKey{G1: v[0].Interface().([]curve.G1Affine)} },
			items: func(o any) []reflect.Value { k := o.(*kzg.ProvingKey); return rv(&k.G1) },
			fresh: func() any { return new(kzg.ProvingKey) },
			writers: map[string]func(any, io.Writer) (int64, error){"WriteTo": writeTo,
				"WriteRawTo": func(o any, w io.Writer) (int64, error) { return o.(*kzg.ProvingKey).WriteRawTo(w) }},
			readers: map[string]func(any, io.Reader) (int64, error){"ReadFrom": readFrom,
				"UnsafeReadFrom": func(o any, r io.Reader) (int64, error) { return o.(*kzg.ProvingKey).UnsafeReadFrom(r) }}},
		{name: "kzg.OpeningProof", tys: []string{"g1", "fr"},
			build: func(v []reflect.Value) any {
				return &kzg.OpeningProof{H: v[0].Interface().(curve.G1Affine), ClaimedValue: v[1].Interface().(fr.Element)}
			},
			items:   func(o any) []reflect.Value { k := o.(*kzg.OpeningProof); return rv(&k.H, &k.ClaimedValue) },
			fresh:   func() any { return new(kzg.OpeningProof) },
			writers: map[string]func(any, io.Writer) (int64, error){"WriteTo": writeTo},
			readers: map[string]func(any, io.Reader) (int64, error){"ReadFrom": readFrom}},
		{name: "kzg.BatchOpeningProof", tys: []string{"g1", "vfr"},
			build: func(v []reflect.Value) any {
				return &kzg.BatchOpeningProof{H: v[0].Interface().(curve.G1Affine), ClaimedValues: v[1].Interface().([]fr.Element)}
			},
			items:   func(o any) []reflect.Value { k := o.(*kzg.BatchOpeningProof); return rv(&k.H, &k.ClaimedValues) },
			fresh:   func() any { return new(kzg.BatchOpeningProof) },
			writers: map[string]func(any, io.Writer) (int64, error){"WriteTo": writeTo},
			readers: map[string]func(any, io.Reader) (int64, error){"ReadFrom": readFrom}},
		{name: "shplonk.OpeningProof", tys: []string{"g1", "g1", "vvfr"},
			build: func(v []reflect.Value) any {
				return &shplonk.OpeningProof{W: v[0].Interface().(curve.G1Affine), WPrime: v[1].Interface().(curve.G1Affine),
					ClaimedValues: v[2].Interface().([][]fr.Element)}
			},
			items: func(o any) []reflect.Value {
				k := o.(*shplonk.OpeningProof)
				return rv(&k.W, &k.WPrime, &k.ClaimedValues)
			},
			fresh:   func() any { return new(shplonk.OpeningProof) },
			writers: map[string]func(any, io.Writer) (int64, error){"WriteTo": writeTo},
			readers: map[string]func(any, io.Reader) (int64, error){"ReadFrom": readFrom}},
		{name: "fflonk.OpeningProof", tys: []string{"g1", "g1", "vvfr", "vvvfr"},
			build: func(v []reflect.Value) any {
				return &fflonk.OpeningProof{SOpeningProof: shplonk.OpeningProof{W: v[0].Interface().(curve.G1Affine), WPrime: v[1].Interface().(curve.G1Affine),
					ClaimedValues: v[2].Interface().([][]fr.Element)}, ClaimedValues: v[3].Interface().([][][]fr.Element)}
			},
			items: func(o any) []reflect.Value {
				k := o.(*fflonk.OpeningProof)
				return rv(&k.SOpeningProof.W, &k.SOpeningProof.WPrime, &k.SOpeningProof.ClaimedValues, &k.ClaimedValues)
			},
			fresh:   func() any { return new(fflonk.OpeningProof) },
			writers: map[string]func(any, io.Writer) (int64, error){"WriteTo": writeTo},
			readers: map[string]func(any, io.Reader) (int64, error){"ReadFrom": readFrom}},
	}
}
