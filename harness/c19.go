package main

// C19 driver: receiver and operands may alias in every arithmetic method.
//
// Methods are DISCOVERED by reflection over the exported types of the field, tower, curve, twisted
// Edwards, polynomial, small-field extension and Eisenstein-integer packages (plus the unexported bucket
// and g2Proj types through the export shim, and the internal E6D tower type through hooks/.../verif_c19.go).
// A method is driven when at least two of its pointer / slice positions (receiver
// included) have the same class, i.e. can be the same object. For every set partition of the positions
// that only merges positions of one class (and keeps two documented destinations apart) the method is run
// twice on the same contents:
//   ref  every position holds its own fresh copy,
//   ali  the positions of one block hold ONE object,
// and the event records, raw, the contents before the call, the receiver after each run, every other
// position after each run and the returned values. Nothing is compared here: spec/C19_alias/TraceAlias.tla
// judges every event and checks that every partition of every announced method was exercised.

import (
	"encoding/json"
	"flag"
	"fmt"
	"math/big"
	"os"
	"path/filepath"
	"reflect"
	"sort"
	"strings"
)

func init() { register("c19", runC19) }

// ---------------------------------------------------------------------------------------
// discovery

type c19Pos struct {
	arg  int          // index in the argument list of the method expression (0 = receiver)
	kind string       // "ptr" (pointer to struct / array), "slice", "pslice" (pointer to slice)
	key  string       // class key: positions with the same key can be the same object
	objT reflect.Type // pointee type (ptr), slice type (slice, pslice)
	argT reflect.Type
}

type c19Method struct {
	interior map[int][]int // set only during driveInterior: position -> field path inside the receiver object
	owner    string        // short type name
	name     string
	fn       reflect.Value // func(receiver, args...)
	ft       reflect.Type
	pos      []c19Pos
	cls      []int
}

func c19TypeKey(t reflect.Type) string {
	if t.Name() == "" {
		return t.String()
	}
	return t.PkgPath() + "." + t.Name()
}

func c19ShortName(t reflect.Type) string {
	if t.Kind() == reflect.Slice {
		if t.Name() != "" {
			return t.Name()
		}
		return "[]" + t.Elem().Name()
	}
	if t.Name() == "" {
		return t.String()
	}
	return t.Name()
}

// c19Classify finds the pointer / slice positions of a method expression and their classes.
func c19Classify(owner, name string, fn reflect.Value, valueRecv bool) *c19Method {
	ft := fn.Type()
	m := &c19Method{owner: owner, name: name, fn: fn, ft: ft}
	keys := map[string]int{}
	for i := 0; i < ft.NumIn(); i++ {
		t := ft.In(i)
		var p *c19Pos
		switch {
		case t.Kind() == reflect.Ptr && (t.Elem().Kind() == reflect.Struct || t.Elem().Kind() == reflect.Array):
			if i == 0 && valueRecv {
				continue // the method works on a copy of the receiver
			}
			p = &c19Pos{arg: i, kind: "ptr", key: c19TypeKey(t.Elem()), objT: t.Elem(), argT: t}
		case t.Kind() == reflect.Ptr && t.Elem().Kind() == reflect.Slice:
			p = &c19Pos{arg: i, kind: "pslice", key: "[]" + c19TypeKey(t.Elem().Elem()), objT: t.Elem(), argT: t}
		case t.Kind() == reflect.Slice:
			p = &c19Pos{arg: i, kind: "slice", key: "[]" + c19TypeKey(t.Elem()), objT: t, argT: t}
		}
		if p == nil {
			continue
		}
		if _, ok := keys[p.key]; !ok {
			keys[p.key] = len(keys) + 1
		}
		m.pos = append(m.pos, *p)
		m.cls = append(m.cls, keys[p.key])
	}
	return m
}

func (m *c19Method) key() string { return m.owner + "." + m.name }

// aliasable: two positions of one class, the receiver being one of the positions
func (m *c19Method) aliasable() bool {
	if len(m.pos) == 0 || m.pos[0].arg != 0 {
		return false
	}
	cnt := map[int]int{}
	for _, c := range m.cls {
		cnt[c]++
		if cnt[c] > 1 {
			return true
		}
	}
	return false
}

func c19MethodsOf(T reflect.Type) []*c19Method {
	var out []*c19Method
	pt := reflect.PtrTo(T)
	for i := 0; i < pt.NumMethod(); i++ {
		mm := pt.Method(i)
		_, valueRecv := T.MethodByName(mm.Name)
		if valueRecv && T.Kind() == reflect.Slice {
			valueRecv = false // a slice receiver still shares its backing array with the caller
		}
		out = append(out, c19Classify(c19ShortName(T), mm.Name, mm.Func, valueRecv))
	}
	return out
}

// methods documented (or forced by their size relation) never to receive the same object twice:
// key -> reason. They are reported in the evidence, not driven.
var c19Excluded = map[string]string{
	"MultiLin.Eq":       "documented size relation len(m) = 2^len(q): m and q are never the same slice",
	"MultiLin.Evaluate": "documented size relation len(m) = 2^len(coordinates): m and coordinates are never the same slice",
}

// destination positions (1-based) of the methods that document a second destination besides the receiver
var c19Outs = map[string][]int{
	"ComplexNumber.QuoRem": {1, 4}, // "QuoRem sets z to the quotient of x and y, r to the remainder"
}

func (m *c19Method) outs() []int {
	if o, ok := c19Outs[m.key()]; ok {
		return o
	}
	return []int{1}
}

// set partitions of positions as restricted growth sequences (1-based block numbers) refining cls
func c19Partitions(cls []int, outs []int) [][]int {
	isOut := map[int]bool{}
	for _, o := range outs {
		isOut[o-1] = true
	}
	var out [][]int
	n := len(cls)
	cur := make([]int, n)
	var rec func(i, mx int)
	rec = func(i, mx int) {
		if i == n {
			out = append(out, append([]int(nil), cur...))
			return
		}
		for b := 1; b <= mx+1; b++ {
			ok := true
			for j := 0; j < i; j++ {
				if cur[j] == b && (cls[j] != cls[i] || (isOut[i] && isOut[j])) {
					ok = false // different classes, or two destinations in one object
					break
				}
			}
			if !ok {
				continue
			}
			cur[i] = b
			nm := mx
			if b > mx {
				nm = b
			}
			rec(i+1, nm)
		}
	}
	rec(0, 0)
	return out
}

// ---------------------------------------------------------------------------------------
// values

var c19BigIntT = reflect.TypeOf(big.Int{})

var c19FieldOfElem map[reflect.Type]*Field

func c19FieldFor(t reflect.Type) *Field {
	if c19FieldOfElem == nil {
		c19FieldOfElem = map[reflect.Type]*Field{}
		for _, f := range fields {
			c19FieldOfElem[f.ElemT] = f
		}
	}
	return c19FieldOfElem[t]
}

// c19Suite: one trace = one family of types with a value generator for its classes.
type c19Suite struct {
	kind   string
	name   string
	hdr    Ev
	types  []reflect.Type
	shim   []*c19Method                                // unexported methods through the export shim
	points map[reflect.Type]func(r *Rng) reflect.Value // point classes: fresh valid representative
	cyclo  map[reflect.Type]func(r *Rng) reflect.Value // GT: element of the cyclotomic subgroup / Karabina-compressed
	maxK   int                                         // cap on draws for expensive suites (0 = none)
}

const c19MaxTraceBytes = 8 << 20

type c19Cfg struct {
	out    string
	seed   uint64
	tier   string
	config string
	k      int
	lens   []int
}

func c19RandElem(f *Field, v reflect.Value, r *Rng, special bool) {
	var x *big.Int
	if special {
		switch r.Intn(6) {
		case 0:
			x = big.NewInt(0)
		case 1:
			x = f.ToMont(big.NewInt(1))
		case 2:
			x = f.ToMont(new(big.Int).Sub(f.Q, big.NewInt(1)))
		case 3:
			x = new(big.Int).Sub(f.Q, big.NewInt(1)) // largest raw value
		case 4:
			x = big.NewInt(1) // raw 1 = R^-1
		default:
			x = f.ToMont(big.NewInt(2))
		}
	} else {
		x = r.Below(f.Q)
	}
	f.SetRaw(v.Addr(), x)
}

var c19BigPtrT = reflect.TypeOf((*big.Int)(nil))

// c19HasBig: a struct whose fields are *big.Int (arbitrary-precision ring element)
func c19HasBig(t reflect.Type) bool {
	if t.Kind() != reflect.Struct || t.NumField() == 0 {
		return false
	}
	for i := 0; i < t.NumField(); i++ {
		if t.Field(i).Type != c19BigPtrT {
			return false
		}
	}
	return true
}

// c19Fill fills a field element / tower element with canonical leaves.
func c19Fill(v reflect.Value, r *Rng, flavor int) bool {
	t := v.Type()
	if isElem(t) {
		f := c19FieldFor(t)
		if f == nil {
			return false
		}
		switch flavor {
		case 1: // zero
			f.SetRaw(v.Addr(), big.NewInt(0))
		case 2: // sparse / special leaves
			c19RandElem(f, v, r, r.Intn(2) == 0)
		default:
			c19RandElem(f, v, r, false)
		}
		return true
	}
	if t.Kind() == reflect.Struct {
		for i := 0; i < t.NumField(); i++ {
			if !c19Fill(v.Field(i), r, flavor) {
				return false
			}
		}
		return true
	}
	if t.Kind() == reflect.Array {
		for i := 0; i < v.Len(); i++ {
			if !c19Fill(v.Index(i), r, flavor) {
				return false
			}
		}
		return true
	}
	return false
}

func c19Scalar(r *Rng) *big.Int {
	switch r.Intn(8) {
	case 0:
		return big.NewInt(0)
	case 1:
		return big.NewInt(1)
	case 2:
		return big.NewInt(-1)
	case 3:
		return big.NewInt(int64(2 + r.Intn(200)))
	case 4:
		return new(big.Int).Neg(r.Big(70))
	case 5:
		return r.Big(64)
	default:
		return r.Big(200 + r.Intn(60))
	}
}

// fresh returns a new object of the class of pos: a pointer (ptr) or a slice value (slice, pslice) of
// the canonical slice type []Elem. flavor: 0 random, 1 zero-ish, 2 special. L: slice length.
func (s *c19Suite) fresh(pos *c19Pos, r *Rng, flavor, L int) (reflect.Value, bool) {
	switch pos.kind {
	case "ptr":
		t := pos.objT
		if t == c19BigIntT {
			return reflect.ValueOf(c19Scalar(r)), true
		}
		if gen, ok := s.points[t]; ok {
			return gen(r), true
		}
		if isPointStruct(t) {
			return reflect.Value{}, false
		}
		if gen, ok := s.cyclo[t]; ok && flavor == 3 {
			return gen(r), true
		}
		p := reflect.New(t)
		if c19HasBig(t) {
			// non-zero first coordinate: the ring's division panics (documented) on a zero divisor
			for i := 0; i < t.NumField(); i++ {
				v := c19Scalar(r)
				if flavor == 0 || v.BitLen() > 64 {
					v = new(big.Int).Sub(r.Big(40+r.Intn(60)), r.Big(90))
				}
				if i == 0 && v.Sign() == 0 {
					v = big.NewInt(3)
				}
				p.Elem().Field(i).Set(reflect.ValueOf(v))
			}
			return p, true
		}
		if (flavor == 1 && !isElem(t) && r.Intn(2) == 0) || (flavor >= 5 && !isElem(t)) {
			// the one of the tower: 1 in the first leaf
			c19Fill(p.Elem(), r, 1)
			leaf := p.Elem()
			for !isElem(leaf.Type()) {
				if leaf.Kind() != reflect.Struct {
					return reflect.Value{}, false
				}
				leaf = leaf.Field(0)
			}
			f := c19FieldFor(leaf.Type())
			if f == nil {
				return reflect.Value{}, false
			}
			// an element of the base field embedded in the tower: 1, -1, 2, -4 or random in the first leaf, zero elsewhere
			// (routines that special-case base-field operands: square roots, inverses, norms)
			var bv *big.Int
			pick := r.Intn(5)
			if flavor >= 5 {
				pick = []int{1, 3, 2}[flavor-5]
			}
			switch pick {
			case 0:
				bv = big.NewInt(1)
			case 1:
				bv = new(big.Int).Sub(f.Q, big.NewInt(1))
			case 2:
				bv = big.NewInt(2)
			case 3:
				bv = new(big.Int).Sub(f.Q, big.NewInt(4))
			default:
				bv = r.Below(f.Q)
			}
			f.SetRaw(leaf.Addr(), f.ToMont(bv))
			return p, true
		}
		if !c19Fill(p.Elem(), r, flavor) {
			return reflect.Value{}, false
		}
		return p, true
	default:
		et := pos.objT.Elem()
		if !isElem(et) || c19FieldFor(et) == nil {
			return reflect.Value{}, false
		}
		sl := reflect.MakeSlice(reflect.SliceOf(et), L, L)
		for i := 0; i < L; i++ {
			c19Fill(sl.Index(i), r, flavor)
		}
		return sl, true
	}
}

func c19Clone(pos *c19Pos, obj reflect.Value) reflect.Value {
	if pos.kind == "ptr" {
		if pos.objT == c19BigIntT {
			return reflect.ValueOf(new(big.Int).Set(obj.Interface().(*big.Int)))
		}
		if c19HasBig(pos.objT) {
			c := reflect.New(pos.objT)
			for i := 0; i < pos.objT.NumField(); i++ {
				c.Elem().Field(i).Set(reflect.ValueOf(new(big.Int).Set(obj.Elem().Field(i).Interface().(*big.Int))))
			}
			return c
		}
		return clonePtr(obj)
	}
	// a view with spare capacity that holds old values (a truncated or reused buffer of the caller): what lies behind
	// len is not part of the operand, so a routine that grows an operand in place must not read it
	n := obj.Len()
	c := reflect.MakeSlice(obj.Type(), n+6, n+6)
	reflect.Copy(c, obj)
	for i := n; i < n+6 && n > 0; i++ {
		c.Index(i).Set(obj.Index(i % n))
	}
	return c.Slice(0, n)
}

func c19Enc(v reflect.Value) any {
	for v.Kind() == reflect.Ptr {
		if v.Type().Elem() == c19BigIntT {
			return zint(v.Interface().(*big.Int))
		}
		v = v.Elem()
	}
	if v.Type() == c19BigIntT {
		b := v.Interface().(big.Int)
		return zint(&b)
	}
	if v.Kind() == reflect.Slice {
		out := make([]any, v.Len())
		for i := range out {
			out[i] = c19Enc(v.Index(i))
		}
		return out
	}
	if c19HasBig(v.Type()) {
		out := make([]any, v.NumField())
		for i := range out {
			if v.Field(i).IsNil() {
				out[i] = "nil"
			} else {
				out[i] = zint(v.Field(i).Interface().(*big.Int))
			}
		}
		return out
	}
	return enc(v)
}

// ---------------------------------------------------------------------------------------
// one run of a method under an arrangement of objects

type c19Run struct {
	in  []any // content of every position before the call
	obs Ev    // out, after, ret | panic
}

func c19Addr(pos *c19Pos, obj reflect.Value) (uintptr, bool) {
	if pos.kind == "ptr" {
		return obj.Pointer(), true
	}
	if obj.Len() == 0 {
		return 0, false
	}
	return obj.Pointer(), true
}

// bind builds the argument for position pos from its object.
func c19Bind(pos *c19Pos, obj reflect.Value) (arg reflect.Value, view func() reflect.Value) {
	switch pos.kind {
	case "ptr":
		return obj, func() reflect.Value { return obj }
	case "slice":
		a := obj.Convert(pos.argT)
		return a, func() reflect.Value { return a }
	default: // pslice: a fresh header variable pointing at the object's backing array
		h := reflect.New(pos.objT)
		h.Elem().Set(obj.Convert(pos.objT))
		return h, func() reflect.Value { return h.Elem() }
	}
}

func c19Ret(v reflect.Value, recvArg reflect.Value) Ev {
	t := v.Type()
	switch {
	case t.Kind() == reflect.Ptr:
		if v.IsNil() {
			return Ev{"k": "nil"}
		}
		if recvArg.Kind() == reflect.Ptr && recvArg.Type() == t && recvArg.Pointer() == v.Pointer() {
			return Ev{"k": "self"}
		}
		return Ev{"k": "v", "v": c19Enc(v)}
	case t.Kind() == reflect.Bool:
		return Ev{"k": "b", "v": v.Bool()}
	case t.Kind() == reflect.Int || t.Kind() == reflect.Int64:
		return Ev{"k": "i", "v": int(v.Int())}
	case t.Kind() == reflect.Uint64 || t.Kind() == reflect.Uint32 || t.Kind() == reflect.Uint:
		return Ev{"k": "v", "v": digits(new(big.Int).SetUint64(v.Uint()))}
	case t.Kind() == reflect.Interface: // error
		if v.IsNil() {
			return Ev{"k": "ok"}
		}
		return Ev{"k": "err", "v": fmt.Sprint(v.Interface())}
	case t.Kind() == reflect.String:
		return Ev{"k": "s", "v": v.String()}
	}
	return Ev{"k": "v", "v": c19Enc(v)}
}

// run executes m with the objects arranged by part (part[i] = block of position i); protos[b-1] is
// the content of block b; in the reference arrangement (aliased = false) every position gets its own copy.
func (m *c19Method) run(part []int, protos []reflect.Value, extras map[int]reflect.Value, aliased bool) c19Run {
	n := len(m.pos)
	objs := make([]reflect.Value, n)
	if aliased {
		blocks := map[int]reflect.Value{}
		for i := 0; i < n; i++ {
			b := part[i]
			if _, ok := blocks[b]; !ok {
				blocks[b] = c19Clone(&m.pos[i], protos[b-1])
			}
			objs[i] = blocks[b]
		}
	} else {
		for i := 0; i < n; i++ {
			objs[i] = c19Clone(&m.pos[i], protos[part[i]-1])
		}
	}
	if aliased {
		// interior aliasing (see driveInterior): position i is a pointer INTO the receiver object
		for i, path := range m.interior {
			objs[i] = objs[0].Elem().FieldByIndex(path).Addr()
		}
	}
	args := make([]reflect.Value, m.ft.NumIn())
	views := make([]func() reflect.Value, n)
	for i := range m.pos {
		args[m.pos[i].arg], views[i] = c19Bind(&m.pos[i], objs[i])
	}
	for i, v := range extras {
		args[i] = v
	}
	res := c19Run{}
	// the arrangement really is the announced one: same address <=> same block (non-empty objects)
	for i := 0; i < n; i++ {
		for j := 0; j < i; j++ {
			ai, oki := c19Addr(&m.pos[i], objs[i])
			aj, okj := c19Addr(&m.pos[j], objs[j])
			if !oki || !okj || m.cls[i] != m.cls[j] {
				continue
			}
			want := aliased && part[i] == part[j]
			if (ai == aj) != want {
				fatal("c19: arrangement of %s does not realise partition %v", m.key(), part)
			}
		}
	}
	for i := 0; i < n; i++ {
		res.in = append(res.in, c19Enc(views[i]()))
	}
	out, pm, pk := call(m.fn, args...)
	if pk {
		res.obs = Ev{"panic": pm}
		return res
	}
	after := make([]any, 0, n-1)
	for i := 1; i < n; i++ {
		after = append(after, c19Enc(views[i]()))
	}
	rets := make([]any, 0, len(out))
	for _, o := range out {
		rets = append(rets, c19Ret(o, args[0]))
	}
	res.obs = Ev{"out": c19Enc(views[0]()), "after": after, "ret": rets}
	return res
}

// ---------------------------------------------------------------------------------------
// the campaign for one method

// extras: values for the parameters that are not positions. ok = false when a type is not supported.
func (m *c19Method) extras(r *Rng) (map[int]reflect.Value, []any, bool) {
	ex := map[int]reflect.Value{}
	var logged []any
	isPos := map[int]bool{}
	for _, p := range m.pos {
		isPos[p.arg] = true
	}
	for i := 0; i < m.ft.NumIn(); i++ {
		if isPos[i] {
			continue
		}
		t := m.ft.In(i)
		switch {
		case i == 0:
			// value receiver that is not a position: a zero value of the pointer's element
			ex[i] = reflect.New(t.Elem())
		case t.Kind() == reflect.Int:
			v := r.Intn(2)
			ex[i] = reflect.ValueOf(v)
			logged = append(logged, v)
		case t.Kind() == reflect.Bool:
			v := r.Intn(2) == 1
			ex[i] = reflect.ValueOf(v)
			logged = append(logged, v)
		case t.Kind() == reflect.Uint64 || t.Kind() == reflect.Uint32 || t.Kind() == reflect.Uint || t.Kind() == reflect.Uint8 || t.Kind() == reflect.Uint16:
			v := r.Intn(70)
			ex[i] = reflect.ValueOf(v).Convert(t)
			logged = append(logged, v)
		case t == c19BigIntT:
			v := c19Scalar(r)
			ex[i] = reflect.ValueOf(*v)
			logged = append(logged, zint(v))
		case t.Kind() == reflect.Struct || t.Kind() == reflect.Array:
			p := reflect.New(t)
			if !c19Fill(p.Elem(), r, 0) {
				return nil, nil, false
			}
			ex[i] = p.Elem()
			logged = append(logged, c19Enc(p))
		default:
			return nil, nil, false
		}
	}
	if logged == nil {
		logged = []any{}
	}
	return ex, logged, true
}

// slice lengths of the blocks of one call: one length for all (the vector operations document equal
// lengths), except Polynomial.Add which accepts operands of different degrees.
func (m *c19Method) blockLens(nb int, L int, r *Rng) []int {
	ls := make([]int, nb)
	for i := range ls {
		ls[i] = L
	}
	if m.key() == "Polynomial.Add" && L > 0 {
		for i := range ls {
			switch r.Intn(3) {
			case 0:
				ls[i] = L + 1 + r.Intn(3)
			case 1:
				if L > 1 {
					ls[i] = 1 + r.Intn(L-1)
				}
			}
		}
	}
	return ls
}

func (m *c19Method) hasSlices() bool {
	for _, p := range m.pos {
		if p.kind != "ptr" {
			return true
		}
	}
	return false
}

type c19Stats struct {
	Methods    int               `json:"methods"`
	Partitions int               `json:"partitions"`
	Events     int               `json:"events"`
	Driven     []string          `json:"driven"`
	NoPair     int               `json:"methods_without_two_positions_of_one_class"`
	Excluded   map[string]string `json:"excluded"`
	Undrivable map[string]string `json:"undrivable"`
}

func (s *c19Suite) drive(t *TraceWriter, m *c19Method, cfg *c19Cfg, r *Rng, st *c19Stats) {
	parts := c19Partitions(m.cls, m.outs())
	n := len(m.pos)
	tys := make([]string, n)
	kinds := make([]string, n)
	for i, p := range m.pos {
		tys[i] = c19ShortName(p.objT)
		kinds[i] = p.kind
	}
	// can every class be generated, every extra parameter be supplied?
	probe := newRng(1)
	for i := range m.pos {
		if _, ok := s.fresh(&m.pos[i], probe, 0, 1); !ok {
			st.Undrivable[s.name+":"+m.key()] = "no generator for operand type " + m.pos[i].argT.String()
			return
		}
	}
	if _, _, ok := m.extras(probe); !ok {
		st.Undrivable[s.name+":"+m.key()] = "unsupported parameter type in " + m.ft.String()
		return
	}
	t.Emit(Ev{"op": "Method", "key": m.key(), "ty": m.owner, "m": m.name, "cls": m.cls, "outs": m.outs(), "tys": tys, "kinds": kinds})
	K := cfg.k
	if s.maxK > 0 && K > s.maxK {
		K = s.maxK
	}
	lens := []int{1}
	if m.hasSlices() {
		lens = cfg.lens
		if s.kind == "poly" {
			lens = []int{1, 2, 5, 8, 33}
		}
	}
	calls := 0
	for _, part := range parts {
		nb := 0
		for _, b := range part {
			if b > nb {
				nb = b
			}
		}
		first := make([]int, nb) // first position of each block
		for i := n - 1; i >= 0; i-- {
			first[part[i]-1] = i
		}
		for _, L := range lens {
			kk := K
			if m.hasSlices() {
				// vectors: the interesting dimension is the length (empty, tail only, one SIMD block, block + tail, ...)
				switch {
				case L < 32:
					kk = (K + 3) / 4
				case L < 128:
					kk = (K + 7) / 8
				default:
					kk = 1
				}
				if kk < 2 && L < 32 {
					kk = 2
				}
			} else if s.kind == "field" {
				kk = 3 * K // single field elements are cheap: more draws
			}
			kk2 := kk
			if !m.hasSlices() && s.kind != "field" {
				kk2 = kk + 3 // three more draws with base-field operands embedded in the tower (-1, -4, 2): flavors 5..7
			}
			for d := 0; d < kk2; d++ {
				// draw 0: random contents; draw 1: special / zero contents; draw 2: equal contents in
				// distinct blocks of one class (equal values, different objects); then random again
				flavor := 0
				if d%4 == 1 {
					flavor = 1 + r.Intn(2)
				} else if d%4 == 3 {
					flavor = 3 // domain elements where the suite has a narrower domain (cyclotomic subgroup), else random
				}
				if d >= kk {
					flavor = 5 + (d - kk)
				}
				bl := m.blockLens(nb, L, r)
				protos := make([]reflect.Value, nb)
				for b := 0; b < nb; b++ {
					protos[b], _ = s.fresh(&m.pos[first[b]], r, flavor, bl[b])
				}
				if d%4 == 2 {
					for b := 1; b < nb; b++ {
						for c := 0; c < b; c++ {
							if m.cls[first[b]] == m.cls[first[c]] {
								protos[b] = c19Clone(&m.pos[first[b]], protos[c])
								break
							}
						}
					}
				}
				ex, logged, _ := m.extras(r)
				ref := m.run(part, protos, ex, false)
				ali := m.run(part, protos, ex, true)
				t.Emit(Ev{"op": "Call", "key": m.key(), "part": part, "in": ref.in, "x": logged, "ref": ref.obs, "ali": ali.obs})
				calls++
			}
		}
	}
	calls += s.driveInterior(t, m, parts, r)
	t.Emit(Ev{"op": "End", "key": m.key(), "calls": calls})
	st.Methods++
	st.Partitions += len(parts)
	st.Events += calls
	st.Driven = append(st.Driven, s.name+":"+m.key())
}

// c19FieldPaths lists the index paths of the struct fields of type want inside T (depth <= 3)
func c19FieldPaths(T, want reflect.Type, depth int) [][]int {
	var out [][]int
	if T.Kind() != reflect.Struct || depth == 0 {
		return nil
	}
	for i := 0; i < T.NumField(); i++ {
		ft := T.Field(i).Type
		if ft == want {
			out = append(out, []int{i})
			continue
		}
		for _, p := range c19FieldPaths(ft, want, depth-1) {
			out = append(out, append([]int{i}, p...))
		}
	}
	return out
}

// driveInterior: beyond the letter of the property (which speaks of operands being the SAME object): an operand of a
// component type (an E2 factor of an E6 method, a base-field factor of an E2 method) that points INTO the receiver object.
// The reference run gives every position its own object, the operand holding a copy of the receiver's component; the aliased
// run passes the address of the component itself, once with all other positions distinct and once with every operand of the
// receiver's class being the receiver (z.Op(z, &z.B0)). Logged as "Interior" events: observations, not judged (the unmodified
// library's sparse tower multiplications are not safe under interior pointers, and the property does not ask for it).
func (s *c19Suite) driveInterior(t *TraceWriter, m *c19Method, parts [][]int, r *Rng) int {
	if m.hasSlices() || len(m.pos) < 2 || m.pos[0].kind != "ptr" || m.pos[0].arg != 0 {
		return 0
	}
	n := len(m.pos)
	discrete := make([]int, n)
	for i := range discrete {
		discrete[i] = i + 1
	}
	coarse := parts[0]
	nbOf := func(p []int) int {
		mx := 0
		for _, b := range p {
			if b > mx {
				mx = b
			}
		}
		return mx
	}
	for _, p := range parts {
		if nbOf(p) < nbOf(coarse) {
			coarse = p
		}
	}
	calls := 0
	for i := 1; i < n; i++ {
		if m.pos[i].kind != "ptr" || m.pos[i].objT == m.pos[0].objT {
			continue
		}
		paths := c19FieldPaths(m.pos[0].objT, m.pos[i].objT, 3)
		if len(paths) > 4 {
			paths = append(paths[:2], paths[len(paths)-2:]...)
		}
		for _, path := range paths {
			for _, part := range [][]int{discrete, coarse} {
				if part[i] == part[0] {
					continue
				}
				nb := nbOf(part)
				first := make([]int, nb)
				for k := n - 1; k >= 0; k-- {
					first[part[k]-1] = k
				}
				for d := 0; d < 2; d++ {
					protos := make([]reflect.Value, nb)
					ok := true
					for b := 0; b < nb && ok; b++ {
						protos[b], ok = s.fresh(&m.pos[first[b]], r, 3*d, 1)
					}
					if !ok {
						return calls
					}
					// the interior operand holds a copy of the receiver's component
					protos[part[i]-1] = reflect.New(m.pos[i].objT)
					protos[part[i]-1].Elem().Set(protos[part[0]-1].Elem().FieldByIndex(path))
					ex, logged, _ := m.extras(r)
					ref := m.run(part, protos, ex, false)
					m.interior = map[int][]int{}
					for j := 1; j < n; j++ {
						if part[j] == part[i] { // every position of the operand's block is that interior pointer
							m.interior[j] = path
						}
					}
					ali := m.run(part, protos, ex, true)
					m.interior = nil
					t.Emit(Ev{"op": "Interior", "key": m.key(), "part": part, "ipos": i + 1, "path": path, "in": ref.in, "x": logged, "ref": ref.obs, "ali": ali.obs})
					calls++
				}
			}
		}
	}
	return calls
}

func (s *c19Suite) runSuite(cfg *c19Cfg, st *c19Stats) {
	var ms []*c19Method
	seenT := map[reflect.Type]bool{}
	for _, T := range s.types {
		if seenT[T] {
			continue
		}
		seenT[T] = true
		ms = append(ms, c19MethodsOf(T)...)
	}
	ms = append(ms, s.shim...)
	h := uint64(0)
	for _, c := range s.name {
		h = h*131 + uint64(c)
	}
	r := newRng(cfg.seed*1000003 + h)
	hdr := Ev{"property": "C19", "kind": s.kind, "config": cfg.config, "seed": int(cfg.seed % (1 << 30))}
	for k, v := range s.hdr {
		hdr[k] = v
	}
	fname := "c19_" + cfg.config + "_" + strings.NewReplacer("/", "-", ":", "-").Replace(s.name)
	t := newTrace(cfg.out, fname, hdr)
	part := 1
	for _, m := range ms {
		// large traces are cut at method boundaries (TLC loads a trace whole): same header, next file
		t.w.Flush()
		if fi, err := t.f.Stat(); err == nil && fi.Size() > c19MaxTraceBytes {
			t.Close()
			part++
			t = newTrace(cfg.out, fmt.Sprintf("%s_p%d", fname, part), hdr)
		}
		if !m.aliasable() {
			st.NoPair++
			continue
		}
		if why, ok := c19Excluded[m.key()]; ok {
			st.Excluded[m.key()] = why
			continue
		}
		s.drive(t, m, cfg, r, st)
	}
	t.Close()
}

// ---------------------------------------------------------------------------------------
// suites

func c19ShimMethods(c *Curve, g string) []*c19Method {
	var names []string
	for n := range c.Shim {
		names = append(names, n)
	}
	sort.Strings(names)
	var out []*c19Method
	lower := strings.ToLower(g)
	for _, n := range names {
		if strings.HasPrefix(n, "new.") {
			continue
		}
		parts := strings.SplitN(n, ".", 2)
		if !strings.HasPrefix(parts[0], g) && !strings.HasPrefix(parts[0], lower) {
			continue
		}
		out = append(out, c19Classify(parts[0], parts[1], reflect.ValueOf(c.Shim[n]), false))
	}
	return out
}

// c19CycloGen builds operands of the cyclotomic-subgroup methods of GT (input construction only): the easy
// part of the final exponentiation a^((p^(k/2)-1)(p^(k/d)+1)) of a random a, or its Karabina-compressed
// square written into a zero element (the coefficients g0, g4 that compression drops stay 0).
func c19CycloGen(GT reflect.Type) func(*Rng) reflect.Value {
	frob := ""
	for _, n := range []string{"FrobeniusQuad", "FrobeniusSquare", "Frobenius"} {
		if _, ok := reflect.PtrTo(GT).MethodByName(n); ok {
			frob = n
			break
		}
	}
	if GT.Name() == "E6" {
		frob = "Frobenius" // bw6: k = 6, (p^3-1)(p+1)
	}
	return func(r *Rng) reflect.Value {
		a := reflect.New(GT)
		c19Fill(a.Elem(), r, 0)
		t, inv, u := reflect.New(GT), reflect.New(GT), reflect.New(GT)
		method(t, "Conjugate").Call([]reflect.Value{a})
		method(inv, "Inverse").Call([]reflect.Value{a})
		method(t, "Mul").Call([]reflect.Value{t, inv})
		method(u, frob).Call([]reflect.Value{t})
		method(u, "Mul").Call([]reflect.Value{u, t})
		if r.Intn(2) == 0 {
			return u
		}
		c := reflect.New(GT)
		method(c, "CyclotomicSquareCompressed").Call([]reflect.Value{u})
		return c
	}
}

func c19Suites(cfg *c19Cfg, only map[string]bool) []*c19Suite {
	var out []*c19Suite
	want := func(kind string) bool { return len(only) == 0 || only[kind] }
	if want("field") {
		for _, fn := range fieldNames {
			f := fields[fn]
			out = append(out, &c19Suite{kind: "field", name: "field:" + fn, hdr: Ev{"field": fn}, types: []reflect.Type{f.ElemT, f.VecT}})
		}
	}
	if want("ext") {
		var names []string
		for n := range c19Exts {
			names = append(names, n)
		}
		sort.Strings(names)
		for _, n := range names {
			x := c19Exts[n]
			s := &c19Suite{kind: "ext", name: "ext:" + n, hdr: Ev{"field": x.Field}}
			for _, tn := range []string{"E2", "E4"} {
				if T, ok := x.Types[tn]; ok {
					s.types = append(s.types, T)
				}
			}
			out = append(out, s)
		}
	}
	if want("poly") {
		var names []string
		for n := range c19Polys {
			names = append(names, n)
		}
		sort.Strings(names)
		for _, n := range names {
			p := c19Polys[n]
			out = append(out, &c19Suite{kind: "poly", name: "poly:" + n, hdr: Ev{"field": p.Field},
				types: []reflect.Type{p.Types["Polynomial"], p.Types["MultiLin"]}})
		}
	}
	if want("tower") {
		for _, cn := range curveNames {
			c := curves[cn]
			s := &c19Suite{kind: "tower", name: "tower:" + cn, hdr: Ev{"curve": cn}}
			// the tower types are internal (internal/fptower): they are reached through the exported aliases and,
			// where a curve package exports only GT, by walking the struct fields of GT and of the G2 coordinates
			seen := map[reflect.Type]bool{}
			var walk func(T reflect.Type)
			walk = func(T reflect.Type) {
				if T.Kind() != reflect.Struct || isElem(T) || seen[T] || !strings.HasPrefix(T.Name(), "E") {
					return
				}
				seen[T] = true
				for i := 0; i < T.NumField(); i++ {
					walk(T.Field(i).Type)
				}
				s.types = append(s.types, T) // sub-fields first
			}
			for _, tn := range []string{"E2", "E3", "E4", "E6", "E12", "E24", "GT"} {
				if T, ok := c.Types[tn]; ok {
					walk(T)
				}
			}
			if T, ok := c.Types["G2Affine"]; ok {
				walk(T.Field(0).Type)
			}
			for _, T := range c19InternalTypes[cn] {
				walk(T)
			}
			if GT, ok := c.Types["GT"]; ok {
				s.cyclo = map[reflect.Type]func(*Rng) reflect.Value{GT: c19CycloGen(GT)}
			}
			if len(s.types) > 0 {
				out = append(out, s)
			}
		}
	}
	if want("group") {
		for _, cn := range curveNames {
			c := curves[cn]
			for _, gn := range []string{"G1", "G2"} {
				g := c.Group(gn)
				if g == nil {
					continue
				}
				pr := newRng(cfg.seed*7919 + uint64(len(cn))*131 + uint64(gn[1]))
				nRandom := 2
				if cfg.tier == "thorough" {
					nRandom = 6
				}
				pts := g.pool(pr, nRandom)
				s := &c19Suite{kind: "group", name: "group:" + cn + ":" + gn, hdr: Ev{"curve": cn, "g": gn}, points: map[reflect.Type]func(*Rng) reflect.Value{}}
				mk := func(kind string) func(*Rng) reflect.Value {
					return func(r *Rng) reflect.Value { return pts[r.Intn(len(pts))].rep(kind, r) }
				}
				s.types = []reflect.Type{g.AffT, g.JacT}
				s.points[g.AffT] = mk("aff")
				s.points[g.JacT] = mk("jac")
				if g.ExtT != nil {
					s.points[g.ExtT] = mk("ext")
				}
				s.shim = c19ShimMethods(c, gn)
				// unexported point types with exported methods (g2Proj of the pairing loops), built through the shim
				if nf := c.shim("new." + g.lower + "Proj"); nf.IsValid() {
					if fa := c.shim(g.lower + "Proj.FromAffine"); fa.IsValid() {
						PT := nf.Call(nil)[0].Type().Elem()
						s.types = append(s.types, PT)
						s.points[PT] = func(r *Rng) reflect.Value {
							p := nf.Call(nil)[0]
							fa.Call([]reflect.Value{p, pts[r.Intn(len(pts))].rep("aff", r)})
							return p
						}
					}
				}
				out = append(out, s)
			}
		}
	}
	if want("eisenstein") {
		for n, T := range c19BigRings {
			out = append(out, &c19Suite{kind: "eisenstein", name: "ring:" + n, hdr: Ev{"ring": n}, types: []reflect.Type{T}})
		}
	}
	if want("edwards") {
		for _, en := range edwardsNames {
			e := edwards[en]
			f := e.F()
			pr := newRng(cfg.seed*104729 + uint64(len(en))*17 + uint64(en[len(en)-1]))
			_, _, _, base := e.params()
			mul := func(k *big.Int) reflect.Value {
				p := reflect.New(e.AffT)
				method(p, "ScalarMultiplication").Call([]reflect.Value{base, reflect.ValueOf(k)})
				return p
			}
			neg := func(a reflect.Value) reflect.Value {
				n := reflect.New(e.AffT)
				method(n, "Neg").Call([]reflect.Value{a})
				return n
			}
			id := reflect.New(e.AffT)
			f.SetRaw(id.Elem().Field(1).Addr(), f.ToMont(big.NewInt(1)))
			B1, B2 := mul(big.NewInt(1)), mul(big.NewInt(2))
			pts := []*edPoint{e.mkPoint("Id", id, pr), e.mkPoint("B", B1, pr), e.mkPoint("-B", neg(B1), pr), e.mkPoint("2B", B2, pr),
				e.mkPoint("-2B", neg(B2), pr), e.mkPoint("3B", mul(big.NewInt(3)), pr), e.mkPoint("kB", mul(pr.Below(f.Q)), pr),
				e.mkPoint("kB", mul(pr.Below(f.Q)), pr)}
			s := &c19Suite{kind: "edwards", name: "edwards:" + en, hdr: Ev{"edwards": en}, points: map[reflect.Type]func(*Rng) reflect.Value{},
				types: []reflect.Type{e.AffT, e.ProjT, e.ExtT}}
			mk := func(kind string) func(*Rng) reflect.Value {
				return func(r *Rng) reflect.Value {
					reps := pts[r.Intn(len(pts))].reps[kind]
					return clonePtr(reps[r.Intn(len(reps))])
				}
			}
			s.points[e.AffT] = mk("aff")
			s.points[e.ProjT] = mk("proj")
			s.points[e.ExtT] = mk("ext")
			out = append(out, s)
		}
	}
	return out
}

func runC19(args []string) {
	fs := flag.NewFlagSet("c19", flag.ExitOnError)
	out := fs.String("out", ".", "output directory")
	seed := fs.Uint64("seed", 1, "seed")
	tier := fs.String("tier", "quick", "quick|thorough")
	config := fs.String("config", "default", "label of the CPU configuration the binary runs under")
	only := fs.String("only", "", "comma separated suite kinds (field,ext,poly,tower,group,edwards,eisenstein); default all")
	kflag := fs.Int("k", 0, "draws per (method, partition); 0 = tier default")
	list := fs.Bool("list", false, "print the discovered methods and exit")
	fs.Parse(args)
	cfg := &c19Cfg{out: *out, seed: *seed, tier: *tier, config: *config}
	cfg.k = 4
	cfg.lens = []int{0, 1, 3, 16, 17, 35}
	if *tier == "thorough" {
		cfg.k = 24
		cfg.lens = []int{0, 1, 2, 3, 5, 8, 15, 16, 17, 31, 32, 33, 63, 64, 65, 130}
	}
	if *kflag > 0 {
		cfg.k = *kflag
	}
	onlyM := map[string]bool{}
	if *only != "" {
		for _, k := range strings.Split(*only, ",") {
			onlyM[k] = true
		}
	}
	suites := c19Suites(cfg, onlyM)
	st := &c19Stats{Excluded: map[string]string{}, Undrivable: map[string]string{}}
	if *list {
		for _, s := range suites {
			for _, T := range s.types {
				for _, m := range c19MethodsOf(T) {
					if m.aliasable() {
						fmt.Println(s.name, m.key(), m.ft.String(), m.cls)
					}
				}
			}
			for _, m := range s.shim {
				if m.aliasable() {
					fmt.Println(s.name, m.key(), m.ft.String(), m.cls)
				}
			}
		}
		return
	}
	for _, s := range suites {
		s.runSuite(cfg, st)
	}
	sort.Strings(st.Driven)
	b, _ := json.MarshalIndent(st, "", " ")
	os.WriteFile(filepath.Join(*out, "c19_summary_"+*config+".json"), b, 0o644)
	fmt.Printf("c19[%s]: %d methods, %d partitions, %d events, %d excluded, %d undrivable\n", *config, st.Methods, st.Partitions, st.Events,
		len(st.Excluded), len(st.Undrivable))
}
