package main

// C04 driver, protocol part: runs MultiExp in a build whose multiexp*.go / parallel/execute.go were
// instrumented at check time (tools/instrument) and logs the synchronisation points of every call.

import (
	"flag"
	"fmt"
	"reflect"
	"runtime"
	"strings"
	"time"

	"github.com/consensys/gnark-crypto/ecc"
	"github.com/consensys/gnark-crypto/utils/verifhook"
)

func init() { register("c04p", runC04P) }

func emitSync(t *TraceWriter, evs []verifhook.Event) {
	ids := map[uintptr]int{}
	gids := map[int]int{}
	for _, ev := range evs {
		if _, ok := gids[ev.Gid]; !ok {
			gids[ev.Gid] = len(gids) + 1
		}
		role := "other"
		if strings.HasPrefix(ev.Fn, "processChunk") {
			role = "proc"
		}
		e := Ev{"op": "pt", "k": ev.Kind, "fn": ev.Fn, "role": role, "lbl": ev.Label, "gr": gids[ev.Gid]}
		if ev.Obj != 0 {
			if _, ok := ids[ev.Obj]; !ok {
				ids[ev.Obj] = len(ids) + 1
			}
			e["id"] = ids[ev.Obj]
			e["cap"] = ev.Cap
		}
		t.Emit(e)
	}
}

func runC04P(args []string) {
	fs := flag.NewFlagSet("c04p", flag.ExitOnError)
	out := fs.String("out", ".", "output directory")
	seed := fs.Uint64("seed", 1, "seed")
	tier := fs.String("tier", "quick", "quick|thorough")
	only := fs.String("curves", "bn254", "comma separated curve names")
	fs.Parse(args)
	total := 0
	for _, name := range strings.Split(*only, ",") {
		c := curves[name]
		for _, gn := range []string{"G1", "G2"} {
			g := c.Group(gn)
			if g == nil || !g.NewJac().MethodByName("MultiExp").IsValid() {
				continue
			}
			r := newRng(*seed*31337 + uint64(len(name)) + uint64(gn[1]))
			t := newTrace(*out, "c04p_"+name+"_"+gn, Ev{"property": "C04", "curve": name, "g": gn, "numcpu": runtime.NumCPU(), "seed": int(*seed % (1 << 30))})
			reps := 2
			sizes := []int{1, 40, 700, 3000, 7000} // 7000: window c >= 10, chunk statistics, overweight chunks get split
			pats := []string{"lin", "few", "small"}
			tasks := []int{1, 2, 5, 15, 0}
			if *tier == "thorough" {
				reps = 12
			} else if name != "bn254" {
				reps, sizes, pats, tasks = 1, []int{40, 700}, []string{"lin", "few"}, []int{2, 15}
			}
			sc := 0
			for rep := 0; rep < reps; rep++ {
				for _, n := range sizes {
					if gn == "G2" && n > 700 && *tier != "thorough" {
						continue
					}
					for _, pat := range pats {
						rc := &recipe{pat: pat, n: n, A: r.Below(c.Fr.Q), B: r.Below(c.Fr.Q), C: r.Below(c.Fr.Q), D: r.Below(c.Fr.Q), r: c.Fr.Q}
						if pat == "few" {
							rc.D.SetUint64(0)
							for k := 0; k < c.Fr.Q.BitLen()-16; k += 11 {
								rc.D.SetBit(rc.D, k, 1)
							}
						}
						pts, scs := g.buildInputs(rc)
						for _, nt := range tasks {
							procs := []int{1, 2, 3, 8, 16}[(sc+rep)%5]
							prev := runtime.GOMAXPROCS(procs)
							recv := g.NewJac()
							sc++
							t.Emit(Ev{"op": "begin", "sc": sc, "n": n, "pat": pat, "nbTasks": nt, "procs": procs})
							verifhook.Start(*seed*1000 + uint64(sc))
							var pm string
							var pk bool
							if msmHangs >= 3 {
								continue
							}
							ok := withWatchdog(msmWatchdog, func() {
								_, pm, pk = call(method(recv, "MultiExp"), pts, scs, reflect.ValueOf(ecc.MultiExpConfig{NbTasks: nt}))
							})
							// let straggling goroutines (processors past their send) finish their last steps
							time.Sleep(2 * time.Millisecond)
							evs := verifhook.Stop()
							runtime.GOMAXPROCS(prev)
							emitSync(t, evs)
							end := Ev{"op": "end", "sc": sc, "nev": len(evs)}
							if !ok {
								msmHangs++
								end["hang"] = true
							}
							if pk {
								end["panic"] = pm
							}
							t.Emit(end)
						}
					}
				}
			}
			total += t.Close()
		}
	}
	fmt.Printf("c04p: %d events\n", total)
}
