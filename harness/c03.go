package main

// C03 driver: every scalar-multiplication entry point, for integer scalars of any sign and size.

import (
	"flag"
	"fmt"
	"math/big"
	"reflect"
	"strings"
)

func init() { register("c03", runC03) }

func scalarLattice(rOrder *big.Int, r *Rng, tier string, small bool) []*big.Int {
	one := big.NewInt(1)
	pow := func(k uint) *big.Int { return new(big.Int).Lsh(one, k) }
	neg := func(x *big.Int) *big.Int { return new(big.Int).Neg(x) }
	add := func(x *big.Int, d int64) *big.Int { return new(big.Int).Add(x, big.NewInt(d)) }
	out := []*big.Int{big.NewInt(0), big.NewInt(1), big.NewInt(-1), big.NewInt(2), add(rOrder, -1), new(big.Int).Set(rOrder),
		add(rOrder, 1), neg(rOrder), pow(256), add(pow(256), 5), r.Below(rOrder), neg(r.Below(rOrder))}
	// word-aligned scalars (low 64-bit words zero)
	out = append(out, neg(new(big.Int).Lsh(big.NewInt(3), 64)), new(big.Int).Lsh(big.NewInt(5), 128))
	if !small {
		out = append(out, pow(64), add(pow(128), -1), pow(255), add(new(big.Int).Mul(rOrder, big.NewInt(3)), 7), r.Big(600),
			neg(add(pow(320), 1)), r.Below(pow(127)), add(pow(uint(rOrder.BitLen())), -1))
	}
	if !small || tier == "thorough" {
		// thousands of bits (cheap for the oracle over a prime field; G2 only in the thorough tier)
		out = append(out, add(pow(3000), 1), neg(add(pow(1500), -1)))
	}
	if tier == "thorough" {
		for i := 0; i < 12; i++ {
			out = append(out, r.Below(rOrder), neg(r.Big(rOrder.BitLen()+r.Intn(80))))
		}
		for k := uint(1); k < uint(rOrder.BitLen())+3; k += 13 {
			out = append(out, pow(k), add(pow(k), -1))
		}
	}
	return out
}

// usedKind: a receiver that already holds an unrelated point ([7]G): a result must overwrite it (s = 0, P = O)
func (g *Group) usedKind(rk string) reflect.Value {
	switch rk {
	case "aff":
		return g.MulGen(big.NewInt(7))
	case "jac":
		return g.ToJac(g.MulGen(big.NewInt(7)))
	}
	return g.newKind(rk)
}

func (g *Group) smEvent(t *TraceWriter, op, rk string, P reflect.Value, pk string, s *big.Int, base bool) {
	recv := g.usedKind(rk)
	if !recv.MethodByName(op).IsValid() && !g.C.shim(g.typeName(rk)+"."+op).IsValid() {
		return // this group does not have the entry point
	}
	e := Ev{"op": op, "g": g.G, "rk": rk, "s": zint(s)}
	var args []reflect.Value
	var keep reflect.Value
	if !base {
		keep = clonePtr(P)
		e["P"] = tagged(pk, keep)
		args = append(args, keep)
	}
	sc := new(big.Int).Set(s)
	args = append(args, reflect.ValueOf(sc))
	out, pm, pkd := g.invoke(rk, op, recv, args)
	_ = out
	if pkd {
		e["panic"] = pm
	} else {
		e["out"] = tagged(rk, recv)
		if !base {
			e["Pafter"] = tagged(pk, keep)
		}
		e["safter"] = zint(sc)
	}
	t.Emit(e)
}

func (g *Group) jointEvent(t *TraceWriter, op string, P1, P2 reflect.Value, s1, s2 *big.Int) {
	recv := g.usedKind("jac")
	if !recv.MethodByName(op).IsValid() {
		return
	}
	e := Ev{"op": op, "g": g.G, "rk": "jac", "s1": zint(s1), "s2": zint(s2), "P1": tagged("aff", P1)}
	var args []reflect.Value
	// stark-curve's JointScalarMultiplication takes Jacobian operands
	conv := func(a reflect.Value, i int) reflect.Value {
		if recv.MethodByName(op).Type().In(i) == reflect.PtrTo(g.JacT) {
			return g.ToJac(a)
		}
		return clonePtr(a)
	}
	args = append(args, conv(P1, 0))
	if op == "JointScalarMultiplication" {
		e["P2"] = tagged("aff", P2)
		args = append(args, conv(P2, 1))
	}
	args = append(args, reflect.ValueOf(new(big.Int).Set(s1)), reflect.ValueOf(new(big.Int).Set(s2)))
	_, pm, pk := g.invoke("jac", op, recv, args)
	if pk {
		e["panic"] = pm
	} else {
		e["out"] = tagged("jac", recv)
	}
	t.Emit(e)
}

func (g *Group) batchEvent(t *TraceWriter, base reflect.Value, n int, r *Rng) {
	fn, ok := g.C.Funcs["BatchScalarMultiplication"+g.G]
	if !ok {
		return
	}
	fr := g.C.Fr
	sl := reflect.MakeSlice(reflect.SliceOf(fr.ElemT), n, n)
	var raws [][]int
	for i := 0; i < n; i++ {
		var v *big.Int
		switch i % 5 {
		case 3:
			v = big.NewInt(0) // zero scalars in the middle of the batch (identity results)
		case 0:
			v = big.NewInt(int64(i / 5)) // 0, 1, 2 ...
		case 1:
			v = new(big.Int).Sub(fr.Q, big.NewInt(int64(1+i/5)))
		default:
			v = r.Below(fr.Q)
		}
		raw := fr.ToMont(v)
		fr.SetRaw(sl.Index(i).Addr(), raw)
		raws = append(raws, digits(raw))
	}
	if raws == nil {
		raws = [][]int{}
	}
	e := Ev{"op": "BatchScalarMultiplication", "g": g.G, "P": tagged("aff", base), "scalars": raws}
	out, pm, pk := call(fn, clonePtr(base), sl)
	if pk {
		e["panic"] = pm
	} else {
		res := []any{}
		for i := 0; i < out[0].Len(); i++ {
			res = append(res, tagged("aff", out[0].Index(i).Addr()))
		}
		e["outs"] = res
	}
	t.Emit(e)
}

// batchSampledEvent runs a large batch and logs a sample of (index, scalar, result): scalars with the top
// bit set (q-1-j), small ones, zero and random ones
func (g *Group) batchSampledEvent(t *TraceWriter, base reflect.Value, n int, r *Rng) {
	fn, ok := g.C.Funcs["BatchScalarMultiplication"+g.G]
	if !ok {
		return
	}
	fr := g.C.Fr
	sl := reflect.MakeSlice(reflect.SliceOf(fr.ElemT), n, n)
	raws := make([][]int, n)
	top := new(big.Int).Lsh(big.NewInt(1), uint(fr.Q.BitLen()-1))
	for i := 0; i < n; i++ {
		var v *big.Int
		switch i % 6 {
		case 3:
			v = big.NewInt(0)
		case 0:
			v = big.NewInt(int64(i / 6))
		case 1:
			v = new(big.Int).Sub(fr.Q, big.NewInt(int64(1+i/6)))
		case 4:
			// top bit of the order set, random below: the last window takes its largest digits
			v = new(big.Int).Add(top, r.Below(new(big.Int).Sub(fr.Q, top)))
		default:
			v = r.Below(fr.Q)
		}
		raw := fr.ToMont(v)
		fr.SetRaw(sl.Index(i).Addr(), raw)
		raws[i] = digits(raw)
	}
	e := Ev{"op": "BatchScalarMultiplication.sampled", "g": g.G, "P": tagged("aff", base), "n": n}
	out, pm, pk := call(fn, clonePtr(base), sl)
	if pk {
		e["panic"] = pm
	} else {
		idx := []int{}
		scs := [][]int{}
		res := []any{}
		step := n / 12
		for k := 0; k < 14 && out[0].Len() > 0; k++ {
			i := (k*step + k%6 + int(r.Below(big.NewInt(int64(step))).Int64())/6*6) % out[0].Len()
			idx = append(idx, i+1)
			scs = append(scs, raws[i])
			res = append(res, tagged("aff", out[0].Index(i).Addr()))
		}
		e["nouts"] = out[0].Len()
		e["idx"] = idx
		e["scalars"] = scs
		e["outs"] = res
	}
	t.Emit(e)
}

func runC03(args []string) {
	fs := flag.NewFlagSet("c03", flag.ExitOnError)
	out := fs.String("out", ".", "output directory")
	seed := fs.Uint64("seed", 1, "seed")
	tier := fs.String("tier", "quick", "quick|thorough")
	only := fs.String("curves", "", "comma separated curve names (default all)")
	fs.Parse(args)
	names := curveNames
	if *only != "" {
		names = strings.Split(*only, ",")
	}
	total := 0
	for _, name := range names {
		c := curves[name]
		for _, gn := range []string{"G1", "G2"} {
			g := c.Group(gn)
			if g == nil {
				continue
			}
			r := newRng(*seed*6151 + uint64(len(name))*37 + uint64(gn[1]))
			t := newTrace(*out, "c03_"+name+"_"+gn, Ev{"property": "C03", "curve": name, "g": gn, "seed": int(*seed % (1 << 30))})
			slow := gn == "G2" && (strings.HasPrefix(name, "bls"))
			scalars := scalarLattice(c.Fr.Q, r, *tier, slow && *tier != "thorough")
			inf := g.NewAff()
			kG := g.MulGen(r.Below(c.Fr.Q))
			pts := []reflect.Value{g.GenAff, kG, inf}
			for pi, P := range pts {
				jP := g.ToJac(P)
				if pi == 1 {
					jP = g.RescaleJac(jP, g.RandCoord(r))
				}
				for si, s := range scalars {
					if pi == 2 && si%4 != 0 {
						continue
					}
					g.smEvent(t, "ScalarMultiplication", "aff", P, "aff", s, false)
					g.smEvent(t, "ScalarMultiplication", "jac", jP, "jac", s, false)
					for _, v := range []string{"mulWindowed", "mulGLV"} {
						if g.C.shim(g.G + "Jac." + v).IsValid() {
							g.smEvent(t, v, "jac", jP, "jac", s, false)
						}
					}
					if pi == 0 {
						g.smEvent(t, "ScalarMultiplicationBase", "aff", P, "aff", s, true)
						g.smEvent(t, "ScalarMultiplicationBase", "jac", P, "aff", s, true)
					}
				}
			}
			// joint (Straus-Shamir) multiplications
			if g.NewJac().MethodByName("JointScalarMultiplication").IsValid() {
				nj := 10
				if *tier == "thorough" {
					nj = 60
				}
				if slow && *tier != "thorough" {
					nj = 5
				}
				for i := 0; i < nj; i++ {
					s1 := scalars[(i*7+3)%len(scalars)]
					s2 := scalars[(i*5+1)%len(scalars)]
					P1 := pts[i%2]
					P2 := pts[(i/2)%3]
					g.jointEvent(t, "JointScalarMultiplication", P1, P2, s1, s2)
					g.jointEvent(t, "JointScalarMultiplicationBase", P1, P1, s1, s2)
				}
			}
			for _, n := range []int{0, 1, 2, 4, 17} {
				if slow && n > 2 && *tier != "thorough" {
					n = 6
				}
				g.batchEvent(t, kG, n, r)
			}
			// large batches: the window chosen by BatchScalarMultiplication grows with n (the maximum is
			// reached a little below 4000 scalars); sampled indices are judged
			big := []int{4500}
			if gn == "G1" || !slow {
				// far beyond every threshold of the window search (a search that runs one window too far only shows
				// above 24576 scalars on the 255-bit scalar fields)
				big = append(big, 30000)
			}
			if *tier == "thorough" {
				big = []int{600, 1500, 4500, 40000}
			}
			if gn == "G2" && slow && *tier != "thorough" {
				big = nil
			}
			for _, n := range big {
				g.batchSampledEvent(t, kG, n, r)
			}
			total += t.Close()
		}
	}
	// twisted Edwards scalar multiplications
	if *only == "" {
		for _, name := range edwardsNames {
			e := edwards[name]
			f := e.F()
			r := newRng(*seed*2741 + uint64(len(name))*29 + uint64(name[len(name)-1]))
			t := newTrace(*out, "c03ed_"+name, Ev{"property": "C03", "edwards": name, "seed": int(*seed % (1 << 30))})
			_, _, order, base := e.params()
			scalars := scalarLattice(order, r, *tier, false)
			kB := reflect.New(e.AffT)
			method(kB, "ScalarMultiplication").Call([]reflect.Value{base, reflect.ValueOf(r.Below(order))})
			id := reflect.New(e.AffT)
			f.SetRaw(id.Elem().Field(1).Addr(), f.ToMont(big.NewInt(1)))
			kBp := e.mkPoint("kB", kB, r)
			for pi, P := range []reflect.Value{base, kB, id} {
				ep := e.mkPoint("P", P, r)
				for si, s := range scalars {
					if pi == 2 && si%4 != 0 {
						continue
					}
					for _, k := range []string{"aff", "proj", "ext"} {
						reps := ep.reps[k]
						in := clonePtr(reps[r.Intn(len(reps))])
						recv := clonePtr(kBp.reps[k][0]) // a receiver that already holds another point
						ev := Ev{"op": "ScalarMultiplication", "rk": k, "s": zint(s), "P": tagged(k, in)}
						_, pm, pk := call(method(recv, "ScalarMultiplication"), in, reflect.ValueOf(new(big.Int).Set(s)))
						if pk {
							ev["panic"] = pm
						} else {
							ev["out"] = tagged(k, recv)
							ev["Pafter"] = tagged(k, in)
						}
						t.Emit(ev)
					}
				}
			}
			total += t.Close()
		}
	}
	fmt.Printf("c03: %d events\n", total)
}
