package main

// X02 (extension beyond the listed properties): the integer utilities of package ecc (NafDecomposition,
// PrecomputeLattice, SplitScalar, NextPowerOfTwo), judged by spec/X02_eccutils/TraceEccUtils.

import (
	"flag"
	"fmt"
	"math/big"
	"reflect"

	"github.com/consensys/gnark-crypto/ecc"
)

func init() { register("x02", runX02) }

func runX02(args []string) {
	fs := flag.NewFlagSet("x02", flag.ExitOnError)
	out := fs.String("out", ".", "output directory")
	seed := fs.Uint64("seed", 1, "seed")
	tier := fs.String("tier", "quick", "quick|thorough")
	fs.Parse(args)
	r := newRng(*seed*4099 + 5)
	t := newTrace(*out, "x02_eccutils", Ev{"property": "X02", "seed": int(*seed % (1 << 30))})
	thorough := *tier == "thorough"
	pow := func(k uint) *big.Int { return new(big.Int).Lsh(big.NewInt(1), k) }

	// ---- NAF: every integer 0..2^10, word boundaries, runs of ones, random sizes
	var as []*big.Int
	top := int64(1 << 10)
	if thorough {
		top = 1 << 14
	}
	for a := int64(0); a <= top; a++ {
		as = append(as, big.NewInt(a))
	}
	for _, k := range []uint{31, 32, 63, 64, 65, 127, 128, 255, 256, 377, 761} {
		as = append(as, pow(k), new(big.Int).Sub(pow(k), big.NewInt(1)), new(big.Int).Add(pow(k), big.NewInt(1)), new(big.Int).Sub(pow(k), big.NewInt(3)))
		as = append(as, new(big.Int).Div(pow(k), big.NewInt(3))) // 0101...01
		as = append(as, r.Below(pow(k)))
	}
	for _, a := range as {
		a0 := new(big.Int).Set(a)
		res := make([]int8, a.BitLen()+2)
		e := Ev{"op": "Naf", "a": digits(a)}
		var n int
		_, pm, pk := call(reflect.ValueOf(func() { n = ecc.NafDecomposition(a0, res) }))
		if pk {
			e["panic"] = pm
		} else {
			ds := make([]int, 0, n)
			for i := 0; i < n && i < len(res); i++ {
				ds = append(ds, int(res[i])+1)
			}
			e["len"], e["ds"], e["aafter"] = n, ds, digits(a0)
		}
		t.Emit(e)
	}

	// ---- lattices and scalar splitting: group orders of the library's curves with a cube root of unity, small primes,
	// arbitrary lambda
	type rl struct{ r, l *big.Int }
	var pairs []rl
	cube := func(q *big.Int) *big.Int {
		qm1 := new(big.Int).Sub(q, big.NewInt(1))
		if new(big.Int).Mod(qm1, big.NewInt(3)).Sign() != 0 {
			return nil
		}
		e := new(big.Int).Div(qm1, big.NewInt(3))
		for g := int64(2); g < 50; g++ {
			w := new(big.Int).Exp(big.NewInt(g), e, q)
			if w.Cmp(big.NewInt(1)) != 0 {
				return w
			}
		}
		return nil
	}
	for _, name := range fieldNames {
		f := fields[name]
		if f.Q.BitLen() < 64 {
			continue
		}
		if w := cube(f.Q); w != nil {
			pairs = append(pairs, rl{f.Q, w}, rl{f.Q, new(big.Int).Mul(w, w).Mod(new(big.Int).Mul(w, w), f.Q)})
		}
		pairs = append(pairs, rl{f.Q, r.Below(f.Q)})
	}
	for _, q := range []int64{7, 13, 31, 97, 1009, 65537, 4294967311} {
		Q := big.NewInt(q)
		if w := cube(Q); w != nil {
			pairs = append(pairs, rl{Q, w})
		}
		pairs = append(pairs, rl{Q, new(big.Int).Add(big.NewInt(2), r.Below(new(big.Int).Sub(Q, big.NewInt(2))))})
	}
	zv := func(v [2]big.Int) []any { return []any{zint(&v[0]), zint(&v[1])} }
	for _, p := range pairs {
		var l ecc.Lattice
		e := Ev{"op": "Lattice", "r": digits(p.r), "lambda": digits(p.l)}
		_, pm, pk := call(reflect.ValueOf(func() { ecc.PrecomputeLattice(new(big.Int).Set(p.r), new(big.Int).Set(p.l), &l) }))
		if pk {
			e["panic"] = pm
			t.Emit(e)
			continue
		}
		e["V1"], e["V2"], e["Det"] = zv(l.V1), zv(l.V2), zint(&l.Det)
		t.Emit(e)
		ss := []*big.Int{big.NewInt(0), big.NewInt(1), big.NewInt(2), new(big.Int).Sub(p.r, big.NewInt(1)), new(big.Int).Set(p.r), new(big.Int).Rsh(p.r, 1),
			new(big.Int).Set(p.l), new(big.Int).Neg(big.NewInt(1)), new(big.Int).Neg(r.Below(p.r)), new(big.Int).Lsh(p.r, 70), r.Below(new(big.Int).Lsh(p.r, 130))}
		ns := 6
		if thorough {
			ns = 60
		}
		for i := 0; i < ns; i++ {
			ss = append(ss, r.Below(p.r))
		}
		for _, s := range ss {
			s0 := new(big.Int).Set(s)
			ev := Ev{"op": "Split", "r": digits(p.r), "lambda": digits(p.l), "s": zint(s), "V1": zv(l.V1), "V2": zv(l.V2)}
			var uv [2]big.Int
			_, pm, pk := call(reflect.ValueOf(func() { uv = ecc.SplitScalar(s0, &l) }))
			if pk {
				ev["panic"] = pm
			} else {
				ev["u"], ev["v"], ev["safter"] = zint(&uv[0]), zint(&uv[1]), zint(s0)
			}
			t.Emit(ev)
		}
	}

	// ---- NextPowerOfTwo
	var ns []uint64
	for n := uint64(0); n <= 70; n++ {
		ns = append(ns, n)
	}
	for k := uint(7); k < 64; k++ {
		ns = append(ns, 1<<k-1, 1<<k, 1<<k+1)
	}
	ns = append(ns, 1<<63+5, ^uint64(0), ^uint64(0)-1, r.U64(), r.U64()>>13)
	for _, n := range ns {
		e := Ev{"op": "NextPow2", "n": digits(new(big.Int).SetUint64(n))}
		var o uint64
		_, pm, pk := call(reflect.ValueOf(func() { o = ecc.NextPowerOfTwo(n) }))
		if pk {
			e["panic"] = pm
		} else {
			e["out"] = digits(new(big.Int).SetUint64(o))
		}
		t.Emit(e)
	}
	fmt.Printf("x02: %d events\n", t.Close())
}
