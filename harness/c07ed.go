package main

// C07 driver (part 3: twisted Edwards companions - PointAffine.Bytes / Marshal / SetBytes / Unmarshal).
// Inputs: sign bit x payload class (y of a subgroup point, of curve points of small order, y = +-1 (x = 0),
// y without an x, y = q, q+1, y+q when it fits, all payload bits set), every buffer length, seeded random strings.

import (
	"fmt"
	"math/big"
	"reflect"
)

func (e *Edwards) c07Bytes(t *TraceWriter, op string, p reflect.Value, label string) []byte {
	q := clonePtr(p)
	if !q.MethodByName(op).IsValid() {
		return nil
	}
	ev := Ev{"op": op, "p": enc(q), "label": label}
	out, pm, pk := call(method(q, op))
	var b []byte
	if pk {
		ev["panic"] = pm
	} else {
		b = c07ArrayBytes(out[0])
		ev["out"] = bytesToInts(b)
		ev["pa"] = enc(q)
	}
	t.Emit(ev)
	return b
}

func (e *Edwards) c07Set(t *TraceWriter, op string, buf []byte, cls string, recv reflect.Value) {
	p := clonePtr(recv)
	if !p.MethodByName(op).IsValid() {
		return
	}
	b := append([]byte{}, buf...)
	ev := Ev{"op": op, "buf": bytesToInts(buf), "cls": cls}
	out, pm, pk := call(method(p, op), reflect.ValueOf(b))
	if pk {
		ev["panic"] = pm
	} else {
		if op == "SetBytes" {
			ev["n"] = int(out[0].Int())
		}
		if s, isErr := c07ErrOf(out[len(out)-1]); isErr {
			ev["err"] = s
		} else {
			ev["out"] = enc(p)
		}
		ev["bufa"] = bytesToInts(b)
	}
	t.Emit(ev)
}

func c07RunEdwards(out string, seed uint64, tier string) int {
	total := 0
	nRand, nFuzz := 3, 60
	if tier == "thorough" {
		nRand, nFuzz = 12, 600
	}
	for _, name := range edwardsNames {
		e := edwards[name]
		f := e.F()
		r := newRng(seed*7243 + uint64(len(name))*19 + uint64(name[len(name)-1]))
		t := newTrace(out, "c07_ed_"+name, Ev{"property": "C07", "kind": "ed", "edwards": name, "seed": int(seed % (1 << 30))})
		a, d, _, base := e.params()
		nB := f.NBytes
		mul := func(p reflect.Value, k *big.Int) reflect.Value {
			z := reflect.New(e.AffT)
			method(z, "ScalarMultiplication").Call([]reflect.Value{p, reflect.ValueOf(k)})
			return z
		}
		neg := func(p reflect.Value) reflect.Value {
			z := reflect.New(e.AffT)
			method(z, "Neg").Call([]reflect.Value{p})
			return z
		}
		mk := func(x, y *big.Int) reflect.Value {
			z := reflect.New(e.AffT)
			f.SetRaw(z.Elem().Field(0).Addr(), f.ToMont(x))
			f.SetRaw(z.Elem().Field(1).Addr(), f.ToMont(y))
			return z
		}
		// x^2 for a given y, and whether it is a square (math/big only: input construction)
		xx := func(y *big.Int) (*big.Int, bool) {
			yy := new(big.Int).Mul(y, y)
			yy.Mod(yy, f.Q)
			u := new(big.Int).Sub(big.NewInt(1), yy)
			v := new(big.Int).Mul(d, yy)
			v.Sub(a, v).Mod(v, f.Q)
			if v.Sign() == 0 {
				return nil, false
			}
			u.Mul(u, new(big.Int).ModInverse(v, f.Q)).Mod(u, f.Q)
			return u, u.Sign() == 0 || big.Jacobi(u, f.Q) == 1
		}
		one := big.NewInt(1)
		id := mk(new(big.Int), one)
		type lp struct {
			l string
			p reflect.Value
		}
		pts := []lp{{"Id", id}, {"B", base}, {"-B", neg(base)}, {"2B", mul(base, big.NewInt(2))}, {"(0,-1)", mk(new(big.Int), new(big.Int).Sub(f.Q, one))}}
		for i := 0; i < nRand; i++ {
			pts = append(pts, lp{"kB", mul(base, r.Below(f.Q))})
		}
		// curve points outside the subgroup: random y with a root, x by the library's Sqrt (construction only)
		for i := 0; i < nRand; {
			y := r.Below(f.Q)
			u, ok := xx(y)
			if !ok {
				continue
			}
			x := new(big.Int).ModSqrt(u, f.Q)
			pts = append(pts, lp{"N", mk(x, y)})
			i++
		}
		recv := pts[3].p
		feed := func(b []byte, cls string) {
			e.c07Set(t, "SetBytes", b, cls, recv)
			e.c07Set(t, "Unmarshal", b, cls, recv)
		}
		for _, p := range pts {
			var outs [][]byte
			for _, op := range []string{"Bytes", "Marshal"} {
				if b := e.c07Bytes(t, op, p.p, p.l); b != nil {
					outs = append(outs, b)
				}
			}
			for _, b := range outs {
				feed(b, "rt:"+p.l)
				feed(append(append([]byte{}, b...), r.Bytes(2)...), "rt+tail:"+p.l)
			}
		}
		// lattice
		le := func(y *big.Int, sign int) []byte {
			b := make([]byte, nB)
			y.FillBytes(b)
			for i, j := 0, nB-1; i < j; i, j = i+1, j-1 {
				b[i], b[j] = b[j], b[i]
			}
			b[nB-1] |= byte(sign << 7)
			return b
		}
		val := func(v reflect.Value) *big.Int {
			x := new(big.Int).Mul(rawOfElem(v), f.Rinv)
			return x.Mod(x, f.Q)
		}
		by := val(base.Elem().Field(1))
		var noroot *big.Int
		for y := int64(2); ; y++ {
			if _, ok := xx(big.NewInt(y)); !ok {
				noroot = big.NewInt(y)
				break
			}
		}
		payloadMax := new(big.Int).Sub(new(big.Int).Lsh(one, uint(8*nB-1)), one)
		ys := map[string]*big.Int{"yB": by, "1": one, "-1": new(big.Int).Sub(f.Q, one), "0": new(big.Int), "noroot": noroot,
			"q": f.Q, "q+1": new(big.Int).Add(f.Q, one), "max": payloadMax, "noroot-rand": nil}
		if s := new(big.Int).Add(by, f.Q); s.Cmp(payloadMax) <= 0 {
			ys["yB+q"] = s
		}
		for {
			y := r.Below(f.Q)
			if _, ok := xx(y); !ok {
				ys["noroot-rand"] = y
				break
			}
		}
		for _, nm := range []string{"yB", "1", "-1", "0", "noroot", "noroot-rand", "q", "q+1", "yB+q", "max"} {
			y := ys[nm]
			if y == nil {
				continue
			}
			for sign := 0; sign < 2; sign++ {
				feed(le(y, sign), fmt.Sprintf("y=%s/s%d", nm, sign))
			}
		}
		full := le(by, 0)
		lens := []int{0, 1, nB - 1}
		if tier == "thorough" {
			lens = nil
			for k := 0; k < nB; k++ {
				lens = append(lens, k)
			}
		}
		for _, k := range lens {
			feed(full[:k], fmt.Sprintf("len:%d", k))
		}
		for i := 0; i < nFuzz; i++ {
			b := r.Bytes(nB)
			switch i % 3 {
			case 1: // below q
				b = le(r.Below(f.Q), r.Intn(2))
			case 2: // one flipped bit of a valid encoding
				b = c07ArrayBytes(method(mul(base, r.Below(f.Q)), "Bytes").Call(nil)[0])
				bit := r.Intn(8 * nB)
				b[bit/8] ^= 1 << uint(bit%8)
			}
			feed(b, "rand")
		}
		total += t.Close()
	}
	return total
}
