package main

import (
	"fmt"
	"os"
)

var commands = map[string]func([]string){}

func main() {
	commands["c01"] = runC01
	commands["params"] = runParams
	if len(os.Args) < 2 {
		fmt.Fprintln(os.Stderr, "usage: harness <command> [flags]")
		os.Exit(2)
	}
	c, ok := commands[os.Args[1]]
	if !ok {
		fmt.Fprintf(os.Stderr, "unknown command %s\n", os.Args[1])
		os.Exit(2)
	}
	c(os.Args[2:])
}
