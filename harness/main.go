package main

import (
	"fmt"
	"os"
	"sort"
)

// commands are registered by the init() function of each driver file (c01.go, ...).
var commands = map[string]func([]string){}

func register(name string, f func([]string)) { commands[name] = f }

func main() {
	linkRegistries()
	if len(os.Args) < 2 || commands[os.Args[1]] == nil {
		var n []string
		for k := range commands {
			n = append(n, k)
		}
		sort.Strings(n)
		fmt.Fprintln(os.Stderr, "usage: harness <command> [flags]; commands:", n)
		os.Exit(2)
	}
	commands[os.Args[1]](os.Args[2:])
}
