package main

// C07 driver (part 2: streaming Encoder / Decoder).
//
// A scenario encodes a program (a sequence of typed values) with the real Encoder into a
// recording writer, then hands the produced bytes - as they are, truncated at k, or with one
// byte overwritten - to real Decoders behind a counting reader that delivers the bytes in
// chunks (full, 1, 3, 7, 13 bytes, or the last chunk together with io.EOF). Every Encode /
// Decode call is one event with the value, the bytes that reached the writer / left the reader
// during the call, BytesWritten / BytesRead before and after, the error, a recovered panic.
// After the call that returns an error a decoding scenario stops (the position in the stream is
// unspecified from there on).

import (
	"errors"
	"fmt"
	"io"
	"math/big"
	"reflect"
	"strings"
)

// ---------------------------------------------------------------------------------------
// counting reader with a chunking policy

type c07Reader struct {
	data      []byte
	pos       int
	chunk     int  // 0 = as much as asked
	dataErr   bool // deliver the last bytes together with io.EOF
	delivered int
}

func (r *c07Reader) Read(p []byte) (int, error) {
	if len(p) == 0 {
		return 0, nil
	}
	if r.pos >= len(r.data) {
		return 0, io.EOF
	}
	n := len(p)
	if r.chunk > 0 && n > r.chunk {
		n = r.chunk
	}
	if n > len(r.data)-r.pos {
		n = len(r.data) - r.pos
	}
	copy(p, r.data[r.pos:r.pos+n])
	r.pos += n
	r.delivered += n
	if r.dataErr && r.pos == len(r.data) {
		return n, io.EOF
	}
	return n, nil
}

func c07NewReader(data []byte, chunk string) *c07Reader {
	r := &c07Reader{data: data}
	switch chunk {
	case "full":
	case "dataerr":
		r.dataErr = true
	default:
		fmt.Sscan(chunk, &r.chunk)
	}
	return r
}

// recording writer; refuses exactly one Write call (failCall, 1-based; 0 = never) and recovers
type c07Writer struct {
	buf      []byte
	calls    int
	failCall int
	refused  bool // a Write was refused since the flag was last cleared
}

var errC07Writer = errors.New("c07: writer refused this write")

func (w *c07Writer) Write(p []byte) (int, error) {
	w.calls++
	if w.calls == w.failCall {
		w.refused = true
		return 0, errC07Writer
	}
	w.buf = append(w.buf, p...)
	return len(p), nil
}

// ---------------------------------------------------------------------------------------
// decoder / encoder wrappers emitting events

type c07Dec struct {
	t   *TraceWriter
	c   *Curve
	r   *c07Reader
	dec reflect.Value
}

func newC07Dec(t *TraceWriter, c *Curve, src Ev, wire []byte, chunk string, sg bool) *c07Dec {
	d := &c07Dec{t: t, c: c, r: c07NewReader(wire, chunk)}
	e := Ev{"op": "NewDecoder", "sg": sg, "src": src, "chunk": chunk}
	if src["k"] == "bytes" {
		e["wire"] = bytesToInts(wire)
	}
	args := []reflect.Value{reflect.ValueOf(io.Reader(d.r))}
	if !sg {
		args = append(args, c.Funcs["NoSubgroupChecks"].Call(nil)[0])
	}
	out, pm, pk := call(c.Funcs["NewDecoder"], args...)
	if pk {
		e["panic"] = pm
	} else {
		d.dec = out[0]
	}
	t.Emit(e)
	return d
}

func (d *c07Dec) bytesRead() int { return int(method(d.dec, "BytesRead").Call(nil)[0].Int()) }

// decode calls Decode(target) (target is a pointer) and logs the event; reports whether the call returned no error
func (d *c07Dec) decode(ty string, target reflect.Value, extra Ev) bool {
	e := Ev{"op": "Decode", "ty": ty, "gty": target.Type().String()}
	for k, v := range extra {
		e[k] = v
	}
	if !d.dec.IsValid() {
		return false
	}
	n0, d0 := d.bytesRead(), d.r.delivered
	e["n0"] = n0
	out, pm, pk := call(method(d.dec, "Decode"), target)
	e["used"] = d.r.delivered - d0
	ok := false
	if pk {
		e["panic"] = pm
	} else {
		e["n"] = d.bytesRead()
		if s, isErr := c07ErrOf(out[0]); isErr {
			e["err"] = s
		} else {
			e["val"] = c07enc(target)
			ok = true
		}
	}
	d.t.Emit(e)
	return ok
}

type c07Enc struct {
	t   *TraceWriter
	c   *Curve
	w   *c07Writer
	enc reflect.Value
}

func newC07Enc(t *TraceWriter, c *Curve, raw bool, failCall int) *c07Enc {
	en := &c07Enc{t: t, c: c, w: &c07Writer{failCall: failCall}}
	e := Ev{"op": "NewEncoder", "raw": raw, "failcall": failCall}
	args := []reflect.Value{reflect.ValueOf(io.Writer(en.w))}
	if raw {
		args = append(args, c.Funcs["RawEncoding"].Call(nil)[0])
	}
	out, pm, pk := call(c.Funcs["NewEncoder"], args...)
	if pk {
		e["panic"] = pm
	} else {
		en.enc = out[0]
	}
	t.Emit(e)
	return en
}

// encode calls Encode(arg); val is the canonical form of the value (logged before and after the call)
func (en *c07Enc) encode(ty string, arg reflect.Value, val reflect.Value) {
	e := Ev{"op": "Encode", "ty": ty, "gty": arg.Type().String(), "val": c07enc(val)}
	n0 := int(method(en.enc, "BytesWritten").Call(nil)[0].Int())
	l0 := len(en.w.buf)
	en.w.refused = false
	e["n0"] = n0
	out, pm, pk := call(method(en.enc, "Encode"), arg)
	e["out"] = bytesToInts(en.w.buf[l0:])
	if en.w.refused {
		e["werr"] = true
	}
	if pk {
		e["panic"] = pm
	} else {
		e["n"] = int(method(en.enc, "BytesWritten").Call(nil)[0].Int())
		if s, isErr := c07ErrOf(out[0]); isErr {
			e["err"] = s
		}
		e["vala"] = c07enc(val)
	}
	en.t.Emit(e)
}

// ---------------------------------------------------------------------------------------
// typed values

func (c *Curve) c07Type(ty string) reflect.Type {
	switch ty {
	case "u64":
		return reflect.TypeOf(uint64(0))
	case "u32":
		return reflect.TypeOf(uint32(0))
	case "su64":
		return reflect.TypeOf([]uint64{})
	case "ssu64":
		return reflect.TypeOf([][]uint64{})
	case "fr":
		return c.Fr.ElemT
	case "fp":
		return c.Fp.ElemT
	case "vfr":
		return reflect.SliceOf(c.Fr.ElemT)
	case "vfp":
		return reflect.SliceOf(c.Fp.ElemT)
	case "vvfr":
		return reflect.SliceOf(reflect.SliceOf(c.Fr.ElemT))
	case "vvvfr":
		return reflect.SliceOf(reflect.SliceOf(reflect.SliceOf(c.Fr.ElemT)))
	case "g1":
		return c.Types["G1Affine"]
	case "g2":
		return c.Types["G2Affine"]
	case "sg1":
		return reflect.SliceOf(c.Types["G1Affine"])
	case "sg2":
		return reflect.SliceOf(c.Types["G2Affine"])
	}
	fatal("c07: unknown type %s", ty)
	return nil
}

// types the curve's Encoder / Decoder handle with a length-prefixed or fixed layout
func (c *Curve) c07Types() []string {
	if c.Name == "stark-curve" { // hand-written codec: no integer slices, no nested vectors
		return []string{"u64", "u32", "fr", "fp", "vfr", "vfp", "g1", "sg1"}
	}
	ts := []string{"u64", "u32", "su64", "ssu64", "fr", "fp", "vfr", "vfp", "vvfr", "vvvfr", "g1", "sg1"}
	if c.HasG2() {
		ts = append(ts, "g2", "sg2")
	}
	return ts
}

type c07Streams struct {
	c      *Curve
	r      *Rng
	g      map[string]*c07G
	encPts map[string][]reflect.Value // points that may be encoded, per group
}

// gen returns an addressable value of the canonical Go type of ty. Nested vectors only carry small
// elements: when a decoder goes on after a refused element (finding F5) it reads lengths from
// misaligned element bytes - with small values these stay small.
func (s *c07Streams) gen(ty string, nested bool) reflect.Value {
	c, r := s.c, s.r
	v := reflect.New(c.c07Type(ty)).Elem()
	elem := func(f *Field, dst reflect.Value) {
		switch {
		case nested:
			f.SetRaw(dst.Addr(), f.ToMont(big.NewInt(int64(1+r.Intn(14)))))
		case r.Intn(6) == 0:
			f.SetRaw(dst.Addr(), f.ToMont(new(big.Int).Sub(f.Q, big.NewInt(int64(1+r.Intn(2))))))
		case r.Intn(6) == 0:
			f.SetRaw(dst.Addr(), new(big.Int))
		default:
			f.SetRaw(dst.Addr(), r.Below(f.Q))
		}
	}
	vec := func(f *Field, n int, nst bool) reflect.Value {
		sl := reflect.MakeSlice(reflect.SliceOf(f.ElemT), n, n)
		for i := 0; i < n; i++ {
			if nst {
				f.SetRaw(sl.Index(i).Addr(), f.ToMont(big.NewInt(int64(1+r.Intn(14)))))
			} else {
				elem(f, sl.Index(i))
			}
		}
		return sl
	}
	point := func(g string, dst reflect.Value) {
		ps := s.encPts[g]
		dst.Set(ps[r.Intn(len(ps))].Elem())
	}
	switch ty {
	case "u64":
		v.SetUint([]uint64{0, 1, 1<<64 - 1, r.U64(), r.U64() >> 40}[r.Intn(5)])
	case "u32":
		v.SetUint(uint64(uint32(r.U64())))
	case "su64":
		n := r.Intn(4)
		sl := make([]uint64, n)
		for i := range sl {
			sl[i] = r.U64()
		}
		v.Set(reflect.ValueOf(sl))
	case "ssu64":
		n := r.Intn(3)
		sl := make([][]uint64, n)
		for i := range sl {
			sl[i] = make([]uint64, r.Intn(3))
			for j := range sl[i] {
				sl[i][j] = r.U64() >> 52 // small: a decoder that lost alignment reads lengths from these bytes
			}
		}
		v.Set(reflect.ValueOf(sl))
	case "fr":
		elem(c.Fr, v)
	case "fp":
		elem(c.Fp, v)
	case "vfr":
		v.Set(vec(c.Fr, r.Intn(4), false))
	case "vfp":
		v.Set(vec(c.Fp, r.Intn(4), false))
	case "vvfr":
		n := 1 + r.Intn(3)
		sl := reflect.MakeSlice(v.Type(), n, n)
		for i := 0; i < n; i++ {
			sl.Index(i).Set(vec(c.Fr, r.Intn(3), true))
		}
		v.Set(sl)
	case "vvvfr":
		n := 1 + r.Intn(2)
		sl := reflect.MakeSlice(v.Type(), n, n)
		for i := 0; i < n; i++ {
			m := 1 + r.Intn(2)
			in := reflect.MakeSlice(v.Type().Elem(), m, m)
			for j := 0; j < m; j++ {
				in.Index(j).Set(vec(c.Fr, r.Intn(3), true))
			}
			sl.Index(i).Set(in)
		}
		v.Set(sl)
	case "g1":
		point("G1", v)
	case "g2":
		point("G2", v)
	case "sg1", "sg2":
		n := r.Intn(4)
		sl := reflect.MakeSlice(v.Type(), n, n)
		for i := 0; i < n; i++ {
			point(strings.ToUpper(ty[1:]), sl.Index(i))
		}
		v.Set(sl)
	}
	return v
}

// encArg picks one of the Go forms Encode accepts for the value v of type ty
func (s *c07Streams) encArg(ty string, v reflect.Value, variant int) reflect.Value {
	switch ty {
	case "fr", "fp", "g1", "g2":
		return v.Addr()
	case "vfr", "vfp":
		f := s.c.Fr
		if ty == "vfp" {
			f = s.c.Fp
		}
		if s.c.Name != "stark-curve" {
			switch variant % 3 {
			case 1:
				return v.Convert(f.VecT) // fr.Vector
			case 2:
				p := reflect.New(f.VecT) // *fr.Vector: io.WriterTo
				p.Elem().Set(v.Convert(f.VecT))
				return p
			}
		}
	case "sg1", "sg2":
		if variant%2 == 1 && s.c.Name != "stark-curve" {
			return v.Addr() // *[]G1Affine
		}
	}
	return v
}

// decTarget returns the pointer handed to Decode for an item whose encoded value is v
func (s *c07Streams) decTarget(ty string, v reflect.Value, variant int) reflect.Value {
	T := s.c.c07Type(ty)
	p := reflect.New(T)
	switch ty {
	case "vfr", "vfp":
		if variant%3 == 2 && s.c.Name != "stark-curve" {
			f := s.c.Fr
			if ty == "vfp" {
				f = s.c.Fp
			}
			return reflect.New(f.VecT) // *fr.Vector: io.ReaderFrom
		}
	case "sg1", "sg2", "vvfr", "vvvfr":
		switch variant % 3 {
		case 1: // preallocated with the right outer length (the decoder reuses it)
			p.Elem().Set(reflect.MakeSlice(T, v.Len(), v.Len()))
			if ty == "vvfr" || ty == "vvvfr" {
				// ... whose inner collections are one longer than the encoded ones (the decoder must cut them down)
				for i := 0; i < v.Len(); i++ {
					in := v.Index(i)
					p.Elem().Index(i).Set(reflect.MakeSlice(in.Type(), in.Len()+1, in.Len()+1))
					if ty == "vvvfr" {
						for j := 0; j < in.Len(); j++ {
							p.Elem().Index(i).Index(j).Set(reflect.MakeSlice(in.Index(j).Type(), in.Index(j).Len()+1, in.Index(j).Len()+1))
						}
					}
				}
			}
		case 2: // preallocated with another length
			p.Elem().Set(reflect.MakeSlice(T, v.Len()+1, v.Len()+1))
		}
		if ty == "sg1" || ty == "sg2" {
			// the reused slice holds other points already (a decoder that only writes some coordinates shows)
			g := s.g[strings.ToUpper(ty[1:])]
			for i := 0; i < p.Elem().Len(); i++ {
				p.Elem().Index(i).Set(g.pt("2G").Elem())
			}
		}
	case "g1", "g2":
		if variant%2 == 1 { // a receiver holding another point
			g := s.g[strings.ToUpper(ty)]
			p.Elem().Set(g.pt("2G").Elem())
		}
	}
	return p
}

// ---------------------------------------------------------------------------------------
// byte layout of an encoded value (input construction for the fault injector)

type c07Span struct {
	path     string
	off, n   int
	kind     string // "prefix", "elem", "u64", "u32", "point"
	nestedIn string
}

// spans lists the leaves and prefixes of the encoding of v (type ty) starting at offset off
func (s *c07Streams) spans(ty string, v reflect.Value, raw bool, off int, path string, out *[]c07Span) int {
	c := s.c
	switch ty {
	case "u64":
		*out = append(*out, c07Span{path, off, 8, "u64", ""})
		return off + 8
	case "u32":
		*out = append(*out, c07Span{path, off, 4, "u32", ""})
		return off + 4
	case "fr":
		*out = append(*out, c07Span{path, off, c.Fr.NBytes, "elem", ""})
		return off + c.Fr.NBytes
	case "fp":
		*out = append(*out, c07Span{path, off, c.Fp.NBytes, "elem", ""})
		return off + c.Fp.NBytes
	case "g1", "g2":
		g := s.g[strings.ToUpper(ty)]
		n := g.cs
		if raw {
			n = g.rs
		}
		*out = append(*out, c07Span{path, off, n, "point", ty})
		return off + n
	}
	inner := map[string]string{"su64": "u64", "ssu64": "su64", "vfr": "fr", "vfp": "fp", "vvfr": "vfr", "vvvfr": "vvfr", "sg1": "g1", "sg2": "g2"}[ty]
	*out = append(*out, c07Span{path, off, 4, "prefix", ty})
	off += 4
	for i := 0; i < v.Len(); i++ {
		off = s.spans(inner, v.Index(i), raw, off, fmt.Sprintf("%s[%d]", path, i), out)
	}
	return off
}

// ---------------------------------------------------------------------------------------
// scenarios

type c07Item struct {
	ty string
	v  reflect.Value
}

func (s *c07Streams) program(tys []string) []c07Item {
	var p []c07Item
	for _, ty := range tys {
		p = append(p, c07Item{ty, s.gen(ty, false)})
	}
	return p
}

// encodeProgram runs the program through a real Encoder and returns what reached the writer
func (s *c07Streams) encodeProgram(t *TraceWriter, prog []c07Item, raw bool, failCall int, variant int) []byte {
	en := newC07Enc(t, s.c, raw, failCall)
	if !en.enc.IsValid() {
		return nil
	}
	for i, it := range prog {
		en.encode(it.ty, s.encArg(it.ty, it.v, variant+i), it.v)
	}
	return append([]byte{}, en.w.buf...)
}

// decodeProgram decodes the items of prog from wire until a call returns an error (or upto items)
func (s *c07Streams) decodeProgram(t *TraceWriter, prog []c07Item, src Ev, wire []byte, chunk string, sg bool, variant int, upto int) {
	d := newC07Dec(t, s.c, src, wire, chunk, sg)
	for i, it := range prog {
		if i >= upto {
			break
		}
		if !d.decode(it.ty, s.decTarget(it.ty, it.v, variant+i), nil) {
			break
		}
	}
}

var c07Chunks = []string{"full", "1", "7", "dataerr", "3", "13"}

func c07RunStreams(out string, c *Curve, seed uint64, tier string) int {
	r := newRng(seed*2887 + uint64(len(c.Name))*53 + uint64(c.Name[len(c.Name)-1])*7)
	s := &c07Streams{c: c, r: r, g: map[string]*c07G{}, encPts: map[string][]reflect.Value{}}
	groups := []string{"G1"}
	if c.HasG2() {
		groups = append(groups, "G2")
	}
	var known []func(t *TraceWriter)
	for _, gn := range groups {
		g := c07Group(c, gn, r, 2)
		s.g[gn] = g
		var ps []reflect.Value
		for _, p := range g.pool {
			ps = append(ps, p.p)
		}
		s.encPts[gn] = ps
		gg := g
		known = append(known, func(t *TraceWriter) { gg.know(t, ps...) })
	}
	thorough := tier == "thorough"
	types := c.c07Types()
	total := 0
	open := func(name string) *TraceWriter {
		t := newTrace(out, "c07_st_"+c.Name+"_"+name, Ev{"property": "C07", "kind": "st", "curve": c.Name, "seed": int(seed % (1 << 30))})
		for _, k := range known {
			k(t)
		}
		return t
	}

	// (A) histories of the model: every program of length <= 2 over the type alphabet (mixed types on one stream),
	// both encodings, round trip under several chunkings, subgroup checks on and off
	t := open("a")
	var progs [][]string
	for _, a := range types {
		progs = append(progs, []string{a})
	}
	for i, a := range types {
		for j, b := range types {
			if thorough || (i+j)%3 == int(seed%3) {
				progs = append(progs, []string{a, b})
			}
		}
	}
	for pi, tys := range progs {
		prog := s.program(tys)
		for _, raw := range []bool{false, true} {
			wire := s.encodeProgram(t, prog, raw, 0, pi)
			ch := c07Chunks[(pi+map[bool]int{false: 0, true: 3}[raw])%len(c07Chunks)]
			s.decodeProgram(t, prog, Ev{"k": "enc"}, wire, ch, pi%4 != 3, pi, len(prog))
		}
	}
	// (A') slices with infinities between other points, decoded into fresh / same-length / other-length destinations that
	// already hold points (the decoder reuses a destination of the right length)
	for _, gn := range groups {
		ty := "s" + strings.ToLower(gn)
		g := s.g[gn]
		long := make([]string, 41) // more elements than CPUs: the parallel decompression works on chunks of several elements
		for i := range long {
			long[i] = []string{"G", "O", "2G", "-G", "kG"}[(i*i+i/3)%5]
		}
		for _, labels := range [][]string{{"G", "O", "2G", "O", "-G"}, {"O"}, {"O", "O", "G"}, long} {
			sl := reflect.MakeSlice(c.c07Type(ty), len(labels), len(labels))
			for i, lb := range labels {
				sl.Index(i).Set(g.pt(lb).Elem())
			}
			prog := []c07Item{{ty, sl}}
			for _, raw := range []bool{false, true} {
				wire := s.encodeProgram(t, prog, raw, 0, 0)
				for variant := 0; variant < 3; variant++ {
					for _, sg := range []bool{true, false} {
						s.decodeProgram(t, prog, Ev{"k": "enc"}, wire, c07Chunks[variant], sg, variant, 1)
					}
				}
			}
		}
		// (A'') truncation inside an item that repeats its predecessor (or is the identity): what a decoder left in its
		// scratch buffer from the previous item then completes the missing bytes to a valid encoding
		for li, labels := range [][]string{{"G", "G"}, {"O"}, {"G", "O", "O"}, {"2G", "2G", "2G"}} {
			sl := reflect.MakeSlice(c.c07Type(ty), len(labels), len(labels))
			for i, lb := range labels {
				sl.Index(i).Set(g.pt(lb).Elem())
			}
			prog := []c07Item{{ty, sl}}
			for _, raw := range []bool{false, true} {
				wire := s.encodeProgram(t, prog, raw, 0, 0)
				var sp []c07Span
				if s.spans(ty, sl, raw, 0, "", &sp) != len(wire) {
					continue
				}
				ci := li
				for _, x := range sp {
					if x.kind != "point" {
						continue
					}
					for _, k := range []int{x.off + 1, x.off + x.n/2, x.off + x.n/2 + 1, x.off + x.n - 1} {
						ci++
						s.decodeProgram(t, prog, Ev{"k": "trunc", "at": k}, wire[:k], c07Chunks[ci%len(c07Chunks)], ci%3 != 0, ci, 1)
					}
				}
			}
		}
	}
	total += t.Close()

	// (B) one long program with every type: truncation at the offsets around every boundary (thorough: every
	// offset), one corrupted byte in every leaf and every prefix, writer refusing the k-th Write
	t = open("b")
	long := append([]string{}, types...)
	long = append(long, "vvfr", "sg1", "fr")
	if c.Name == "stark-curve" {
		long = append(append([]string{}, types...), "vfr", "sg1", "fr")
	}
	for rep := 0; rep < map[bool]int{false: 1, true: 3}[thorough]; rep++ {
		prog := s.program(long)
		// nested vectors with at least two inner vectors so that an error can be followed by a good vector
		for i, it := range prog {
			if it.ty == "vvfr" || it.ty == "vvvfr" {
				for it.v.Len() < 2 {
					it.v = s.gen(it.ty, true)
				}
				prog[i] = it
			}
			if (it.ty == "sg1" || it.ty == "sg2") && it.v.Len() < 2 {
				for it.v.Len() < 2 {
					it.v = s.gen(it.ty, false)
				}
				prog[i] = it
			}
		}
		for _, raw := range []bool{false, true} {
			wire := s.encodeProgram(t, prog, raw, 0, rep)
			if wire == nil {
				continue
			}
			// thorough tier: start a new trace file every ~15 000 events; the encoder scenario is run again at its head so
			// that the specification knows the bytes the following decoders are fed with
			shard := 0
			rotate := func() {
				if t.n < 15000 {
					return
				}
				total += t.Close()
				shard++
				t = open(fmt.Sprintf("b%d%s%d", rep, map[bool]string{false: "c", true: "r"}[raw], shard))
				s.encodeProgram(t, prog, raw, 0, rep)
			}
			var sp []c07Span
			off := 0
			var itemEnd []int
			for i, it := range prog {
				off = s.spans(it.ty, it.v, raw, off, fmt.Sprintf("#%d:%s", i, it.ty), &sp)
				itemEnd = append(itemEnd, off)
			}
			if off != len(wire) {
				// the layout computed here is only used to place faults; a mismatch means the encoder produced something
				// else than expected, which the specification reports on the Encode events
				continue
			}
			itemOf := func(o int) int {
				for i, e := range itemEnd {
					if o < e {
						return i
					}
				}
				return len(prog) - 1
			}
			s.decodeProgram(t, prog, Ev{"k": "enc"}, wire, "full", true, rep, len(prog))
			s.decodeProgram(t, prog, Ev{"k": "enc"}, wire, "1", false, rep+1, len(prog))
			s.decodeProgram(t, prog, Ev{"k": "enc"}, wire, "dataerr", true, rep+2, len(prog))
			// truncation
			cut := map[int]bool{}
			if thorough {
				for k := 0; k < len(wire); k++ {
					cut[k] = true
				}
			} else {
				for _, x := range sp {
					for _, k := range []int{x.off - 1, x.off, x.off + 1, x.off + x.n/2, x.off + x.n - 1} {
						if k >= 0 && k < len(wire) {
							cut[k] = true
						}
					}
				}
			}
			ci := 0
			for k := 0; k < len(wire); k++ {
				if !cut[k] {
					continue
				}
				ci++
				if !thorough && raw && ci%2 == 0 {
					continue
				}
				rotate()
				s.decodeProgram(t, prog, Ev{"k": "trunc", "at": k}, wire[:k], c07Chunks[ci%len(c07Chunks)], ci%5 != 0, ci, itemOf(k)+1)
			}
			// corruption: one byte per leaf / prefix
			for xi, x := range sp {
				var muts []Ev
				switch x.kind {
				case "elem": // top byte all ones: not below the modulus
					muts = append(muts, Ev{"at": x.off + 1, "b": 0xff, "why": "noncanonical"})
				case "u64", "u32":
					muts = append(muts, Ev{"at": x.off + x.n, "b": int(wire[x.off+x.n-1]) ^ 0x55, "why": "other value"})
				case "point":
					g := s.g[strings.ToUpper(x.nestedIn)]
					b0 := wire[x.off]
					pay := byte(0xff >> g.fb)
					muts = append(muts, Ev{"at": x.off + 1, "b": int(b0 | pay), "why": "noncanonical"})
					if g.fb == 3 {
						muts = append(muts, Ev{"at": x.off + 1, "b": int(b0&pay | 0xe0), "why": "flag"})
					}
					isInf := b0&^pay == map[int]byte{2: 0x40, 3: 0xc0}[g.fb] || (raw && g.fb == 3 && b0&^pay == 0x40) || (raw && g.fb == 2 && allZero(wire[x.off:x.off+x.n]))
					if !isInf {
						if !raw { // the other sign: the opposite point
							muts = append(muts, Ev{"at": x.off + 1, "b": int(b0 ^ map[int]byte{2: 0x40, 3: 0x20}[g.fb]), "why": "sign"})
						}
						// infinity flag on a non-zero payload
						muts = append(muts, Ev{"at": x.off + 1, "b": int(b0&pay | map[int]byte{2: 0x40, 3: 0xc0}[g.fb]), "why": "padding"})
					} else {
						muts = append(muts, Ev{"at": x.off + x.n, "b": 1, "why": "padding"})
					}
				case "prefix":
					// one item more (runs into what follows) only for vectors of fixed-size leaves: an extra *vector* would take
					// its length from arbitrary bytes (resource exhaustion, outside the property); one item less for all
					// (also not inside a nested vector: the decoder would run over the end of the item and read later lengths there)
					if (x.nestedIn == "su64" || x.nestedIn == "vfr" || x.nestedIn == "vfp") && !strings.Contains(x.path, "[") {
						muts = append(muts, Ev{"at": x.off + 4, "b": int(wire[x.off+3]) + 1, "why": "len+1"})
					}
					if wire[x.off+3] > 0 {
						muts = append(muts, Ev{"at": x.off + 4, "b": int(wire[x.off+3]) - 1, "why": "len-1"})
					}
				}
				for mi, m := range muts {
					if !thorough && raw && (xi+mi)%2 == 0 {
						continue
					}
					w2 := append([]byte{}, wire...)
					at := m["at"].(int)
					w2[at-1] = byte(m["b"].(int))
					src := Ev{"k": "corrupt", "at": at, "b": int(w2[at-1]), "path": x.path, "why": m["why"]}
					rotate()
					s.decodeProgram(t, prog, src, w2, c07Chunks[(xi+mi)%len(c07Chunks)], (xi+mi)%4 != 1, xi+mi, itemOf(x.off)+1)
				}
			}
			// writer refusing the k-th Write call once
			nCalls := 0
			{
				en := newC07Enc(t, s.c, raw, 0)
				for i, it := range prog {
					en.encode(it.ty, s.encArg(it.ty, it.v, rep+i), it.v)
				}
				nCalls = en.w.calls
			}
			step := 1
			if !thorough {
				step = 1 + nCalls/24
			}
			for k := 1; k <= nCalls; k += step {
				s.encodeProgram(t, prog, raw, k, rep)
			}
		}
	}
	total += t.Close()

	// (C) seeded random programs
	t = open("c")
	nProg := 12
	if thorough {
		nProg = 80
	}
	for pi := 0; pi < nProg; pi++ {
		n := 1 + r.Intn(6)
		tys := make([]string, n)
		for i := range tys {
			tys[i] = types[r.Intn(len(types))]
		}
		prog := s.program(tys)
		raw := r.Intn(2) == 0
		wire := s.encodeProgram(t, prog, raw, 0, pi)
		s.decodeProgram(t, prog, Ev{"k": "enc"}, wire, c07Chunks[r.Intn(len(c07Chunks))], r.Intn(4) != 0, pi, len(prog))
		if len(wire) > 0 {
			for q := 0; q < 3; q++ {
				k := r.Intn(len(wire))
				s.decodeProgram(t, prog, Ev{"k": "trunc", "at": k}, wire[:k], c07Chunks[r.Intn(len(c07Chunks))], true, pi+q, len(prog))
			}
		}
	}
	total += t.Close()
	return total
}

func allZero(b []byte) bool {
	for _, x := range b {
		if x != 0 {
			return false
		}
	}
	return true
}
