package main

// C14 driver: algebraic hashes (MiMC, Poseidon2, ring-SIS) and their streaming semantics.
//
// The driver calls the real gnark-crypto code and logs raw observations only (bytes, raw Montgomery
// limbs, error strings, recovered panics); spec/C14_hashes/TraceHashes.tla is the judge.
// Round constants / SIS keys are NOT read from the library: they are re-derived here with
// x/crypto/sha3 (legacy Keccak-256 chain) and x/crypto/blake2b as documented, and handed to the
// specification in the trace header, so that a corrupted table in the library disagrees with it.
//
// Inputs: (i) histories enumerated from the model's action alphabet (all histories up to a length
// over Write-classes / Sum / Reset / State / SetState / Size / caller scribbles) plus boundary
// lattices for the function entry points; (ii) seeded random histories and values.

import (
	"encoding/binary"
	"flag"
	"fmt"
	"math/big"
	"reflect"
	"strings"

	"golang.org/x/crypto/blake2b"
	"golang.org/x/crypto/sha3"

	fr_bn254 "github.com/consensys/gnark-crypto/ecc/bn254/fr"
	fr_bw6761 "github.com/consensys/gnark-crypto/ecc/bw6-761/fr"

	mimc_bls12377 "github.com/consensys/gnark-crypto/ecc/bls12-377/fr/mimc"
	mimc_bls12381 "github.com/consensys/gnark-crypto/ecc/bls12-381/fr/mimc"
	mimc_bls24315 "github.com/consensys/gnark-crypto/ecc/bls24-315/fr/mimc"
	mimc_bls24317 "github.com/consensys/gnark-crypto/ecc/bls24-317/fr/mimc"
	mimc_bn254 "github.com/consensys/gnark-crypto/ecc/bn254/fr/mimc"
	mimc_bw6633 "github.com/consensys/gnark-crypto/ecc/bw6-633/fr/mimc"
	mimc_bw6761 "github.com/consensys/gnark-crypto/ecc/bw6-761/fr/mimc"
	mimc_grumpkin "github.com/consensys/gnark-crypto/ecc/grumpkin/fr/mimc"

	p2_bls12377 "github.com/consensys/gnark-crypto/ecc/bls12-377/fr/poseidon2"
	p2_bls12381 "github.com/consensys/gnark-crypto/ecc/bls12-381/fr/poseidon2"
	p2_bls24315 "github.com/consensys/gnark-crypto/ecc/bls24-315/fr/poseidon2"
	p2_bls24317 "github.com/consensys/gnark-crypto/ecc/bls24-317/fr/poseidon2"
	p2_bn254 "github.com/consensys/gnark-crypto/ecc/bn254/fr/poseidon2"
	p2_bw6633 "github.com/consensys/gnark-crypto/ecc/bw6-633/fr/poseidon2"
	p2_bw6761 "github.com/consensys/gnark-crypto/ecc/bw6-761/fr/poseidon2"
	p2_grumpkin "github.com/consensys/gnark-crypto/ecc/grumpkin/fr/poseidon2"
	p2_babybear "github.com/consensys/gnark-crypto/field/babybear/poseidon2"
	p2_goldilocks "github.com/consensys/gnark-crypto/field/goldilocks/poseidon2"
	p2_koalabear "github.com/consensys/gnark-crypto/field/koalabear/poseidon2"

	fr_bls12377 "github.com/consensys/gnark-crypto/ecc/bls12-377/fr"
	fft_bls12377 "github.com/consensys/gnark-crypto/ecc/bls12-377/fr/fft"
	sis_bls12377 "github.com/consensys/gnark-crypto/ecc/bls12-377/fr/sis"
	sis_babybear "github.com/consensys/gnark-crypto/field/babybear/sis"
	sis_goldilocks "github.com/consensys/gnark-crypto/field/goldilocks/sis"
	sis_koalabear "github.com/consensys/gnark-crypto/field/koalabear/sis"

	ghash "github.com/consensys/gnark-crypto/hash"
)

func init() { register("c14", runC14) }

// ---------------------------------------------------------------------------------------
// helpers

func c14try(f func()) (msg string, panicked bool) {
	defer func() {
		if r := recover(); r != nil {
			panicked = true
			msg = strings.SplitN(fmt.Sprint(r), "\n", 2)[0]
			if len(msg) > 120 {
				msg = msg[:120]
			}
		}
	}()
	f()
	return
}

func c14clone(b []byte) []byte { return append([]byte{}, b...) }

// c14KeccakChain returns n successive values of the documented derivation: x0 = H(seed), c_i = H(c_{i-1}).
func c14KeccakChain(seed string, n int) [][]int {
	h := sha3.NewLegacyKeccak256()
	h.Write([]byte(seed))
	x := h.Sum(nil)
	out := make([][]int, n)
	for i := 0; i < n; i++ {
		h.Reset()
		h.Write(x)
		x = h.Sum(nil)
		out[i] = digits(new(big.Int).SetBytes(x))
	}
	return out
}

// c14SisKey derives the key polynomials: blake2b-256("SIS" || seed || i || j), big endian 64-bit integers.
func c14SisKey(seed int64, npoly, degree int) [][][]int {
	out := make([][][]int, npoly)
	for i := range out {
		out[i] = make([][]int, degree)
		for j := 0; j < degree; j++ {
			var buf [3 + 3*8]byte
			copy(buf[:3], "SIS")
			binary.BigEndian.PutUint64(buf[3:], uint64(seed))
			binary.BigEndian.PutUint64(buf[11:], uint64(i))
			binary.BigEndian.PutUint64(buf[19:], uint64(j))
			dg := blake2b.Sum256(buf[:])
			out[i][j] = digits(new(big.Int).SetBytes(dg[:]))
		}
	}
	return out
}

// ---------------------------------------------------------------------------------------
// instances

type c14Inst struct {
	name   string // registry name / label
	field  string
	family string // "mimc" | "p2"
	le     bool
	ctor   func() ghash.StateStorer
	id     ghash.Hash
	hasID  bool
	sum    func([]byte) ([]byte, error) // package-level mimc.Sum
	consts func() []big.Int             // package-level mimc.GetConstants
	bs     int                          // block size per the specification (input construction only)
}

type c14P2Pkg struct {
	field   string
	tag     string // name inside the documented seed string
	d       int    // documented s-box degree (seed string only)
	newPerm reflect.Value
	newSeed reflect.Value // NewPermutationWithSeed(t, rf, rp, seed)
	newMD   func() ghash.StateStorer
	id      ghash.Hash
	params  [][3]int // parameter sets driven; the first one is the default of the hash wrapper
}

type c14SisPkg struct {
	field  string
	newSis reflect.Value
}

func c14MimcInsts() []*c14Inst {
	return []*c14Inst{
		{name: "MIMC_BN254", field: "bn254/fr", ctor: func() ghash.StateStorer { return mimc_bn254.NewMiMC() }, id: ghash.MIMC_BN254, hasID: true, sum: mimc_bn254.Sum, consts: mimc_bn254.GetConstants},
		{name: "MIMC_BLS12_381", field: "bls12-381/fr", ctor: func() ghash.StateStorer { return mimc_bls12381.NewMiMC() }, id: ghash.MIMC_BLS12_381, hasID: true, sum: mimc_bls12381.Sum, consts: mimc_bls12381.GetConstants},
		{name: "MIMC_BLS12_377", field: "bls12-377/fr", ctor: func() ghash.StateStorer { return mimc_bls12377.NewMiMC() }, id: ghash.MIMC_BLS12_377, hasID: true, sum: mimc_bls12377.Sum, consts: mimc_bls12377.GetConstants},
		{name: "MIMC_BW6_761", field: "bw6-761/fr", ctor: func() ghash.StateStorer { return mimc_bw6761.NewMiMC() }, id: ghash.MIMC_BW6_761, hasID: true, sum: mimc_bw6761.Sum, consts: mimc_bw6761.GetConstants},
		{name: "MIMC_BLS24_315", field: "bls24-315/fr", ctor: func() ghash.StateStorer { return mimc_bls24315.NewMiMC() }, id: ghash.MIMC_BLS24_315, hasID: true, sum: mimc_bls24315.Sum, consts: mimc_bls24315.GetConstants},
		{name: "MIMC_BLS24_317", field: "bls24-317/fr", ctor: func() ghash.StateStorer { return mimc_bls24317.NewMiMC() }, id: ghash.MIMC_BLS24_317, hasID: true, sum: mimc_bls24317.Sum, consts: mimc_bls24317.GetConstants},
		{name: "MIMC_BW6_633", field: "bw6-633/fr", ctor: func() ghash.StateStorer { return mimc_bw6633.NewMiMC() }, id: ghash.MIMC_BW6_633, hasID: true, sum: mimc_bw6633.Sum, consts: mimc_bw6633.GetConstants},
		{name: "MIMC_GRUMPKIN", field: "grumpkin/fr", ctor: func() ghash.StateStorer { return mimc_grumpkin.NewMiMC() }, id: ghash.MIMC_GRUMPKIN, hasID: true, sum: mimc_grumpkin.Sum, consts: mimc_grumpkin.GetConstants},
		// little-endian block decoding (option WithByteOrder)
		{name: "MIMC_BN254_LE", field: "bn254/fr", le: true, ctor: func() ghash.StateStorer { return mimc_bn254.NewMiMC(mimc_bn254.WithByteOrder(fr_bn254.LittleEndian)) }},
		{name: "MIMC_BW6_761_LE", field: "bw6-761/fr", le: true, ctor: func() ghash.StateStorer {
			return mimc_bw6761.NewMiMC(mimc_bw6761.WithByteOrder(fr_bw6761.LittleEndian))
		}},
	}
}

func c14P2Pkgs() []*c14P2Pkg {
	curve := func(rp int) [][3]int { return [][3]int{{2, 6, rp}, {3, 8, 56}, {2, 2, 1}, {3, 4, 3}} }
	return []*c14P2Pkg{
		{field: "bn254/fr", tag: "BN254", d: 5, newPerm: reflect.ValueOf(p2_bn254.NewPermutation), newSeed: reflect.ValueOf(p2_bn254.NewPermutationWithSeed), newMD: p2_bn254.NewMerkleDamgardHasher, id: ghash.POSEIDON2_BN254, params: curve(50)},
		{field: "bls12-377/fr", tag: "BLS12_377", d: 17, newPerm: reflect.ValueOf(p2_bls12377.NewPermutation), newSeed: reflect.ValueOf(p2_bls12377.NewPermutationWithSeed), newMD: p2_bls12377.NewMerkleDamgardHasher, id: ghash.POSEIDON2_BLS12_377, params: curve(26)},
		{field: "bls12-381/fr", tag: "BLS12_381", d: 5, newPerm: reflect.ValueOf(p2_bls12381.NewPermutation), newSeed: reflect.ValueOf(p2_bls12381.NewPermutationWithSeed), newMD: p2_bls12381.NewMerkleDamgardHasher, id: ghash.POSEIDON2_BLS12_381, params: curve(50)},
		{field: "bls24-315/fr", tag: "BLS24_315", d: 5, newPerm: reflect.ValueOf(p2_bls24315.NewPermutation), newSeed: reflect.ValueOf(p2_bls24315.NewPermutationWithSeed), newMD: p2_bls24315.NewMerkleDamgardHasher, id: ghash.POSEIDON2_BLS24_315, params: curve(50)},
		{field: "bls24-317/fr", tag: "BLS24_317", d: 7, newPerm: reflect.ValueOf(p2_bls24317.NewPermutation), newSeed: reflect.ValueOf(p2_bls24317.NewPermutationWithSeed), newMD: p2_bls24317.NewMerkleDamgardHasher, id: ghash.POSEIDON2_BLS24_317, params: curve(40)},
		{field: "bw6-633/fr", tag: "BW6_633", d: 5, newPerm: reflect.ValueOf(p2_bw6633.NewPermutation), newSeed: reflect.ValueOf(p2_bw6633.NewPermutationWithSeed), newMD: p2_bw6633.NewMerkleDamgardHasher, id: ghash.POSEIDON2_BW6_633, params: curve(50)},
		{field: "bw6-761/fr", tag: "BW6_761", d: 5, newPerm: reflect.ValueOf(p2_bw6761.NewPermutation), newSeed: reflect.ValueOf(p2_bw6761.NewPermutationWithSeed), newMD: p2_bw6761.NewMerkleDamgardHasher, id: ghash.POSEIDON2_BW6_761, params: curve(50)},
		{field: "grumpkin/fr", tag: "GRUMPKIN", d: 5, newPerm: reflect.ValueOf(p2_grumpkin.NewPermutation), newSeed: reflect.ValueOf(p2_grumpkin.NewPermutationWithSeed), newMD: p2_grumpkin.NewMerkleDamgardHasher, id: ghash.POSEIDON2_GRUMPKIN, params: curve(50)},
		{field: "koalabear", tag: "koalabear", d: 3, newPerm: reflect.ValueOf(p2_koalabear.NewPermutation), newSeed: reflect.ValueOf(p2_koalabear.NewPermutationWithSeed), newMD: p2_koalabear.NewMerkleDamgardHasher, id: ghash.POSEIDON2_KOALABEAR,
			params: [][3]int{{16, 6, 21}, {24, 6, 21}, {16, 4, 5}, {24, 2, 3},
				// neighbours of the two instances that have an AVX-512 kernel: one of (width, full, partial) differs
				{16, 6, 22}, {16, 6, 20}, {24, 6, 22}, {24, 6, 20}, {16, 4, 21}, {24, 8, 21},
				// other splits of the default total number of rounds
				{16, 8, 19}, {24, 4, 23}}},
		{field: "babybear", tag: "babybear", d: 7, newPerm: reflect.ValueOf(p2_babybear.NewPermutation), newSeed: reflect.ValueOf(p2_babybear.NewPermutationWithSeed), newMD: p2_babybear.NewMerkleDamgardHasher, id: ghash.POSEIDON2_BABYBEAR,
			params: [][3]int{{16, 8, 13}, {24, 8, 21}, {16, 4, 5}, {24, 2, 3},
				{16, 8, 14}, {16, 8, 12}, {24, 8, 22}, {24, 8, 20}, {16, 6, 13}, {24, 6, 21},
				{16, 6, 15}, {16, 10, 11}, {24, 6, 23}}},
		{field: "goldilocks", tag: "goldilocks", d: 7, newPerm: reflect.ValueOf(p2_goldilocks.NewPermutation), newSeed: reflect.ValueOf(p2_goldilocks.NewPermutationWithSeed), newMD: p2_goldilocks.NewMerkleDamgardHasher, id: ghash.POSEIDON2_GOLDILOCKS,
			params: [][3]int{{8, 6, 17}, {12, 6, 17}, {8, 4, 3}, {12, 2, 5}}},
	}
}

func c14SisPkgs() []*c14SisPkg {
	return []*c14SisPkg{
		{field: "bls12-377/fr", newSis: reflect.ValueOf(sis_bls12377.NewRSis)},
		{field: "koalabear", newSis: reflect.ValueOf(sis_koalabear.NewRSis)},
		{field: "babybear", newSis: reflect.ValueOf(sis_babybear.NewRSis)},
		{field: "goldilocks", newSis: reflect.ValueOf(sis_goldilocks.NewRSis)},
	}
}

// ---------------------------------------------------------------------------------------
// stream driver

type c14Drv struct {
	in  *c14Inst
	f   *Field
	t   *TraceWriter
	rng *Rng
	o   ghash.StateStorer
	sc  int
	// raw facts about the current object since its last New / Reset / accepted SetState (classification
	// context for known findings; never an input of the specification):
	fw, fwm, sb int // failed or panicking Writes; those longer than one block; Sum calls with a non-empty argument
	scr         int // caller scribbles since New
	lastOut     []byte
	lastArg     []byte
	saved       [][]byte
}

func (d *c14Drv) ev(op string) Ev {
	return Ev{"op": op, "sc": d.sc, "fw": d.fw, "fwm": d.fwm, "sb": d.sb, "scr": d.scr}
}

func (d *c14Drv) opNew(via string) {
	e := Ev{"op": "New", "sc": d.sc, "via": via}
	d.o = nil
	d.fw, d.fwm, d.sb, d.scr = 0, 0, 0, 0
	d.lastOut, d.lastArg, d.saved = nil, nil, nil
	msg, pk := c14try(func() {
		if via == "registry" {
			d.o = d.in.id.New().(ghash.StateStorer)
		} else {
			d.o = d.in.ctor()
		}
	})
	if pk {
		e["panic"] = msg
		d.o = nil
	}
	d.t.Emit(e)
}

func (d *c14Drv) opWrite(p []byte) {
	if d.o == nil {
		return
	}
	before := c14clone(p)
	e := d.ev("Write")
	e["p"] = bytesToInts(before)
	e["cap"] = cap(p)
	var n int
	var err error
	msg, pk := c14try(func() { n, err = d.o.Write(p) })
	if pk {
		e["panic"] = msg
	} else {
		e["n"] = n
		e["pafter"] = bytesToInts(p)
		if err != nil {
			e["err"] = err.Error()
		}
	}
	if pk || err != nil {
		d.fw++
		if len(before) > d.in.bs {
			d.fwm++
		}
	}
	d.t.Emit(e)
}

func (d *c14Drv) opWriteString(p []byte) {
	if d.o == nil {
		return
	}
	e := d.ev("WriteString")
	e["p"] = bytesToInts(p)
	arg := c14clone(p)
	var err error
	msg, pk := c14try(func() { err = d.o.(interface{ WriteString([]byte) error }).WriteString(arg) })
	if pk {
		e["panic"] = msg
	} else {
		e["pafter"] = bytesToInts(arg)
		if err != nil {
			e["err"] = err.Error()
		}
	}
	d.t.Emit(e)
}

func (d *c14Drv) opSum(b []byte) {
	if d.o == nil {
		return
	}
	e := d.ev("Sum")
	e["b"] = bytesToInts(b)
	var out []byte
	msg, pk := c14try(func() { out = d.o.Sum(b) })
	if pk {
		e["panic"] = msg
	} else {
		e["out"] = bytesToInts(out)
		d.lastOut = out
	}
	if len(b) > 0 {
		d.sb++
	}
	d.t.Emit(e)
}

func (d *c14Drv) opState() {
	if d.o == nil {
		return
	}
	e := d.ev("State")
	var out []byte
	msg, pk := c14try(func() { out = d.o.State() })
	if pk {
		e["panic"] = msg
	} else {
		e["out"] = bytesToInts(out)
		d.lastOut = out
		d.saved = append(d.saved, c14clone(out))
	}
	d.t.Emit(e)
}

func (d *c14Drv) opSetState(s []byte) {
	if d.o == nil {
		return
	}
	arg := c14clone(s)
	e := d.ev("SetState")
	e["s"] = bytesToInts(s)
	var err error
	msg, pk := c14try(func() { err = d.o.SetState(arg) })
	if pk {
		e["panic"] = msg
	} else {
		e["safter"] = bytesToInts(arg)
		if err != nil {
			e["err"] = err.Error()
		} else {
			d.fw, d.fwm, d.sb = 0, 0, 0
			d.lastArg = arg
		}
	}
	d.t.Emit(e)
}

func (d *c14Drv) opReset() {
	if d.o == nil {
		return
	}
	e := d.ev("Reset")
	msg, pk := c14try(func() { d.o.Reset() })
	if pk {
		e["panic"] = msg
	} else {
		d.fw, d.fwm, d.sb = 0, 0, 0
	}
	d.t.Emit(e)
}

func (d *c14Drv) opSize(which string) {
	if d.o == nil {
		return
	}
	e := d.ev(which)
	var r int
	msg, pk := c14try(func() {
		if which == "Size" {
			r = d.o.Size()
		} else {
			r = d.o.BlockSize()
		}
	})
	if pk {
		e["panic"] = msg
	} else {
		e["ret"] = r
	}
	d.t.Emit(e)
}

// opScribble: the caller overwrites a slice it got back from Sum/State ("out") or handed to SetState ("arg").
func (d *c14Drv) opScribble(what string) {
	s := d.lastOut
	if what == "arg" {
		s = d.lastArg
	}
	if d.o == nil || len(s) == 0 {
		return
	}
	e := d.ev("Scribble")
	e["what"] = what
	for i := range s {
		s[i] ^= 0xA5
	}
	d.scr++
	d.t.Emit(e)
}

// ---- input construction (math/big only)

func (d *c14Drv) elemBytes(v *big.Int) []byte {
	eb := d.f.NBytes
	b := make([]byte, eb)
	v.FillBytes(b)
	if d.in.le {
		for i, j := 0, eb-1; i < j; i, j = i+1, j-1 {
			b[i], b[j] = b[j], b[i]
		}
	}
	return b
}

func (d *c14Drv) validElem() []byte {
	q := d.f.Q
	var v *big.Int
	switch d.rng.Intn(8) {
	case 0:
		v = big.NewInt(0)
	case 1:
		v = big.NewInt(1)
	case 2:
		v = new(big.Int).Sub(q, big.NewInt(1))
	case 3:
		v = new(big.Int).Lsh(big.NewInt(1), uint(d.rng.Intn(q.BitLen()-1)))
	default:
		v = d.rng.Below(q)
	}
	return d.elemBytes(v)
}

func (d *c14Drv) invalidElem() []byte {
	q := d.f.Q
	top := new(big.Int).Lsh(big.NewInt(1), uint(8*d.f.NBytes))
	var v *big.Int
	switch d.rng.Intn(4) {
	case 0:
		v = new(big.Int).Set(q)
	case 1:
		v = new(big.Int).Add(q, big.NewInt(1))
	case 2:
		v = new(big.Int).Sub(top, big.NewInt(1))
	default:
		span := new(big.Int).Sub(top, q)
		v = new(big.Int).Add(q, d.rng.Below(span))
	}
	return d.elemBytes(v)
}

// block returns one block (bs bytes): all elements canonical, or exactly one non-canonical.
func (d *c14Drv) block(valid bool) []byte {
	n := d.in.bs / d.f.NBytes
	bad := -1
	if !valid {
		bad = d.rng.Intn(n)
	}
	var b []byte
	for i := 0; i < n; i++ {
		if i == bad {
			b = append(b, d.invalidElem()...)
		} else {
			b = append(b, d.validElem()...)
		}
	}
	return b
}

// withCap returns p in a backing array of the given capacity whose spare part holds valid blocks.
func (d *c14Drv) withCap(p []byte, capacity int) []byte {
	buf := make([]byte, 0, capacity)
	buf = append(buf, p...)
	spare := buf[len(p):capacity]
	var fill []byte
	for len(fill) < len(spare)+d.in.bs {
		fill = append(fill, d.block(true)...)
	}
	copy(spare, fill)
	return buf
}

var c14Alphabet = []string{"w0", "ws", "w1", "w2", "w3", "wb", "wvb", "wr", "wrx", "s", "sb", "sbs", "sbx", "r", "st", "ss", "ssb", "sz", "scr", "wstr"}
var c14Reduced = []string{"w1", "wvb", "wr", "s", "sb", "st", "ss", "r"}

func (d *c14Drv) sym(s string) {
	bs := d.in.bs
	r := d.rng
	switch s {
	case "wstr": // MiMC: WriteString (a string that is not a list of field elements); elsewhere one valid block
		if _, ok := d.o.(interface{ WriteString([]byte) error }); ok {
			d.opWriteString(r.Bytes([]int{0, 1, 5, bs - 1, bs, bs + 1, 3 * bs}[r.Intn(7)]))
		} else {
			d.opWrite(d.block(true))
		}
	case "w0":
		if r.Intn(2) == 0 {
			d.opWrite(nil)
		} else {
			d.opWrite(d.withCap([]byte{}, bs))
		}
	case "ws":
		l := 1 + r.Intn(bs-1)
		p := r.Bytes(l)
		if r.Intn(2) == 0 {
			d.opWrite(p)
		} else {
			d.opWrite(d.withCap(p, l+bs))
		}
	case "w1":
		d.opWrite(d.block(true))
	case "w2":
		p := append(d.block(true), d.block(true)...)
		d.opWrite(d.withCap(p, 3*bs))
	case "w3":
		p := append(append(d.block(true), d.block(true)...), d.block(true)...)
		d.opWrite(c14clone(p))
	case "wb":
		d.opWrite(d.block(false))
	case "wvb":
		var p []byte
		k := 1 + r.Intn(2)
		for i := 0; i < k; i++ {
			p = append(p, d.block(true)...)
		}
		p = append(p, d.block(false)...)
		if r.Intn(3) == 0 {
			p = append(p, d.block(true)...)
		}
		d.opWrite(p)
	case "wr", "wrx":
		k := 1 + r.Intn(2)
		var p []byte
		for i := 0; i < k; i++ {
			p = append(p, d.block(true)...)
		}
		j := 1 + r.Intn(bs-1)
		// zero-led tail: the block formed by the tail and the bytes behind it in the backing array is canonical
		tail := make([]byte, j)
		tail[j-1] = 1
		if j > 1 {
			tail[j-1] = byte(1 + r.Intn(255))
		}
		p = append(p, tail...)
		if s == "wr" {
			d.opWrite(d.withCap(p, (k+2)*bs))
		} else {
			d.opWrite(c14clone(p)[:len(p):len(p)])
		}
	case "s":
		d.opSum(nil)
	case "sb":
		d.opSum(d.withCap(d.block(true), 3*bs))
	case "sbs":
		d.opSum(r.Bytes(1 + r.Intn(7)))
	case "sbx":
		d.opSum(d.block(false))
	case "r":
		d.opReset()
	case "st":
		d.opState()
	case "ss":
		if len(d.saved) > 0 {
			d.opSetState(d.saved[r.Intn(len(d.saved))])
		} else {
			d.opSetState(d.block(true)) // any block of canonical elements is a state
		}
	case "ssb":
		switch r.Intn(4) {
		case 0:
			d.opSetState(d.block(false))
		case 1:
			d.opSetState(d.block(true)[:bs-1])
		case 2:
			d.opSetState(append(d.block(true), 0))
		default:
			d.opSetState([]byte{})
		}
	case "sz":
		d.opSize("Size")
		d.opSize("BlockSize")
	case "scr":
		d.opScribble("out")
		d.opScribble("arg")
	default:
		fatal("c14: unknown symbol %s", s)
	}
}

func (d *c14Drv) history(syms []string) {
	d.sc++
	via := "ctor"
	if d.in.hasID && d.sc%3 == 0 {
		via = "registry"
	}
	d.opNew(via)
	for _, s := range syms {
		d.sym(s)
	}
	// final probes of the state the object stands for
	d.opSum(nil)
	d.opState()
}

func c14Enumerate(alpha []string, n int, f func([]string)) {
	idx := make([]int, n)
	cur := make([]string, n)
	for {
		for i := range idx {
			cur[i] = alpha[idx[i]]
		}
		f(cur)
		k := n - 1
		for k >= 0 {
			idx[k]++
			if idx[k] < len(alpha) {
				break
			}
			idx[k] = 0
			k--
		}
		if k < 0 {
			return
		}
	}
}

func (d *c14Drv) run(tier string) {
	full, red, nrnd, maxlen := 2, 3, 120, 8
	if tier == "thorough" {
		full, red, nrnd, maxlen = 3, 4, 1500, 12
	}
	if d.in.bs != d.f.NBytes { // wrappers whose compressor block is several elements: see known findings, keep short
		full, red, nrnd = 1, 2, 20
	}
	for n := 0; n <= full; n++ {
		c14Enumerate(c14Alphabet, n, d.history)
	}
	for n := full + 1; n <= red; n++ {
		c14Enumerate(c14Reduced, n, d.history)
	}
	for i := 0; i < nrnd; i++ {
		n := 3 + d.rng.Intn(maxlen-2)
		h := make([]string, n)
		for j := range h {
			h[j] = c14Alphabet[d.rng.Intn(len(c14Alphabet))]
		}
		d.history(h)
	}
}

// ---------------------------------------------------------------------------------------
// family drivers

func c14TraceName(family, field, suffix, config string) string {
	s := "c14_" + family + "_" + strings.NewReplacer("/", "_", "-", "").Replace(field)
	if suffix != "" {
		s += "_" + suffix
	}
	return s + "_" + config
}

func c14RunMimc(out, tier, config string, seed uint64, only map[string]bool) (events, files int) {
	for _, in := range c14MimcInsts() {
		if len(only) > 0 && !only[in.field] {
			continue
		}
		in.family = "mimc"
		f := fields[in.field]
		in.bs = f.NBytes
		// documented: Keccak chain over "seed", one constant per round (the specification checks the count against its own table)
		rounds := map[string]int{"bn254/fr": 110, "bls12-377/fr": 62, "bls12-381/fr": 111, "bls24-315/fr": 109, "bls24-317/fr": 91,
			"bw6-633/fr": 136, "bw6-761/fr": 163, "grumpkin/fr": 110}[in.field]
		suffix := ""
		if in.le {
			suffix = "le"
		}
		// NOTE the package-level Sum below is deliberately the FIRST use of the package in this process (no constructor has run
		// yet): a lazily initialised table of round constants that Sum forgets to trigger shows here (and in C18's fresh probe)
		t := newTrace(out, c14TraceName("mimc", in.field, suffix, config), Ev{"property": "C14", "family": "mimc", "field": in.field,
			"name": in.name, "le": in.le, "eb": f.NBytes, "config": config, "seed": int(seed % (1 << 30)), "cs": c14KeccakChain("seed", rounds)})
		d := &c14Drv{in: in, f: f, t: t, rng: newRng(seed*7919 + uint64(len(in.name))*31 + uint64(in.name[len(in.name)-1]))}
		t.Emit(Ev{"op": "Params"})
		if in.hasID {
			e := Ev{"op": "HashSize"}
			var r int
			if msg, pk := c14try(func() { r = in.id.Size() }); pk {
				e["panic"] = msg
			} else {
				e["ret"] = r
			}
			t.Emit(e)
		}
		if in.sum != nil { // package-level Sum(msg)
			msgs := [][]byte{nil, {}, {7}, d.rng.Bytes(f.NBytes - 1), d.block(true), append(d.block(true), d.block(true)...), d.block(false),
				append(d.block(true), d.block(false)...), append(d.block(true), 1, 2, 3)}
			for i := 0; i < 6; i++ {
				var m []byte
				for k := d.rng.Intn(4); k >= 0; k-- {
					m = append(m, d.block(true)...)
				}
				msgs = append(msgs, m)
			}
			for _, m := range msgs {
				e := Ev{"op": "MimcSum", "p": bytesToInts(m)}
				var o []byte
				var err error
				arg := c14clone(m)
				if msg, pk := c14try(func() { o, err = in.sum(arg) }); pk {
					e["panic"] = msg
				} else if err != nil {
					e["err"] = err.Error()
				} else {
					e["out"] = bytesToInts(o)
				}
				t.Emit(e)
			}
		}
		if in.consts != nil { // after the Sum events: GetConstants triggers the lazy initialisation
			e := Ev{"op": "MimcConstants"}
			if msg, pk := c14try(func() {
				cs := in.consts()
				l1 := make([][]int, len(cs))
				for i := range cs {
					l1[i] = digits(&cs[i])
					cs[i].SetInt64(int64(i)) // the reply is the caller's
				}
				cs2 := in.consts()
				l2 := make([][]int, len(cs2))
				for i := range cs2 {
					l2[i] = digits(&cs2[i])
				}
				e["cs"], e["cs2"] = l1, l2
			}); pk {
				e["panic"] = msg
			}
			t.Emit(e)
		}
		d.run(tier)
		events += t.Close()
		files++
	}
	return
}

func c14ErrOf(v reflect.Value) (string, bool) {
	if v.IsNil() {
		return "", false
	}
	return v.Interface().(error).Error(), true
}

func c14RunP2(out, tier, config string, seed uint64, only map[string]bool, small bool) (events, files int) {
	for _, pk := range c14P2Pkgs() {
		f := fields[pk.field]
		isSmall := !strings.Contains(pk.field, "/")
		if (len(only) > 0 && !only[pk.field]) || (small && !isSmall) {
			continue
		}
		var hp []Ev
		for _, p := range pk.params {
			seedStr := fmt.Sprintf("Poseidon2-%s[t=%d,rF=%d,rP=%d,d=%d]", pk.tag, p[0], p[1], p[2], pk.d)
			hp = append(hp, Ev{"t": p[0], "rf": p[1], "rp": p[2], "seed": seedStr, "rk": c14KeccakChain(seedStr, p[1]*p[0]+p[2])})
		}
		// one more instance: the default shape with a caller-chosen seed (NewPermutationWithSeed); the round keys are the
		// same documented chain started from that seed
		params := append([][3]int{}, pk.params...)
		customSeed := "verif/" + pk.field + "/caller-chosen seed"
		if pk.newSeed.IsValid() {
			p := pk.params[0]
			params = append(params, p)
			hp = append(hp, Ev{"t": p[0], "rf": p[1], "rp": p[2], "seed": customSeed, "rk": c14KeccakChain(customSeed, p[1]*p[0]+p[2])})
		}
		name := pk.id.String()
		t := newTrace(out, c14TraceName("p2", pk.field, "", config), Ev{"property": "C14", "family": "p2", "field": pk.field, "name": name,
			"le": false, "eb": f.NBytes, "config": config, "seed": int(seed % (1 << 30)), "p2": hp, "mdp": 1})
		rng := newRng(seed*104729 + uint64(len(pk.field))*131 + uint64(pk.field[2]))
		t.Emit(Ev{"op": "Params"})
		{
			e := Ev{"op": "HashSize"}
			var r int
			if msg, p := c14try(func() { r = pk.id.Size() }); p {
				e["panic"] = msg
			} else {
				e["ret"] = r
			}
			t.Emit(e)
		}
		nPerm, nComp := 10, 10
		if tier == "thorough" {
			nPerm, nComp = 80, 60
		}
		eb := f.NBytes
		for pi, p := range params {
			width := p[0]
			res, msg, pnk := []reflect.Value(nil), "", false
			if pi >= len(pk.params) {
				res, msg, pnk = call(pk.newSeed, reflect.ValueOf(p[0]), reflect.ValueOf(p[1]), reflect.ValueOf(p[2]), reflect.ValueOf(customSeed))
			} else {
				res, msg, pnk = call(pk.newPerm, reflect.ValueOf(p[0]), reflect.ValueOf(p[1]), reflect.ValueOf(p[2]))
			}
			if pnk {
				t.Emit(Ev{"op": "Perm", "pi": pi + 1, "in": []int{}, "panic": "NewPermutation: " + msg})
				continue
			}
			perm := res[0]
			mPerm, mComp := method(perm, "Permutation"), method(perm, "Compress")
			// --- Permutation on raw vectors
			vecs := [][]*big.Int{}
			constVec := func(v *big.Int, n int) []*big.Int {
				o := make([]*big.Int, n)
				for i := range o {
					o[i] = f.ToMont(v)
				}
				return o
			}
			vecs = append(vecs, constVec(big.NewInt(0), width), constVec(big.NewInt(1), width), constVec(new(big.Int).Sub(f.Q, big.NewInt(1)), width))
			lat := f.rawLattice(rng, 4)
			for i := 0; i < nPerm; i++ {
				v := make([]*big.Int, width)
				for j := range v {
					if rng.Intn(4) == 0 {
						v[j] = lat[rng.Intn(len(lat))]
					} else {
						v[j] = rng.Below(f.Q)
					}
				}
				vecs = append(vecs, v)
			}
			// wrong lengths: must be refused with an error, input untouched
			for _, n := range []int{0, width - 1, width + 1} {
				v := make([]*big.Int, n)
				for j := range v {
					v[j] = rng.Below(f.Q)
				}
				vecs = append(vecs, v)
			}
			for _, v := range vecs {
				vec := f.NewVec(v)
				e := Ev{"op": "Perm", "pi": pi + 1, "in": f.VecRaw(vec)}
				r, msg, pnk := call(mPerm, vec.Convert(reflect.SliceOf(f.ElemT)))
				if pnk {
					e["panic"] = msg
				} else {
					e["out"] = f.VecRaw(vec)
					if s, ok := c14ErrOf(r[0]); ok {
						e["err"] = s
					}
				}
				t.Emit(e)
			}
			// --- Compress on byte strings
			d := &c14Drv{in: &c14Inst{bs: (width / 2) * eb}, f: f, rng: rng}
			type lr struct{ l, r []byte }
			var cases []lr
			for i := 0; i < nComp; i++ {
				cases = append(cases, lr{d.block(true), d.block(true)})
			}
			zero := make([]byte, d.in.bs)
			cases = append(cases, lr{zero, zero}, lr{d.block(false), d.block(true)}, lr{d.block(true), d.block(false)},
				lr{d.block(true)[:d.in.bs-1], d.block(true)}, lr{d.block(true), append(d.block(true), 0)}, lr{nil, d.block(true)},
				lr{d.block(true), nil}, lr{d.block(true)[:eb], d.block(true)[:eb]})
			for _, c := range cases {
				l, r := c14clone(c.l), c14clone(c.r)
				e := Ev{"op": "Compress", "pi": pi + 1, "l": bytesToInts(c.l), "r": bytesToInts(c.r)}
				rr, msg, pnk := call(mComp, reflect.ValueOf(l), reflect.ValueOf(r))
				if pnk {
					e["panic"] = msg
				} else {
					e["lafter"], e["rafter"] = bytesToInts(l), bytesToInts(r)
					if s, ok := c14ErrOf(rr[1]); ok {
						e["err"] = s
					} else {
						e["out"] = bytesToInts(rr[0].Bytes())
					}
				}
				t.Emit(e)
			}
		}
		// --- the hash wrapper (Merkle-Damgard over the default compressor), constructor and registry
		def := pk.params[0]
		in := &c14Inst{name: name, field: pk.field, family: "p2", ctor: pk.newMD, id: pk.id, hasID: true, bs: (def[0] / 2) * eb}
		d := &c14Drv{in: in, f: f, t: t, rng: rng}
		d.run(tier)
		events += t.Close()
		files++
	}
	return
}

func c14RunSis(out, tier, config string, seed uint64, only map[string]bool, small bool) (events, files int) {
	type ps struct {
		seed          int64
		logd, lb, max int
	}
	for _, pk := range c14SisPkgs() {
		f := fields[pk.field]
		isSmall := !strings.Contains(pk.field, "/")
		if (len(only) > 0 && !only[pk.field]) || (small && !isSmall) {
			continue
		}
		eb := f.NBytes
		sets := []ps{{5, 1, 1, 3}, {7, 2, 2, 5}, {11, 3, 1, 4}, {-3, 3, 2, 9}, {13, 6, 2, 2 * 64 / (eb / 2)}, {1, 4, 1, 1}}
		if tier == "thorough" {
			sets = append(sets, ps{17, 6, 1, 150 / eb}, ps{19, 5, 2, 70}, ps{23, 7, 2, 40})
		}
		if pk.field == "koalabear" || pk.field == "babybear" {
			// degree 512, 16-bit limbs: the AVX-512 kernel (2 polynomials, the second partly filled); also in the quick tier, the
			// destination holds other values before the call
			sets = append(sets, ps{29, 9, 2, 300})
		}
		rng := newRng(seed*15485863 + uint64(len(pk.field))*17 + uint64(pk.field[1]))
		var hs []Ev
		for _, s := range sets {
			d := 1 << s.logd
			limbs := s.max * (eb / s.lb)
			npoly := (limbs + d - 1) / d
			hs = append(hs, Ev{"seed": int(s.seed), "logd": s.logd, "lb": s.lb, "max": s.max, "key": c14SisKey(s.seed, npoly, d)})
		}
		t := newTrace(out, c14TraceName("sis", pk.field, "", config), Ev{"property": "C14", "family": "sis", "field": pk.field,
			"name": "SIS", "config": config, "seed": int(seed % (1 << 30)), "sis": hs})
		t.Emit(Ev{"op": "Params"})
		for si, s := range sets {
			d := 1 << s.logd
			res, msg, pnk := call(pk.newSis, reflect.ValueOf(s.seed), reflect.ValueOf(s.logd), reflect.ValueOf(8*s.lb), reflect.ValueOf(s.max))
			e := Ev{"op": "SisNew", "si": si + 1}
			if pnk {
				e["panic"] = msg
				t.Emit(e)
				continue
			}
			if es, ok := c14ErrOf(res[1]); ok {
				e["err"] = es
				t.Emit(e)
				continue
			}
			rs := res[0]
			A := rs.Elem().FieldByName("A")
			var a [][][]int
			for i := 0; i < A.Len(); i++ {
				a = append(a, f.VecRaw(A.Index(i)))
			}
			if a == nil {
				a = [][][]int{}
			}
			e["A"] = a
			t.Emit(e)
			mHash := method(rs, "Hash")
			nrnd := 4
			if tier == "thorough" {
				nrnd = 10
			}
			if d >= 512 {
				nrnd = 1
			}
			type hc struct {
				v      []*big.Int
				reslen int
			}
			mk := func(n int, gen func(int) *big.Int) []*big.Int {
				o := make([]*big.Int, n)
				for i := range o {
					o[i] = gen(i)
				}
				return o
			}
			qm1 := new(big.Int).Sub(f.Q, big.NewInt(1))
			cases := []hc{{mk(0, nil), d}, {mk(1, func(int) *big.Int { return big.NewInt(1) }), d},
				{mk(s.max, func(int) *big.Int { return big.NewInt(0) }), d},
				{mk(s.max, func(int) *big.Int { return qm1 }), d},
				{mk(s.max+1, func(int) *big.Int { return big.NewInt(2) }), d}, // too many elements: error
				{mk(1, func(int) *big.Int { return big.NewInt(3) }), d - 1},   // wrong result length: error
				{mk(1, func(int) *big.Int { return big.NewInt(3) }), d + 1}}
			if d >= 512 {
				cases = cases[:1]
				cases = append(cases, hc{mk(s.max, func(int) *big.Int { return qm1 }), d})
			}
			for i := 0; i < nrnd; i++ {
				n := 1 + rng.Intn(s.max)
				if i == 0 {
					n = s.max
				}
				sparse := rng.Intn(3) == 0
				cases = append(cases, hc{mk(n, func(int) *big.Int {
					if sparse && rng.Intn(3) != 0 {
						return big.NewInt(0)
					}
					if rng.Intn(5) == 0 {
						return big.NewInt(int64(rng.Intn(70000)))
					}
					return rng.Below(f.Q)
				}), d})
			}
			for _, c := range cases {
				raws := make([]*big.Int, len(c.v))
				for i, v := range c.v {
					raws[i] = f.ToMont(v)
				}
				v := f.NewVec(raws)
				garbage := make([]*big.Int, c.reslen)
				for i := range garbage {
					garbage[i] = rng.Below(f.Q)
				}
				out := f.NewVec(garbage)
				e := Ev{"op": "SisHash", "si": si + 1, "v": f.VecRaw(v), "reslen": c.reslen}
				sl := reflect.SliceOf(f.ElemT)
				r, msg, pnk := call(mHash, v.Convert(sl), out.Convert(sl))
				if pnk {
					e["panic"] = msg
				} else {
					e["vafter"] = f.VecRaw(v)
					if es, ok := c14ErrOf(r[0]); ok {
						e["err"] = es
					} else {
						e["out"] = f.VecRaw(out)
					}
				}
				t.Emit(e)
			}
			// bls12-377, degree 64, 16-bit limbs: InnerHash takes a mask that selects one of 16 unrolled partial FFTs (bit i
			// clear = the i-th field element of the polynomial is zero). Hash always passes the full mask; here the hash is
			// assembled from InnerHash calls with the tightest admissible mask per polynomial, for every mask value.
			if pk.field == "bls12-377/fr" && s.logd == 6 && s.lb == 2 {
				rsis := rs.Interface().(*sis_bls12377.RSis)
				for m := 0; m < 16; m++ {
					masks := []uint64{uint64(m), uint64(15 - m)}
					vals := make([]*big.Int, 8)
					for i := range vals {
						if (masks[i/4]>>uint(i%4))&1 == 1 {
							vals[i] = rng.Below(f.Q)
							if vals[i].Sign() == 0 {
								vals[i].SetInt64(1)
							}
						} else {
							vals[i] = new(big.Int)
						}
					}
					raws := make([]*big.Int, len(vals))
					for i, v := range vals {
						raws[i] = f.ToMont(v)
					}
					v := f.NewVec(raws)
					e := Ev{"op": "SisHash", "si": si + 1, "v": f.VecRaw(v), "reslen": d, "via": "InnerHash", "masks": []int{m, 15 - m}}
					var outv []fr_bls12377.Element
					_, msg, pnk := call(reflect.ValueOf(func() {
						outv = c14SisInner377(rsis, v.Interface().(fr_bls12377.Vector), masks)
					}))
					if pnk {
						e["panic"] = msg
					} else {
						e["vafter"] = f.VecRaw(v)
						e["out"] = f.VecRaw(reflect.ValueOf(fr_bls12377.Vector(outv)))
					}
					t.Emit(e)
				}
			}
		}
		events += t.Close()
		files++
	}
	return
}

// c14SisInner377 is RSis.Hash written with InnerHash and one mask per polynomial
func c14SisInner377(r *sis_bls12377.RSis, v fr_bls12377.Vector, masks []uint64) []fr_bls12377.Element {
	res := make(fr_bls12377.Vector, r.Degree)
	k := make(fr_bls12377.Vector, r.Degree)
	kz := make(fr_bls12377.Vector, r.Degree)
	it := sis_bls12377.NewLimbIterator(sis_bls12377.NewVectorIterator(v), r.LogTwoBound/8)
	for i := 0; i < len(r.Ag); i++ {
		r.InnerHash(it, res, k, kz, i, masks[i])
	}
	r.Domain.FFTInverse(res, fft_bls12377.DIT, fft_bls12377.OnCoset(), fft_bls12377.WithNbTasks(1))
	return res
}

func runC14(args []string) {
	fs := flag.NewFlagSet("c14", flag.ExitOnError)
	out := fs.String("out", ".", "output directory")
	seed := fs.Uint64("seed", 1, "seed")
	tier := fs.String("tier", "quick", "quick|thorough")
	config := fs.String("config", "default", "configuration label")
	fam := fs.String("families", "mimc,p2,sis", "comma separated families")
	onlyF := fs.String("fields", "", "comma separated field names (default all)")
	small := fs.Bool("small", false, "only the small fields (koalabear, babybear, goldilocks)")
	fs.Parse(args)
	only := map[string]bool{}
	if *onlyF != "" {
		for _, n := range strings.Split(*onlyF, ",") {
			only[n] = true
		}
	}
	ev, files := 0, 0
	for _, fa := range strings.Split(*fam, ",") {
		var e, n int
		switch fa {
		case "mimc":
			if !*small {
				e, n = c14RunMimc(*out, *tier, *config, *seed, only)
			}
		case "p2":
			e, n = c14RunP2(*out, *tier, *config, *seed, only, *small)
		case "sis":
			e, n = c14RunSis(*out, *tier, *config, *seed, only, *small)
		default:
			fatal("c14: unknown family %s", fa)
		}
		ev += e
		files += n
	}
	fmt.Printf("c14: %d events, %d traces\n", ev, files)
}
