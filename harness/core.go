package main

// Core of the conformance harness: reflective access to gnark-crypto values, the ndjson
// event writer and the deterministic input generators. The harness never judges a result:
// it records raw representations (Montgomery limbs, coordinates, bytes, errors, panics) and
// the TLA+ trace specifications under /verif/spec decide.

import (
	"bufio"
	"encoding/json"
	"fmt"
	"math/big"
	"os"
	"path/filepath"
	"reflect"
	"sort"
	"strings"
)

// ---------------------------------------------------------------------------------------
// BigNat encoding: little-endian base-2^15 digits, no leading zero (matches spec/lib/BigNat)

const digitBits = 15

func digits(x *big.Int) []int {
	if x.Sign() < 0 {
		panic("digits: negative")
	}
	n := (x.BitLen() + digitBits - 1) / digitBits
	out := make([]int, n)
	words := x.Bits()
	const W = 64 // amd64 only
	for i := 0; i < n; i++ {
		bp := i * digitBits
		wi, off := bp/W, uint(bp%W)
		v := uint64(words[wi]) >> off
		if off+digitBits > W && wi+1 < len(words) {
			v |= uint64(words[wi+1]) << (W - off)
		}
		out[i] = int(v & (1<<digitBits - 1))
	}
	return out
}

// zint encodes a signed integer as the spec's [neg, mag] record.
func zint(x *big.Int) map[string]any {
	return map[string]any{"neg": x.Sign() < 0, "mag": digits(new(big.Int).Abs(x))}
}

func bytesToInts(b []byte) []int {
	out := make([]int, len(b))
	for i, v := range b {
		out[i] = int(v)
	}
	return out
}

// ---------------------------------------------------------------------------------------
// Event writer

type Ev map[string]any

type TraceWriter struct {
	f    *os.File
	w    *bufio.Writer
	n    int
	path string
}

func newTrace(dir, name string, hdr Ev) *TraceWriter {
	p := filepath.Join(dir, name+".ndjson")
	f, err := os.Create(p)
	if err != nil {
		fatal("create trace: %v", err)
	}
	t := &TraceWriter{f: f, w: bufio.NewWriterSize(f, 1<<20), path: p}
	hdr["hdr"] = 1
	t.write(hdr)
	return t
}

func (t *TraceWriter) write(e Ev) {
	b, err := json.Marshal(e)
	if err != nil {
		fatal("marshal: %v", err)
	}
	t.w.Write(b)
	t.w.WriteByte('\n')
	if flushEach {
		t.w.Flush()
	}
}

// VERIF_FLUSH=1 flushes after every event, so that the log survives a crash in a library goroutine
var flushEach = os.Getenv("VERIF_FLUSH") != ""

func (t *TraceWriter) Emit(e Ev) {
	t.n++
	t.write(e)
}

func (t *TraceWriter) Close() int {
	t.w.Flush()
	t.f.Close()
	return t.n
}

func fatal(format string, a ...any) {
	fmt.Fprintf(os.Stderr, "harness: "+format+"\n", a...)
	os.Exit(2)
}

// ---------------------------------------------------------------------------------------
// Deterministic PRNG (splitmix64) so that a seed reproduces the inputs exactly

type Rng struct{ s uint64 }

func newRng(seed uint64) *Rng { return &Rng{s: seed*0x9E3779B97F4A7C15 + 0x1234567} }

func (r *Rng) U64() uint64 {
	r.s += 0x9E3779B97F4A7C15
	z := r.s
	z = (z ^ (z >> 30)) * 0xBF58476D1CE4E5B9
	z = (z ^ (z >> 27)) * 0x94D049BB133111EB
	return z ^ (z >> 31)
}
func (r *Rng) Intn(n int) int { return int(r.U64() % uint64(n)) }
func (r *Rng) Big(bits int) *big.Int {
	x := new(big.Int)
	for x.BitLen() < bits+64 {
		x.Lsh(x, 64).Or(x, new(big.Int).SetUint64(r.U64()))
	}
	return x.Rsh(x, uint(x.BitLen()-bits))
}
func (r *Rng) Below(q *big.Int) *big.Int {
	x := r.Big(q.BitLen() + 64)
	return x.Mod(x, q)
}
func (r *Rng) Bytes(n int) []byte {
	b := make([]byte, n)
	for i := range b {
		b[i] = byte(r.U64())
	}
	return b
}

// ---------------------------------------------------------------------------------------
// Field registry (filled by reg_gen.go)

type Field struct {
	Name   string
	Path   string
	ElemT  reflect.Type
	VecT   reflect.Type
	Funcs  map[string]reflect.Value
	Q      *big.Int
	Limbs  int
	WBits  int      // 64 or 32
	R      *big.Int // Montgomery radix 2^(WBits*Limbs)
	Rinv   *big.Int
	NBytes int
}

var fields = map[string]*Field{}
var fieldNames []string

func registerField(f *Field) {
	f.Q = f.Funcs["Modulus"].Call(nil)[0].Interface().(*big.Int)
	f.Limbs = f.ElemT.Len()
	f.WBits = f.ElemT.Elem().Bits()
	f.R = new(big.Int).Lsh(big.NewInt(1), uint(f.WBits*f.Limbs))
	f.Rinv = new(big.Int).ModInverse(f.R, f.Q)
	f.NBytes = (f.Q.BitLen() + 7) / 8
	fields[f.Name] = f
	fieldNames = append(fieldNames, f.Name)
	sort.Strings(fieldNames)
}

// New returns a *Element (zero).
func (f *Field) New() reflect.Value { return reflect.New(f.ElemT) }

// Raw reads the limbs of *Element as one integer (no library routine involved).
func (f *Field) Raw(p reflect.Value) *big.Int {
	a := p.Elem()
	x := new(big.Int)
	for i := f.Limbs - 1; i >= 0; i-- {
		x.Lsh(x, uint(f.WBits)).Or(x, new(big.Int).SetUint64(a.Index(i).Uint()))
	}
	return x
}

// SetRaw writes limbs directly.
func (f *Field) SetRaw(p reflect.Value, x *big.Int) {
	a := p.Elem()
	mask := new(big.Int).Sub(new(big.Int).Lsh(big.NewInt(1), uint(f.WBits)), big.NewInt(1))
	t := new(big.Int).Set(x)
	for i := 0; i < f.Limbs; i++ {
		a.Index(i).SetUint(new(big.Int).And(t, mask).Uint64())
		t.Rsh(t, uint(f.WBits))
	}
	if t.Sign() != 0 {
		panic("SetRaw: value too large")
	}
}

// NewRaw returns a fresh *Element holding the raw limbs x.
func (f *Field) NewRaw(x *big.Int) reflect.Value {
	p := f.New()
	f.SetRaw(p, x)
	return p
}

// ToMont / value helpers use math/big only (input construction, never judging).
func (f *Field) ToMont(v *big.Int) *big.Int {
	x := new(big.Int).Mul(v, f.R)
	return x.Mod(x, f.Q)
}
func (f *Field) NewVal(v *big.Int) reflect.Value {
	return f.NewRaw(f.ToMont(new(big.Int).Mod(v, f.Q)))
}

var newVecCount int

// NewVec builds a Vector from raw values. It is a window into a larger array at a rotating offset (a fresh allocation is
// 64-byte aligned, a window is not: vector kernels must not assume alignment), with spare capacity behind it.
func (f *Field) NewVec(raws []*big.Int) reflect.Value {
	newVecCount++
	off := newVecCount % 4
	v := reflect.MakeSlice(f.VecT, len(raws)+off+2, len(raws)+off+2).Slice(off, off+len(raws))
	for i, r := range raws {
		f.SetRaw(v.Index(i).Addr(), r)
	}
	return v
}
func (f *Field) VecRaw(v reflect.Value) [][]int {
	out := make([][]int, v.Len())
	for i := range out {
		out[i] = digits(f.Raw(v.Index(i).Addr()))
	}
	return out
}

// call invokes fn and converts a panic into a message.
func call(fn reflect.Value, args ...reflect.Value) (out []reflect.Value, panicMsg string, panicked bool) {
	defer func() {
		if r := recover(); r != nil {
			panicked = true
			panicMsg = strings.SplitN(fmt.Sprint(r), "\n", 2)[0]
			if len(panicMsg) > 120 {
				panicMsg = panicMsg[:120]
			}
		}
	}()
	out = fn.Call(args)
	return
}

func method(p reflect.Value, name string) reflect.Value {
	m := p.MethodByName(name)
	if !m.IsValid() {
		fatal("method %s not found on %s", name, p.Type())
	}
	return m
}

// ---------------------------------------------------------------------------------------
// Operand lattices

// rawLattice returns raw (Montgomery) limb patterns below q that sit on every
// carry / borrow / final-subtraction boundary, plus structured values.
func (f *Field) rawLattice(r *Rng, nRandomLattice int) []*big.Int {
	q := f.Q
	one := big.NewInt(1)
	var out []*big.Int
	add := func(x *big.Int) {
		if x.Sign() >= 0 && x.Cmp(q) < 0 {
			out = append(out, new(big.Int).Set(x))
		}
	}
	add(big.NewInt(0))
	add(one)
	add(big.NewInt(2))
	add(new(big.Int).Sub(q, one))
	add(new(big.Int).Sub(q, big.NewInt(2)))
	half := new(big.Int).Rsh(new(big.Int).Sub(q, one), 1)
	add(half)
	add(new(big.Int).Add(half, one))
	// Montgomery forms of small values and of -1, 1/2
	for _, v := range []int64{1, 2, 3, 5, 13, -1, -2} {
		add(f.ToMont(new(big.Int).Mod(big.NewInt(v), q)))
	}
	add(f.ToMont(new(big.Int).ModInverse(big.NewInt(2), q)))
	add(f.ToMont(half))
	// 2^k and 2^k-1 around limb boundaries
	for k := 1; k < q.BitLen(); k++ {
		if k%f.WBits <= 1 || k%f.WBits == f.WBits-1 || k == q.BitLen()-1 {
			p := new(big.Int).Lsh(one, uint(k))
			add(p)
			add(new(big.Int).Sub(p, one))
			add(new(big.Int).Sub(q, p))
		}
	}
	// boundaries of a multiplication by a small constant c (MulBy3/5/7/11/13, non-residue multipliers of the towers): the
	// values where c*x crosses a multiple of q, and where c*x crosses a multiple of the radix 2^(w*limbs)
	radix := new(big.Int).Lsh(one, uint(f.WBits*f.Limbs))
	for _, c := range []int64{3, 5, 7, 11, 13} {
		for k := int64(1); k < c; k++ {
			for _, base := range []*big.Int{q, radix} {
				v := new(big.Int).Div(new(big.Int).Mul(big.NewInt(k), base), big.NewInt(c))
				add(v)
				add(new(big.Int).Add(v, one))
			}
		}
	}
	// per-limb lattice {0,1,2^(w-1),2^w-1,q_i,q_i-1,q_i+1}: random points of the product
	w := uint(f.WBits)
	mask := new(big.Int).Sub(new(big.Int).Lsh(one, w), one)
	for n := 0; n < nRandomLattice; n++ {
		x := new(big.Int)
		for i := f.Limbs - 1; i >= 0; i-- {
			qi := new(big.Int).And(new(big.Int).Rsh(q, w*uint(i)), mask)
			var li *big.Int
			switch r.Intn(8) {
			case 0:
				li = big.NewInt(0)
			case 1:
				li = big.NewInt(1)
			case 2:
				li = new(big.Int).Lsh(one, w-1)
			case 3:
				li = new(big.Int).Set(mask)
			case 4:
				li = qi
			case 5:
				li = new(big.Int).Sub(qi, one)
			case 6:
				li = new(big.Int).Add(qi, one)
			default:
				li = new(big.Int).SetUint64(r.U64())
			}
			li.And(li, mask)
			if li.Sign() < 0 {
				li.SetInt64(0)
			}
			x.Lsh(x, w).Or(x, li)
		}
		if x.Cmp(q) >= 0 {
			x.Mod(x, q)
		}
		add(x)
	}
	return out
}
