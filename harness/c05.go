package main

// C05 driver: the pairing entry points of the 7 pairing curves.
//
// Points are [a]G1 / [b]G2 built with the library's ScalarMultiplication (construction only); every
// event logs the exponents together with the raw coordinates actually passed, the raw reply (GT
// coordinates / bool / error string / panic) and the raw arguments after the call.  Lines objects
// (the [][2][N]LineEvaluationAff argument of the fixed-Q variants) are logged by id with a SHA-256
// digest of their raw limbs before and after every call.  Nothing is judged here:
// spec/C05_pairing/TracePairing.tla decides.
//
// Three traces per curve (each split into shards of ~2500 events, every shard self-contained):
//   c05_<curve>_model   vectors of the small model MCPairing (balanced exponents -3..3, 0 = infinity)
//                       lifted to the real group order: every (a, b) for k = 1, the k = 2 domain
//                       (all in the thorough tier, the cancelling ones + a seeded sample in the quick
//                       tier), infinity at each position, k = 4 and 9, size mismatches
//   c05_<curve>_model3  the k = 3 domain of the model
//   c05_<curve>_random  seeded full-size exponents: (a, s/a), cancelling vectors, full-size products

import (
	"crypto/sha256"
	"encoding/binary"
	"flag"
	"fmt"
	"math/big"
	"reflect"
	"strings"
	"sync"
)

func init() { register("c05", runC05) }

type c05pt struct {
	exp *big.Int
	v   reflect.Value // *G1Affine / *G2Affine
}

type c05drv struct {
	c      *Curve
	t      *TraceWriter
	g1, g2 *Group
	r      *big.Int // group order
	rng    *Rng
	cache  map[string]c05pt
	lines  map[int]reflect.Value // lines objects: id -> [][2][N]LineEvaluationAff
	nextID int
	linesT reflect.Type
	full   bool // thorough tier
	// trace shards: a new file (starting with its own Generators event) every shardCost cost units
	out, base string
	hdr       Ev
	shard     int
	cost      int
	events    int
}

const c05shardCost = 2500

// point returns [x mod r]G (cached, so that identical exponents give identical raw coordinates)
func (d *c05drv) point(g *Group, x *big.Int) c05pt {
	e := new(big.Int).Mod(x, d.r)
	key := g.G + e.String()
	if p, ok := d.cache[key]; ok {
		return p
	}
	p := c05pt{exp: e, v: g.MulGen(e)}
	d.cache[key] = p
	return p
}
func (d *c05drv) p1(x int64) c05pt { return d.point(d.g1, big.NewInt(x)) }
func (d *c05drv) p2(x int64) c05pt { return d.point(d.g2, big.NewInt(x)) }

func c05slice(t reflect.Type, pts []c05pt) reflect.Value {
	s := reflect.MakeSlice(reflect.SliceOf(t), len(pts), len(pts))
	for i, p := range pts {
		s.Index(i).Set(p.v.Elem())
	}
	return s
}

func c05encSlice(s reflect.Value) []any {
	out := make([]any, s.Len())
	for i := range out {
		out[i] = enc(s.Index(i))
	}
	return out
}

func c05exps(pts []c05pt) [][]int {
	out := make([][]int, len(pts))
	for i, p := range pts {
		out[i] = digits(p.exp)
	}
	return out
}

// c05digest hashes the raw limbs of any value (arrays / structs of field elements).
func c05digest(v reflect.Value) []int {
	h := sha256.New()
	var walk func(v reflect.Value)
	var buf [8]byte
	walk = func(v reflect.Value) {
		switch v.Kind() {
		case reflect.Uint64, reflect.Uint32:
			binary.LittleEndian.PutUint64(buf[:], v.Uint())
			h.Write(buf[:])
		case reflect.Array, reflect.Slice:
			for i := 0; i < v.Len(); i++ {
				walk(v.Index(i))
			}
		case reflect.Struct:
			for i := 0; i < v.NumField(); i++ {
				walk(v.Field(i))
			}
		default:
			fatal("c05digest: unsupported kind %s", v.Kind())
		}
	}
	walk(v)
	return bytesToInts(h.Sum(nil))
}

func c05digs(lines reflect.Value) [][]int {
	out := make([][]int, lines.Len())
	for i := range out {
		out[i] = c05digest(lines.Index(i))
	}
	return out
}

func c05err(v reflect.Value) (string, bool) {
	if v.IsNil() {
		return "", false
	}
	return v.Interface().(error).Error(), true
}

// reply stores the raw reply of a (value, error) call into the event
func c05reply(e Ev, out []reflect.Value, pm string, pk bool) {
	if pk {
		e["panic"] = pm
		return
	}
	if msg, isErr := c05err(out[len(out)-1]); isErr {
		e["err"] = msg
		return
	}
	if out[0].Kind() == reflect.Bool {
		e["ret"] = out[0].Bool()
	} else {
		e["out"] = enc(out[0])
	}
}

func (d *c05drv) finalExp(fs ...reflect.Value) ([]reflect.Value, string, bool) {
	args := make([]reflect.Value, len(fs))
	for i, f := range fs {
		p := reflect.New(f.Type())
		p.Elem().Set(f)
		args[i] = p
	}
	out, pm, pk := call(d.c.Funcs["FinalExponentiation"], args...)
	if pk {
		return nil, pm, true
	}
	var nilErr error
	return []reflect.Value{out[0], reflect.ValueOf(&nilErr).Elem()}, "", false
}

// pairOp runs one variant taking (P, Q)
func (d *c05drv) pairOp(op string, ps, qs []c05pt, split int) {
	if _, ok := d.c.Funcs[strings.TrimSuffix(op, "FE")]; op == "MillerLoopDirectFE" && !ok {
		return
	}
	P := c05slice(d.g1.AffT, ps)
	Q := c05slice(d.g2.AffT, qs)
	e := Ev{"op": op, "a": c05exps(ps), "b": c05exps(qs), "P": c05encSlice(P), "Q": c05encSlice(Q)}
	var out []reflect.Value
	var pm string
	var pk bool
	switch op {
	case "Pair", "PairingCheck":
		out, pm, pk = call(d.c.Funcs[op], P, Q)
	case "MillerLoopFE", "MillerLoopDirectFE":
		out, pm, pk = call(d.c.Funcs[strings.TrimSuffix(op, "FE")], P, Q)
		if !pk && out[1].IsNil() {
			out, pm, pk = d.finalExp(out[0])
		}
	case "MillerLoopFE2":
		e["split"] = split
		out, pm, pk = call(d.c.Funcs["MillerLoop"], P.Slice(0, split), Q.Slice(0, split))
		if !pk && out[1].IsNil() {
			f1 := out[0]
			out, pm, pk = call(d.c.Funcs["MillerLoop"], P.Slice(split, P.Len()), Q.Slice(split, Q.Len()))
			if !pk && out[1].IsNil() {
				out, pm, pk = d.finalExp(f1, out[0])
			}
		}
	case "MillerLoopFEeach":
		// one Miller loop per pair, a single FinalExponentiation of all of them (the variadic form with >= 3 operands)
		var fs []reflect.Value
		for i := 0; i < P.Len() && !pk; i++ {
			out, pm, pk = call(d.c.Funcs["MillerLoop"], P.Slice(i, i+1), Q.Slice(i, i+1))
			if pk || !out[1].IsNil() {
				break
			}
			fs = append(fs, out[0])
		}
		if !pk && len(fs) == P.Len() {
			out, pm, pk = d.finalExp(fs...)
		}
	default:
		fatal("c05: unknown op %s", op)
	}
	c05reply(e, out, pm, pk)
	e["Pafter"] = c05encSlice(P)
	e["Qafter"] = c05encSlice(Q)
	d.emit(e)
}

// newLines creates an empty lines object and returns its id
func (d *c05drv) newLines() int {
	d.nextID++
	d.lines[d.nextID] = reflect.MakeSlice(d.linesT, 0, 4)
	return d.nextID
}

// precompute: lines[id] = append(lines[id], PrecomputeLines(Q))
func (d *c05drv) precompute(id int, q c05pt) {
	Q := clonePtr(q.v)
	e := Ev{"op": "PrecomputeLines", "lid": id, "b": digits(q.exp), "Q": enc(Q)}
	out, pm, pk := call(d.c.Funcs["PrecomputeLines"], Q.Elem())
	if pk {
		e["panic"] = pm
	} else {
		d.lines[id] = reflect.Append(d.lines[id], out[0])
		e["dig"] = c05digest(out[0])
		e["slot"] = d.lines[id].Len()
	}
	e["Qafter"] = enc(Q)
	d.emit(e)
}

func (d *c05drv) linesFor(qs []c05pt) int {
	id := d.newLines()
	for _, q := range qs {
		d.precompute(id, q)
	}
	return id
}

// fixedOp runs one fixed-Q variant on the lines object id (the SAME memory at every use)
func (d *c05drv) fixedOp(op string, ps []c05pt, id int) {
	P := c05slice(d.g1.AffT, ps)
	lines := d.lines[id]
	e := Ev{"op": op, "a": c05exps(ps), "P": c05encSlice(P), "lid": id, "digs": c05digs(lines)}
	var out []reflect.Value
	var pm string
	var pk bool
	switch op {
	case "PairFixedQ", "PairingCheckFixedQ":
		out, pm, pk = call(d.c.Funcs[op], P, lines)
	case "MillerLoopFixedQFE":
		out, pm, pk = call(d.c.Funcs["MillerLoopFixedQ"], P, lines)
		if !pk && out[1].IsNil() {
			out, pm, pk = d.finalExp(out[0])
		}
	default:
		fatal("c05: unknown op %s", op)
	}
	c05reply(e, out, pm, pk)
	e["Pafter"] = c05encSlice(P)
	e["digsafter"] = c05digs(lines)
	d.emit(e)
}

// battery runs the computation variants on one vector of pairs.
//   level 0: Pair, PairingCheck, PairFixedQ on fresh lines
//   level 1: every variant, each fixed-Q variant on fresh lines, then one lines object used three times
func (d *c05drv) battery(ps, qs []c05pt, level int) {
	d.rotate()
	k := len(ps)
	d.pairOp("Pair", ps, qs, 0)
	d.pairOp("PairingCheck", ps, qs, 0)
	d.fixedOp("PairFixedQ", ps, d.linesFor(qs))
	if level == 0 {
		return
	}
	d.pairOp("MillerLoopFE", ps, qs, 0)
	if k >= 2 {
		d.pairOp("MillerLoopFE2", ps, qs, 1+d.rng.Intn(k-1))
	}
	if k >= 3 && len(qs) == k {
		d.pairOp("MillerLoopFEeach", ps, qs, 0)
	}
	d.pairOp("MillerLoopDirectFE", ps, qs, 0)
	d.fixedOp("PairingCheckFixedQ", ps, d.linesFor(qs))
	d.fixedOp("MillerLoopFixedQFE", ps, d.linesFor(qs))
	// history on one lines object: the i-th use must answer like the first
	id := d.linesFor(qs)
	d.fixedOp("PairFixedQ", ps, id)
	d.fixedOp("PairingCheckFixedQ", ps, id)
	d.fixedOp("MillerLoopFixedQFE", ps, id)
}

func (d *c05drv) vec(as, bs []int64) ([]c05pt, []c05pt) {
	ps := make([]c05pt, len(as))
	qs := make([]c05pt, len(bs))
	for i, a := range as {
		ps[i] = d.p1(a)
	}
	for i, b := range bs {
		qs[i] = d.p2(b)
	}
	return ps, qs
}

// mismatches: argument lists of different lengths, empty lists
func (d *c05drv) mismatches() {
	d.rotate()
	ps, qs := d.vec([]int64{1, 2, -1}, []int64{1, 1, 3})
	for _, c := range [][2]int{{0, 0}, {0, 1}, {1, 0}, {1, 2}, {2, 1}, {3, 2}, {2, 3}} {
		for _, op := range []string{"Pair", "PairingCheck", "MillerLoopFE", "MillerLoopDirectFE"} {
			d.pairOp(op, ps[:c[0]], qs[:c[1]], 0)
		}
		id := d.linesFor(qs[:c[1]])
		for _, op := range []string{"PairFixedQ", "PairingCheckFixedQ", "MillerLoopFixedQFE"} {
			d.fixedOp(op, ps[:c[0]], id)
		}
	}
}

func c05dot(as, bs []int64) int64 {
	var s int64
	for i := range as {
		s += as[i] * bs[i]
	}
	return s
}

// c05enum enumerates dom^n
func c05enum(dom []int64, n int, f func(v []int64)) {
	v := make([]int64, n)
	var rec func(i int)
	rec = func(i int) {
		if i == n {
			f(append([]int64(nil), v...))
			return
		}
		for _, x := range dom {
			v[i] = x
			rec(i + 1)
		}
	}
	rec(0)
}

func (d *c05drv) runModel() {
	full := d.full
	lvl := func(i int) int {
		if full || i%4 == 0 {
			return 1
		}
		return 0
	}
	// k = 1: every (a, b) of the balanced domain -3..3 (Z_7 of the model)
	n := 0
	c05enum([]int64{-3, -2, -1, 0, 1, 2, 3}, 2, func(v []int64) {
		ps, qs := d.vec(v[:1], v[1:])
		d.battery(ps, qs, lvl(n))
		n++
	})
	// k = 2: domain {-1, 0, 1, 2}^4; quick: the cancelling vectors with non-trivial terms and a seeded sample
	c05enum([]int64{-1, 0, 1, 2}, 4, func(v []int64) {
		as, bs := v[:2], v[2:]
		cancels := c05dot(as, bs) == 0 && as[0]*bs[0] != 0
		if !(full || cancels || d.rng.Intn(8) == 0) {
			return
		}
		ps, qs := d.vec(as, bs)
		d.battery(ps, qs, lvl(n))
		n++
	})
	// infinity at each position of P and of Q, k = 3 and 4, around a cancelling and a non-cancelling vector
	for _, base := range [][2][]int64{{{1, 2, 1}, {1, -1, 1}}, {{2, 1, 3}, {1, 1, 1}}, {{1, 1, 1, 1}, {1, -1, 2, -2}}} {
		for pos := 0; pos < len(base[0]); pos++ {
			for side := 0; side < 2; side++ {
				as := append([]int64(nil), base[0]...)
				bs := append([]int64(nil), base[1]...)
				if side == 0 {
					as[pos] = 0
				} else {
					bs[pos] = 0
				}
				ps, qs := d.vec(as, bs)
				d.battery(ps, qs, 1)
			}
		}
	}
	// all pairs infinite
	ps, qs := d.vec([]int64{0, 0, 1}, []int64{1, 0, 0})
	d.battery(ps, qs, 1)
	// k = 4 and k = 9
	for _, v := range [][2][]int64{
		{{1, 1, 1, 1}, {1, -1, 1, -1}},
		{{1, 2, 3, -1}, {1, 1, 1, 2}},
		{{1, 1, 1, 1, 2, 2, 0, 3, 1}, {1, -1, 1, -1, 1, -1, 2, 0, 0}},
		{{1, 2, 3, 1, 2, 3, 1, 2, 3}, {1, 1, 1, -1, -1, -1, 1, 0, 1}},
	} {
		ps, qs := d.vec(v[0], v[1])
		d.battery(ps, qs, 1)
	}
	d.mismatches()
}

// runModel3: k = 3, the domain of the model (MCPairing.cfg): a in {0, 1, 3, -1}^3, b in {0, 1, -1}^3;
// thorough: all 1728 vectors; quick: cancelling vectors with three non-trivial terms and a seeded sample
func (d *c05drv) runModel3() {
	full := d.full
	n := 0
	c05enum([]int64{0, 1, 3, -1}, 3, func(as []int64) {
		c05enum([]int64{0, 1, -1}, 3, func(bs []int64) {
			nz := 0
			for i := range as {
				if as[i]*bs[i] != 0 {
					nz++
				}
			}
			cancels := c05dot(as, bs) == 0 && nz == 3
			if !(full || (cancels && d.rng.Intn(2) == 0) || d.rng.Intn(60) == 0) {
				return
			}
			ps, qs := d.vec(as, bs)
			lv := 1
			if full && n%6 != 0 {
				lv = 0
			}
			d.battery(ps, qs, lv)
			n++
		})
	})
}

func (d *c05drv) runRandom() {
	r := d.r
	rnd := func() *big.Int {
		for {
			x := d.rng.Below(r)
			if x.Sign() != 0 {
				return x
			}
		}
	}
	inv := func(x *big.Int) *big.Int { return new(big.Int).ModInverse(x, r) }
	mulm := func(x, y *big.Int) *big.Int { z := new(big.Int).Mul(x, y); return z.Mod(z, r) }
	neg := func(x *big.Int) *big.Int { return new(big.Int).Sub(r, x) }
	nInv, nCancel, nFull, nCheck := 4, 3, 2, 8
	if d.full {
		nInv, nCancel, nFull, nCheck = 40, 30, 30, 60
	}
	// (a, s/a): full-size exponents whose product is small
	for i := 0; i < nInv; i++ {
		a := rnd()
		s := big.NewInt(int64(1 + d.rng.Intn(1000)))
		ps := []c05pt{d.point(d.g1, a)}
		qs := []c05pt{d.point(d.g2, mulm(s, inv(a)))}
		if i%2 == 1 { // two pairs: (a, s/a), (a', s'/a')
			a2 := rnd()
			ps = append(ps, d.point(d.g1, a2))
			qs = append(qs, d.point(d.g2, mulm(neg(big.NewInt(int64(d.rng.Intn(1000)))), inv(a2))))
		}
		d.battery(ps, qs, i%2)
	}
	// full-size pool
	var pool1, pool2 []c05pt
	for i := 0; i < 5; i++ {
		pool1 = append(pool1, d.point(d.g1, rnd()))
		pool2 = append(pool2, d.point(d.g2, rnd()))
	}
	// cancelling vectors of full-size exponents: the last Q is chosen so that the sum vanishes (or is 1)
	for i := 0; i < nCancel; i++ {
		k := 2 + d.rng.Intn(3)
		var ps, qs []c05pt
		sum := new(big.Int)
		for j := 0; j < k-1; j++ {
			p, q := pool1[d.rng.Intn(len(pool1))], pool2[d.rng.Intn(len(pool2))]
			ps, qs = append(ps, p), append(qs, q)
			sum.Add(sum, mulm(p.exp, q.exp))
		}
		last := pool1[d.rng.Intn(len(pool1))]
		target := big.NewInt(int64(i % 2)) // sum = 0 or 1
		b := mulm(new(big.Int).Sub(target, sum), inv(last.exp))
		pos := d.rng.Intn(k)
		ps = append(ps[:pos], append([]c05pt{last}, ps[pos:]...)...)
		qs = append(qs[:pos], append([]c05pt{d.point(d.g2, b)}, qs[pos:]...)...)
		d.battery(ps, qs, 1)
	}
	// (a, b), (r - a, b) and (a, b), (a, r - b)
	{
		p, q := pool1[0], pool2[0]
		d.battery([]c05pt{p, d.point(d.g1, neg(p.exp))}, []c05pt{q, q}, 1)
		d.battery([]c05pt{p, p}, []c05pt{q, d.point(d.g2, neg(q.exp))}, 0)
	}
	// PairingCheck on random pool vectors (k = 1, 2, 3, 4, 9, with infinity inserted): only the boolean is judged
	for i := 0; i < nCheck; i++ {
		k := []int{1, 2, 3, 4, 9}[i%5]
		var ps, qs []c05pt
		for j := 0; j < k; j++ {
			ps, qs = append(ps, pool1[d.rng.Intn(len(pool1))]), append(qs, pool2[d.rng.Intn(len(pool2))])
			if d.rng.Intn(6) == 0 {
				ps[j] = d.p1(0)
			}
		}
		d.rotate()
		d.pairOp("PairingCheck", ps, qs, 0)
		d.fixedOp("PairingCheckFixedQ", ps, d.linesFor(qs))
	}
	// full-size products: gT^e with e of the size of r
	for i := 0; i < nFull; i++ {
		k := 1 + i%3
		var ps, qs []c05pt
		for j := 0; j < k; j++ {
			ps, qs = append(ps, pool1[d.rng.Intn(len(pool1))]), append(qs, pool2[d.rng.Intn(len(pool2))])
		}
		d.rotate()
		d.cost += 300 // two full-size exponentiations on the validation side
		d.pairOp("Pair", ps, qs, 0)
		d.fixedOp("PairFixedQ", ps, d.linesFor(qs))
	}
	// seeded small vectors, k = 1..9, exponents -3..3
	nSmall := 6
	if d.full {
		nSmall = 80
	}
	for i := 0; i < nSmall; i++ {
		k := 1 + d.rng.Intn(9)
		as, bs := make([]int64, k), make([]int64, k)
		for j := range as {
			as[j], bs[j] = int64(d.rng.Intn(7)-3), int64(d.rng.Intn(7)-3)
		}
		ps, qs := d.vec(as, bs)
		d.battery(ps, qs, 1)
	}
	// many pairs (far more than any hand-unrolled prefix or chunk of a parallel product), with and without points at
	// infinity in the lists, and a product that cancels
	for _, k := range []int{16, 33, 40} {
		for variant := 0; variant < 3; variant++ {
			as, bs := make([]int64, k), make([]int64, k)
			for j := range as {
				as[j], bs[j] = int64(1+d.rng.Intn(3)), int64(1+d.rng.Intn(3))
				if d.rng.Intn(2) == 0 {
					as[j] = -as[j]
				}
			}
			if variant >= 1 { // infinity in P at one place, in Q at another
				as[(k*2)/3], bs[k/5] = 0, 0
			}
			if variant == 2 { // the product is one: the last pair cancels the others (a point at infinity is in the list too)
				as[k-1], bs[k-1] = -c05dot(as[:k-1], bs[:k-1]), 1
			}
			ps, qs := d.vec(as, bs)
			d.battery(ps, qs, 0)
			d.pairOp("MillerLoopFE", ps, qs, 0)
		}
	}
}

func (d *c05drv) emit(e Ev) {
	d.cost++
	d.t.Emit(e)
}

// openShard starts a trace file; event 1: the generators and gT = Pair(G1, G2)
func (d *c05drv) openShard() {
	name := d.base
	if d.shard > 0 {
		name = fmt.Sprintf("%s_%d", d.base, d.shard)
	}
	hdr := Ev{}
	for k, v := range d.hdr {
		hdr[k] = v
	}
	hdr["shard"] = d.shard
	d.t = newTrace(d.out, name, hdr)
	d.cost = 0
	d.lines = map[int]reflect.Value{}
	g := Ev{"op": "Generators", "g1": enc(d.g1.GenAff), "g2": enc(d.g2.GenAff)}
	res, pm, pk := call(d.c.Funcs["Pair"], c05slice(d.g1.AffT, []c05pt{{v: d.g1.GenAff}}), c05slice(d.g2.AffT, []c05pt{{v: d.g2.GenAff}}))
	if pk {
		g["panic"] = pm
	} else {
		if msg, isErr := c05err(res[1]); isErr {
			g["err"] = msg
		}
		g["gt"] = enc(res[0])
	}
	d.emit(g)
}

// rotate closes the current shard when it is full (called between self-contained groups of events)
func (d *c05drv) rotate() {
	if d.cost < c05shardCost {
		return
	}
	d.events += d.t.Close()
	d.shard++
	d.openShard()
}

func runC05(args []string) {
	fs := flag.NewFlagSet("c05", flag.ExitOnError)
	out := fs.String("out", ".", "output directory")
	seed := fs.Uint64("seed", 1, "seed")
	tier := fs.String("tier", "quick", "quick|thorough")
	only := fs.String("curves", "", "comma separated curve names (default: the 7 pairing curves)")
	fs.Parse(args)
	names := curveNames
	if *only != "" {
		names = strings.Split(*only, ",")
	}
	var wg sync.WaitGroup
	var mu sync.Mutex
	total := 0
	for _, name := range names {
		c := curves[name]
		if c == nil {
			fatal("c05: unknown curve %s", name)
		}
		if _, ok := c.Funcs["Pair"]; !ok {
			continue
		}
		for pi, part := range []string{"model", "model3", "random"} {
			d := &c05drv{c: c, g1: c.Group("G1"), g2: c.Group("G2"), r: c.Fr.Q, cache: map[string]c05pt{},
				full: *tier == "thorough", out: *out, base: "c05_" + name + "_" + part,
				rng:    newRng(*seed*7919 + uint64(len(name))*131 + uint64(name[len(name)-1])*17 + uint64(pi)),
				linesT: c.Funcs["PairFixedQ"].Type().In(1),
				hdr:    Ev{"property": "C05", "curve": name, "part": part, "tier": *tier, "seed": int(*seed % (1 << 30))}}
			wg.Add(1)
			go func(part string) { // one goroutine per trace: the drivers share nothing
				defer wg.Done()
				d.openShard()
				switch part {
				case "model":
					d.runModel()
				case "model3":
					d.runModel3()
				default:
					d.runRandom()
				}
				d.events += d.t.Close()
				mu.Lock()
				total += d.events
				mu.Unlock()
			}(part)
		}
	}
	wg.Wait()
	fmt.Printf("c05: %d events\n", total)
}
