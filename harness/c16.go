package main

// C16 driver: Merkle proofs verify for, and only for, the committed leaf and position.
//
// Drives the REAL accumulator/merkletree (Tree.SetIndex/Push/PushSubTree/ReadAll/Root/Prove,
// VerifyProof, ReaderRoot, BuildReaderProof) with SHA-256 and MiMC(bn254), and the REAL
// field/koalabear/vortex Merkle tree (BuildMerkleTree/Root/Open/MerkleProof.Verify), and logs one
// ndjson event per public call with raw bytes / raw Montgomery words / booleans / error strings.
// Nothing is judged here: spec/C16_merkle/TraceMerkle.tla and TraceVortex.tla decide.
//
// Inputs: (i) derived from the model: every (leaf count n <= N, proof index i < n) pair, every
// single-component tampering class of MerkleAcc!Tamperings / VortexMerkle!VTamperings, every
// legal decomposition of a short leaf sequence into Push / PushSubTree / ReadAll calls together
// with the refused calls; (ii) seeded random decompositions, readers and tamper positions.
//
// Verify events describe their arguments as a delta against the reply of the preceding
// Prove / BuildReaderProof / Open event (fields root, rootnil, psnil, set, drop, ins, idx, nl);
// the harness applies exactly that delta.  "intact" reports that deep copies of the byte
// arguments taken before the call are still equal to the arguments after the call.
//
// The round constants of MiMC and Poseidon2 handed to the specification in the trace header are
// derived here with x/crypto/sha3 directly from the documented seeds (no gnark-crypto code).

import (
	"bytes"
	"crypto/sha256"
	"errors"
	"flag"
	"fmt"
	"hash"
	"io"
	"math/big"
	"sort"
	"strings"
	"sync"

	"github.com/consensys/gnark-crypto/accumulator/merkletree"
	c16mimc "github.com/consensys/gnark-crypto/ecc/bn254/fr/mimc"
	"github.com/consensys/gnark-crypto/field/koalabear/vortex"
	"golang.org/x/crypto/sha3"
)

func init() { register("c16", runC16) }

// ---------------------------------------------------------------------------------------
// constants of the algebraic hashes (independent derivation)

func c16KeccakChain(seed string, n int) [][]byte {
	h := sha3.NewLegacyKeccak256()
	h.Write([]byte(seed))
	rnd := h.Sum(nil)
	h.Reset()
	h.Write(rnd)
	out := make([][]byte, 0, n)
	for i := 0; i < n; i++ {
		rnd = h.Sum(nil)
		out = append(out, rnd)
		h.Reset()
		h.Write(rnd)
	}
	return out
}

var c16Bn254R, _ = new(big.Int).SetString("21888242871839275222246405745257275088548364400416034343698204186575808495617", 10)

const c16KoalaP = 2130706433 // 2^31 - 2^24 + 1

func c16MimcConstants() [][]int {
	var out [][]int
	for _, b := range c16KeccakChain("seed", 110) {
		x := new(big.Int).SetBytes(b)
		out = append(out, digits(x.Mod(x, c16Bn254R)))
	}
	return out
}

// Poseidon2 KoalaBear t=16, rF=6, rP=21: 3 full rounds (16 keys), 21 partial (1 key), 3 full.
func c16Poseidon2Keys() [][]int {
	c := c16KeccakChain("Poseidon2-koalabear[t=16,rF=6,rP=21,d=3]", 3*16+21+3*16)
	p := big.NewInt(c16KoalaP)
	var out [][]int
	k := 0
	for r := 0; r < 27; r++ {
		w := 16
		if r >= 3 && r < 24 {
			w = 1
		}
		row := make([]int, w)
		for j := range row {
			x := new(big.Int).SetBytes(c[k])
			k++
			row[j] = int(x.Mod(x, p).Int64())
		}
		out = append(out, row)
	}
	return out
}

// ---------------------------------------------------------------------------------------
// helpers

func c16try(f func()) (msg string, panicked bool) {
	defer func() {
		if r := recover(); r != nil {
			panicked = true
			msg = strings.SplitN(fmt.Sprint(r), "\n", 2)[0]
			if len(msg) > 120 {
				msg = msg[:120]
			}
		}
	}()
	f()
	return
}

func c16clone(b []byte) []byte {
	if b == nil {
		return nil
	}
	return append([]byte{}, b...)
}

func c16clone2(p [][]byte) [][]byte {
	if p == nil {
		return nil
	}
	out := make([][]byte, len(p))
	for i := range p {
		out[i] = c16clone(p[i])
	}
	return out
}

func c16equal2(a, b [][]byte) bool {
	if len(a) != len(b) || (a == nil) != (b == nil) {
		return false
	}
	for i := range a {
		if !bytes.Equal(a[i], b[i]) || (a[i] == nil) != (b[i] == nil) {
			return false
		}
	}
	return true
}

func c16ints2(p [][]byte) [][]int {
	out := make([][]int, len(p))
	for i := range p {
		out[i] = bytesToInts(p[i])
	}
	return out
}

// c16Reader hands out at most chunk bytes per Read and fails (not with EOF) once failat bytes
// have been delivered (failat < 0: never).
type c16Reader struct {
	data   []byte
	pos    int
	chunk  int
	failat int
}

var errC16Read = errors.New("c16: injected read error")

func (r *c16Reader) Read(p []byte) (int, error) {
	if r.failat >= 0 && r.pos >= r.failat {
		return 0, errC16Read
	}
	if r.pos >= len(r.data) {
		return 0, io.EOF
	}
	n := len(p)
	if r.chunk > 0 && n > r.chunk {
		n = r.chunk
	}
	if n > len(r.data)-r.pos {
		n = len(r.data) - r.pos
	}
	if r.failat >= 0 && n > r.failat-r.pos {
		n = r.failat - r.pos
	}
	copy(p, r.data[r.pos:r.pos+n])
	r.pos += n
	return n, nil
}

// ---------------------------------------------------------------------------------------
// accumulator driver

type c16Acc struct {
	t      *TraceWriter
	rng    *Rng
	hname  string
	D      [][]byte // the ambient leaf sequence of this trace file (pairwise distinct)
	sc     int
	tree   *merkletree.Tree
	cur    int // harness bookkeeping for input construction only
	pidx   int
	root   []byte // reply of the last Prove / BuildReaderProof
	ps     [][]byte
	idx    uint64
	nl     uint64
	// arguments handed to the tree live in one arena (see alloc)
	arena, arenaShadow []byte
	arenaLen           int
	cached map[[2]int][]byte // roots of cached sub-trees (outputs of logged builder scenarios)
	// the slices returned by one earlier Prove, kept as a caller would keep them (no copy)
	heldRoot []byte
	heldPs   [][]byte
	nh       int       // hashers handed out
	h        hash.Hash // the hasher the current tree was built with (the caller still holds it)
}

// newHash hands out a hasher; every other one has been used before and still holds input that was never summed (the tree and
// VerifyProof own the hasher from then on: what it held before is not part of any leaf or node)
func (a *c16Acc) newHash() hash.Hash {
	var h hash.Hash
	if a.hname == "mimc" {
		h = c16mimc.NewMiMC()
	} else {
		h = sha256.New()
	}
	a.nh++
	if a.nh%2 == 0 {
		a.soil(h)
	}
	return h
}

// soil writes one valid block into h without summing it
func (a *c16Acc) soil(h hash.Hash) {
	junk := make([]byte, 32)
	junk[31] = byte(1 + a.nh%200)
	junk[30] = 0x5a
	h.Write(junk)
}

func c16NewAcc(dir, name, hname string, D [][]byte, seed uint64, tier string) *c16Acc {
	hdr := Ev{"property": "C16", "kind": "acc", "hash": hname, "leaves": c16ints2(D), "seed": int(seed), "tier": tier, "name": name}
	if hname == "mimc" {
		hdr["rc"] = c16MimcConstants()
	}
	return &c16Acc{t: newTrace(dir, "c16_"+name, hdr), rng: newRng(seed ^ c16hashName(name)), hname: hname, D: D,
		cached: map[[2]int][]byte{}}
}

func c16hashName(s string) uint64 {
	var h uint64 = 1469598103934665603
	for i := 0; i < len(s); i++ {
		h = (h ^ uint64(s[i])) * 1099511628211
	}
	return h
}

func (a *c16Acc) emit(e Ev) {
	e["sc"] = a.sc
	a.t.Emit(e)
}

func (a *c16Acc) New(base int) {
	a.sc++
	a.h = a.newHash()
	a.tree = merkletree.New(a.h)
	a.cur, a.pidx = base, -1
	a.root, a.ps = nil, nil
	a.emit(Ev{"op": "New", "base": base})
}

func (a *c16Acc) SetIndex(i int) {
	var err error
	e := Ev{"op": "SetIndex", "i": i}
	if m, p := c16try(func() { err = a.tree.SetIndex(uint64(i)) }); p {
		e["panic"] = m
	} else if err != nil {
		e["err"] = err.Error()
	}
	a.emit(e)
}

func (a *c16Acc) Push(data []byte) {
	arg := c16clone(data)
	if arg == nil {
		arg = []byte{}
	}
	if len(arg) > 0 {
		arg = a.alloc(arg)
	}
	e := Ev{"op": "Push", "data": bytesToInts(data)}
	if a.h != nil && a.rng.Intn(4) == 0 {
		a.soil(a.h) // the caller used the hasher in between (FRI shares one hasher between its trees and its transcript)
	}
	if m, p := c16try(func() { a.tree.Push(arg) }); p {
		e["panic"] = m
	}
	e["intact"] = bytes.Equal(arg, data) && a.arenaIntact()
	a.emit(e)
}

func (a *c16Acc) PushSubTree(h int, sum []byte) {
	arg := a.alloc(sum)
	var err error
	e := Ev{"op": "PushSubTree", "h": h, "sum": bytesToInts(sum)}
	if m, p := c16try(func() { err = a.tree.PushSubTree(h, arg) }); p {
		e["panic"] = m
	} else if err != nil {
		e["err"] = err.Error()
	}
	e["intact"] = bytes.Equal(arg, sum) && a.arenaIntact()
	a.emit(e)
}

// alloc copies b into the trace's arena and returns a view whose spare capacity reaches to the end of the arena: the sub-tree
// sums a caller hands over live back to back in one buffer. The tree keeps the slices it is given, so the arena is compared with
// its shadow after every later call as well (arenaIntact): an append to a retained argument lands in the sentinel area.
func (a *c16Acc) alloc(b []byte) []byte {
	if b == nil {
		return nil
	}
	if a.arena == nil || a.arenaLen+len(b) > len(a.arena)-256 {
		a.arena = make([]byte, 1<<15)
		for i := range a.arena {
			a.arena[i] = byte(0x5A ^ i)
		}
		a.arenaShadow = c16clone(a.arena)
		a.arenaLen = 0
	}
	copy(a.arena[a.arenaLen:], b)
	copy(a.arenaShadow[a.arenaLen:], b)
	v := a.arena[a.arenaLen : a.arenaLen+len(b)]
	a.arenaLen += len(b)
	return v
}

func (a *c16Acc) arenaIntact() bool { return bytes.Equal(a.arena, a.arenaShadow) }

func (a *c16Acc) ReadAll(stream []byte, seg, chunk, failat int) {
	r := &c16Reader{data: c16clone(stream), chunk: chunk, failat: failat}
	var err error
	e := Ev{"op": "ReadAll", "seg": seg, "stream": bytesToInts(stream), "chunk": chunk}
	if failat >= 0 {
		e["failat"] = failat
	}
	if m, p := c16try(func() { err = a.tree.ReadAll(r, seg) }); p {
		e["panic"] = m
	} else if err != nil {
		e["err"] = err.Error()
	}
	a.emit(e)
}

func (a *c16Acc) Root() []byte {
	var root []byte
	e := Ev{"op": "Root"}
	if m, p := c16try(func() { root = a.tree.Root() }); p {
		e["panic"] = m
	} else if root == nil {
		e["rootnil"] = true
	} else {
		e["root"] = bytesToInts(root)
	}
	if a.arena != nil {
		e["intact"] = a.arenaIntact() // Root joins the retained sub-tree sums
	}
	a.emit(e)
	// the reply is the caller's: overwrite it (the tree goes on being used and must not have kept it as a node)
	keep := c16clone(root)
	for i := range root {
		root[i] ^= 0xa5
	}
	return keep
}

func c16putU64(e Ev, key string, v uint64) {
	if v < 1<<31 {
		e[key] = int(v)
	} else {
		e[key+"d"] = digits(new(big.Int).SetUint64(v))
	}
}

// Prove logs the reply and remembers it (deep copy) as the base of the following Verify events.
func (a *c16Acc) Prove() bool { return a.prove(false) }

// prove(hold = true) additionally keeps the returned slices themselves; Held() logs their content later.
func (a *c16Acc) prove(hold bool) bool {
	var root []byte
	var ps [][]byte
	var idx, nl uint64
	e := Ev{"op": "Prove"}
	if hold {
		e["hold"] = true
		defer func() { a.heldRoot, a.heldPs = root, ps }()
	}
	if m, p := c16try(func() { root, ps, idx, nl = a.tree.Prove() }); p {
		e["panic"] = m
		a.emit(e)
		return false
	}
	a.recordProof(e, root, ps, idx, nl)
	if a.arena != nil {
		e["intact"] = a.arenaIntact()
	}
	a.emit(e)
	if !hold {
		// as for Root (documented to be a copy): the root of the reply, recorded above as a deep copy, is the caller's to
		// overwrite. The proof set is not touched: Prove hands out the stored sibling hashes themselves and does not promise
		// otherwise.
		for i := range root {
			root[i] ^= 0x5a
		}
	}
	return ps != nil
}

// Held logs what the slices returned by the held Prove contain now (after further calls on the tree).
func (a *c16Acc) Held() {
	e := Ev{"op": "Held"}
	if a.heldRoot == nil {
		e["rootnil"] = true
	} else {
		e["root"] = bytesToInts(a.heldRoot)
	}
	if a.heldPs == nil {
		e["psnil"] = true
	} else {
		e["ps"] = c16ints2(a.heldPs)
	}
	a.emit(e)
}

func (a *c16Acc) recordProof(e Ev, root []byte, ps [][]byte, idx, nl uint64) {
	if root == nil {
		e["rootnil"] = true
	} else {
		e["root"] = bytesToInts(root)
	}
	if ps == nil {
		e["psnil"] = true
	} else {
		e["ps"] = c16ints2(ps)
	}
	c16putU64(e, "idx", idx)
	c16putU64(e, "nl", nl)
	a.root, a.ps, a.idx, a.nl = c16clone(root), c16clone2(ps), idx, nl
}

// c16Mod: one argument tuple of VerifyProof as a delta against the last proof reply.
type c16Mod struct {
	label   string
	expect  string // what the driver intends this case to be ("T", "F", "U"): checked against the spec's own classification
	rootNil bool
	root    []byte // non-nil: replaces the root
	psNil   bool
	set     int // >= 0: replace element set by val
	drop    int // >= 0: remove element
	ins     int // >= 0: insert val before element ins
	val     []byte
	idx     *uint64
	nl      *uint64
}

func c16m(label, expect string) c16Mod {
	return c16Mod{label: label, expect: expect, set: -1, drop: -1, ins: -1}
}

func (a *c16Acc) Verify(m c16Mod) {
	root := c16clone(a.root)
	ps := c16clone2(a.ps)
	idx, nl := a.idx, a.nl
	e := Ev{"op": "Verify", "mod": m.label, "expect": m.expect}
	switch {
	case m.rootNil:
		root = nil
		e["rootnil"] = true
	case m.root != nil:
		root = c16clone(m.root)
		e["root"] = bytesToInts(m.root)
	}
	switch {
	case m.psNil:
		ps = nil
		e["psnil"] = true
	case m.set >= 0:
		ps[m.set] = c16clone(m.val)
		e["set"] = Ev{"k": m.set, "val": bytesToInts(m.val)}
	case m.drop >= 0:
		ps = append(ps[:m.drop:m.drop], ps[m.drop+1:]...)
		e["drop"] = m.drop
	case m.ins >= 0:
		q := append([][]byte{}, ps[:m.ins]...)
		q = append(q, c16clone(m.val))
		ps = append(q, ps[m.ins:]...)
		e["ins"] = Ev{"k": m.ins, "val": bytesToInts(m.val)}
	}
	if m.idx != nil {
		idx = *m.idx
	}
	if m.nl != nil {
		nl = *m.nl
	}
	c16putU64(e, "idx", idx)
	c16putU64(e, "nl", nl)
	root0, ps0 := c16clone(root), c16clone2(ps)
	// root and proof elements are views into one flat buffer (spare capacity over their neighbours)
	flat, views := c16flat(append([][]byte{root}, ps...)...)
	flat0 := c16clone(flat)
	root = views[0]
	if ps != nil {
		ps = views[1:]
	}
	var ret bool
	if msg, p := c16try(func() { ret = merkletree.VerifyProof(a.newHash(), root, ps, idx, nl) }); p {
		e["panic"] = msg
	} else {
		e["ret"] = ret
	}
	e["intact"] = bytes.Equal(root, root0) && (root == nil) == (root0 == nil) && c16equal2(ps, ps0) && bytes.Equal(flat, flat0)
	a.emit(e)
}

// c16flat lays the caller-owned slices out in ONE backing buffer, each view with spare capacity that reaches over the
// following ones (the way proof sets and cached sub-tree roots are cut out of a flat buffer), followed by sentinel bytes:
// code that appends to an argument instead of copying it writes into its neighbours.
func c16flat(parts ...[]byte) ([]byte, [][]byte) {
	n := 0
	for _, p := range parts {
		n += len(p)
	}
	flat := make([]byte, 0, n+48)
	offs := make([]int, len(parts))
	for i, p := range parts {
		offs[i] = len(flat)
		flat = append(flat, p...)
	}
	for i := 0; i < 48; i++ {
		flat = append(flat, byte(0xA5^i))
	}
	views := make([][]byte, len(parts))
	for i, p := range parts {
		if p != nil {
			views[i] = flat[offs[i] : offs[i]+len(p)]
		}
	}
	return flat, views
}

// value tampering that keeps a MiMC input well formed (whole canonical blocks)
func (a *c16Acc) flip(b []byte) []byte {
	out := c16clone(b)
	if len(out) == 0 {
		return []byte{byte(1 + a.rng.Intn(255))}
	}
	if a.hname != "mimc" || len(out) < 32 {
		// (a value shorter than one MiMC block only comes out of a tree that already misbehaves: any flip will do)
		out[a.rng.Intn(len(out))] ^= 1 << uint(a.rng.Intn(8))
		return out
	}
	blk := a.rng.Intn(len(out) / 32)
	for bit := uint(0); bit < 8; bit++ {
		out[blk*32+31] ^= 1 << bit
		if new(big.Int).SetBytes(out[blk*32:blk*32+32]).Cmp(c16Bn254R) < 0 {
			return out
		}
		out[blk*32+31] ^= 1 << bit
	}
	out[blk*32+30] ^= 1
	return out
}

func (a *c16Acc) randDigest() []byte {
	if a.hname == "mimc" {
		return a.rng.Below(c16Bn254R).FillBytes(make([]byte, 32))
	}
	return a.rng.Bytes(32)
}

func c16u(v uint64) *uint64 { return &v }

// verifySuite: the honest tuple and the single-component tamperings of MerkleAcc!Tamperings applied to
// the last proof.  level 0: a reduced set, 1: every position, 2: additionally every wrong index.
func (a *c16Acc) verifySuite(level int) {
	if a.ps == nil {
		return
	}
	i, n := int(a.idx), int(a.nl)
	L := len(a.ps)
	a.Verify(c16m("none", "T"))
	// root
	m := c16m("root", "F")
	m.root = a.flip(a.root)
	a.Verify(m)
	m = c16m("rootnil", "F")
	m.rootNil = true
	a.Verify(m)
	if level >= 1 {
		m = c16m("rootempty", "F")
		m.root = []byte{}
		a.Verify(m)
		if L > 1 {
			m = c16m("rootsib", "F")
			m.root = a.ps[1+a.rng.Intn(L-1)]
			a.Verify(m)
		}
	}
	// leaf
	m = c16m("leaf", "F")
	m.set, m.val = 0, a.flip(a.ps[0])
	a.Verify(m)
	if level >= 1 {
		if n > 1 {
			j := a.rng.Intn(n - 1)
			if j >= i {
				j++
			}
			m = c16m("leafother", "F")
			m.set, m.val = 0, a.D[j%len(a.D)] // (n comes from the tree's reply: a misbehaving tree may report more leaves than exist)
			a.Verify(m)
		}
		if a.hname != "mimc" {
			m = c16m("leaflen", "F")
			m.set, m.val = 0, append(c16clone(a.ps[0]), 0)
			a.Verify(m)
			if len(a.ps[0]) > 0 {
				m = c16m("leaflen", "F")
				m.set, m.val = 0, a.ps[0][:len(a.ps[0])-1]
				a.Verify(m)
			}
		}
	}
	// siblings
	var ks []int
	for k := 1; k < L; k++ {
		ks = append(ks, k)
	}
	if level == 0 && len(ks) > 2 {
		ks = []int{1 + a.rng.Intn(L-1), L - 1}
	}
	for _, k := range ks {
		m = c16m("sib", "F")
		m.set, m.val = k, a.flip(a.ps[k])
		a.Verify(m)
		if level >= 1 {
			if L > 2 {
				k2 := 1 + a.rng.Intn(L-2)
				if k2 >= k {
					k2++
				}
				m = c16m("sibswap", "F")
				m.set, m.val = k, a.ps[k2]
				a.Verify(m)
			}
			m = c16m("sibroot", "F")
			m.set, m.val = k, a.root
			a.Verify(m)
		}
	}
	// index, same leaf count
	js := map[int]bool{}
	if level >= 2 {
		for j := 0; j < n; j++ {
			js[j] = true
		}
	} else {
		for b := uint(0); 1<<b < n; b++ {
			js[i^(1<<b)] = true
		}
		js[0], js[n-1], js[i-1], js[i+1] = true, true, true, true
	}
	var jl []int
	for j := range js {
		if j >= 0 && j < n && j != i {
			jl = append(jl, j)
		}
	}
	sort.Ints(jl)
	if level == 0 && len(jl) > 3 {
		jl = []int{jl[0], jl[a.rng.Intn(len(jl))], jl[len(jl)-1]}
	}
	for _, j := range jl {
		m = c16m("index", "F")
		m.idx = c16u(uint64(j))
		a.Verify(m)
	}
	// out-of-range indices
	bl := uint(0)
	for 1<<bl < n {
		bl++
	}
	rs := []uint64{uint64(n), uint64(1<<bl + i), 1<<64 - 1}
	if level >= 1 {
		rs = append(rs, uint64(n+1), uint64(n+i), uint64(2<<bl+i), 1<<32+uint64(i), 1<<63, 1<<63+uint64(i))
	}
	for _, r := range rs {
		m = c16m("range", "F")
		m.idx = c16u(r)
		a.Verify(m)
	}
	// shortened
	ds := []int{0, L - 1}
	if level >= 1 {
		ds = ds[:0]
		for k := 0; k < L; k++ {
			ds = append(ds, k)
		}
	} else if L > 2 {
		ds = append(ds, 1)
	}
	seen := map[int]bool{}
	for _, k := range ds {
		if seen[k] || (k == 0 && L > 1 && a.hname == "mimc" && len(a.ps[1])%32 != 0) {
			continue
		}
		seen[k] = true
		m = c16m("drop", "F")
		m.drop = k
		a.Verify(m)
	}
	m = c16m("psnil", "F")
	m.psNil = true
	a.Verify(m)
	// extended
	m = c16m("append", "F")
	m.ins, m.val = L, a.randDigest()
	a.Verify(m)
	if L > 1 {
		m = c16m("appenddup", "F")
		m.ins, m.val = L, a.ps[L-1]
		a.Verify(m)
	}
	if level >= 1 {
		for k := 1; k < L; k++ {
			m = c16m("insert", "F")
			m.ins, m.val = k, a.randDigest()
			a.Verify(m)
		}
		m = c16m("appendroot", "F")
		m.ins, m.val = L, a.root
		a.Verify(m)
	}
	// leaf count: not bound by the root - unspecified outcome, must not panic or mutate
	if n-1 > i {
		m = c16m("count", "U")
		m.nl = c16u(uint64(n - 1))
		a.Verify(m)
	}
	m = c16m("count", "U")
	m.nl = c16u(uint64(n + 1))
	a.Verify(m)
	m = c16m("count0", "F")
	m.nl = c16u(0)
	a.Verify(m)
}

// grid: one tree per proof index i; after every push the root, the proof and the verification suite.
func (a *c16Acc) grid(is []int, N int, level int, rootEvery int) {
	for _, i := range is {
		a.New(0)
		a.SetIndex(i)
		holdAt := i + 1 + a.rng.Intn(8) // one proof per tree is kept by the caller while the tree grows
		for n := 1; n <= N; n++ {
			a.Push(a.D[n-1])
			if n%rootEvery == 0 || n == i+1 {
				a.Root()
			}
			if n > i || n%16 == 0 {
				hold := n == holdAt
				if a.prove(hold) {
					lv := level
					if lv == 1 && n > 40 {
						lv = 0 // quick tier: every position of the proof only up to 40 leaves, the reduced suite beyond
					}
					a.verifySuite(lv)
				}
				if n > holdAt && holdAt <= N && (n == holdAt+1 || n == N || n&(n-1) == 0) {
					a.Held()
				}
			}
		}
	}
}

// ---- decompositions -------------------------------------------------------------------

type c16Part struct {
	kind byte // 'P' Push, 'S' PushSubTree(arg = height), 'R' ReadAll(arg = number of segments)
	arg  int
}

func c16tz(c int) int {
	z := 0
	for c%2 == 0 {
		c /= 2
		z++
	}
	return z
}

// every legal way to feed n leaves (from position 0) to a tree proving index pidx (-1: none):
// the transitions Push / PushSubTree(h) / ReadAll(m) of MerkleAcc that are not refused.
func c16Decomps(n, pidx, maxRead int) [][]c16Part {
	var out [][]c16Part
	var rec func(cur int, acc []c16Part)
	rec = func(cur int, acc []c16Part) {
		if cur == n {
			out = append(out, append([]c16Part{}, acc...))
			return
		}
		rec(cur+1, append(acc, c16Part{'P', 1}))
		for h := 0; cur+1<<h <= n; h++ {
			if cur > 0 && h > c16tz(cur) {
				break
			}
			if pidx >= 0 && pidx >= cur && pidx < cur+1<<h {
				continue
			}
			rec(cur+1<<h, append(acc, c16Part{'S', h}))
		}
		for m := 2; m <= maxRead && cur+m <= n; m++ {
			rec(cur+m, append(acc, c16Part{'R', m}))
		}
	}
	rec(0, nil)
	return out
}

func (a *c16Acc) randDecomp(n, pidx int) []c16Part {
	var out []c16Part
	for cur := 0; cur < n; {
		switch a.rng.Intn(4) {
		case 0, 1:
			var hs []int
			for h := 0; cur+1<<h <= n; h++ {
				if cur > 0 && h > c16tz(cur) {
					break
				}
				if pidx >= 0 && pidx >= cur && pidx < cur+1<<h {
					continue
				}
				hs = append(hs, h)
			}
			if len(hs) > 0 {
				h := hs[len(hs)-1]
				if a.rng.Intn(3) == 0 {
					h = hs[a.rng.Intn(len(hs))]
				}
				out = append(out, c16Part{'S', h})
				cur += 1 << h
				continue
			}
			fallthrough
		case 2:
			out = append(out, c16Part{'P', 1})
			cur++
		default:
			m := 1 + a.rng.Intn(9)
			if a.rng.Intn(4) == 0 {
				m = 1 + a.rng.Intn(n-cur)
			}
			if cur+m > n {
				m = n - cur
			}
			out = append(out, c16Part{'R', m})
			cur += m
		}
	}
	return out
}

// cachedRoot returns the root of the sub-tree over D[lo:lo+2^h], produced by a real Tree in a logged
// (and judged) builder scenario.
func (a *c16Acc) cachedRoot(lo, h int) []byte {
	k := [2]int{lo, h}
	if r, ok := a.cached[k]; ok {
		return r
	}
	a.New(lo)
	for j := lo; j < lo+1<<h; j++ {
		a.Push(a.D[j])
	}
	r := a.Root()
	a.cached[k] = r
	return r
}

func (a *c16Acc) stream(lo, m int) []byte {
	var s []byte
	for j := lo; j < lo+m; j++ {
		s = append(s, a.D[j]...)
	}
	return s
}

// runDecomp: feed the parts; with illegal = true also attempt calls the model refuses.
func (a *c16Acc) runDecomp(parts []c16Part, pidx int, seg int, illegal bool, level int) {
	cur := 0
	for _, p := range parts { // cached sub-trees first (their builder scenarios must not interleave)
		if p.kind == 'S' {
			a.cachedRoot(cur, p.arg)
			cur += 1 << p.arg
		} else {
			cur += p.arg
		}
	}
	n := cur
	a.New(0)
	if pidx >= 0 {
		a.SetIndex(pidx)
	}
	if illegal && a.rng.Intn(2) == 0 {
		a.Root() // empty tree
		if pidx >= 0 {
			a.Prove()
		}
	}
	cur = 0
	for _, p := range parts {
		if illegal && cur > 0 && a.rng.Intn(3) == 0 {
			// taller than the smallest sub-tree: refused
			a.PushSubTree(c16tz(cur)+1+a.rng.Intn(2), a.randDigest())
		}
		if illegal && pidx >= cur && a.rng.Intn(3) == 0 {
			// a cached sub-tree that would contain the proof index: refused
			for h := 0; h <= 8; h++ {
				if (cur == 0 || h <= c16tz(cur)) && pidx < cur+1<<h {
					a.PushSubTree(h, a.randDigest())
					break
				}
			}
		}
		if illegal && cur > 0 && a.rng.Intn(6) == 0 {
			a.SetIndex(a.rng.Intn(n + 1)) // non-empty tree: refused
		}
		if illegal && a.rng.Intn(8) == 0 {
			a.ReadAll(nil, seg, 0, -1) // empty reader: nothing is pushed
		}
		switch p.kind {
		case 'P':
			a.Push(a.D[cur])
			cur++
		case 'S':
			a.PushSubTree(p.arg, a.cached[[2]int{cur, p.arg}])
			cur += 1 << p.arg
		case 'R':
			chunk := 0
			if a.rng.Intn(2) == 0 {
				chunk = 1 + a.rng.Intn(2*seg)
			}
			a.ReadAll(a.stream(cur, p.arg), seg, chunk, -1)
			cur += p.arg
		}
		if illegal && a.rng.Intn(4) == 0 {
			a.Root()
		}
	}
	a.Root()
	if pidx >= 0 {
		if a.Prove() {
			a.verifySuite(level)
		}
	}
}

// readers: the stateless entry points of readers.go and ReadAll on failing readers
func (a *c16Acc) readers(N, seg int, allPairs bool, level int) {
	for n := 0; n <= N; n++ {
		stream := a.stream(0, n)
		chunks := []int{0}
		if n > 0 {
			chunks = append(chunks, 1+a.rng.Intn(seg+2))
		}
		for _, ch := range chunks {
			a.New(0)
			var root []byte
			var err error
			e := Ev{"op": "ReaderRoot", "seg": seg, "stream": bytesToInts(stream), "chunk": ch}
			if m, p := c16try(func() {
				root, err = merkletree.ReaderRoot(&c16Reader{data: c16clone(stream), chunk: ch, failat: -1}, a.newHash(), seg)
			}); p {
				e["panic"] = m
			} else {
				if err != nil {
					e["err"] = err.Error()
				}
				if root == nil {
					e["rootnil"] = true
				} else {
					e["root"] = bytesToInts(root)
				}
			}
			a.emit(e)
		}
		var is []int
		if allPairs {
			for i := 0; i <= n; i++ {
				is = append(is, i)
			}
		} else {
			m := map[int]bool{0: true, n / 2: true, n: true, n + 3: true}
			if n > 0 {
				m[n-1], m[a.rng.Intn(n)] = true, true
			}
			for i := range m {
				is = append(is, i)
			}
			sort.Ints(is)
		}
		for _, i := range is {
			ch := 0
			if a.rng.Intn(3) == 0 {
				ch = 1 + a.rng.Intn(2*seg)
			}
			a.New(0)
			var root []byte
			var ps [][]byte
			var nl uint64
			var err error
			e := Ev{"op": "BuildReaderProof", "seg": seg, "stream": bytesToInts(stream), "chunk": ch, "i": i}
			if m, p := c16try(func() {
				root, ps, nl, err = merkletree.BuildReaderProof(&c16Reader{data: c16clone(stream), chunk: ch, failat: -1}, a.newHash(), seg, uint64(i))
			}); p {
				e["panic"] = m
				a.emit(e)
				continue
			}
			if err != nil {
				e["err"] = err.Error()
			}
			a.recordProof(e, root, ps, uint64(i), nl)
			delete(e, "idx")
			a.emit(e)
			if err == nil && ps != nil && (i == n-1 || i == 0 || a.rng.Intn(8) == 0) {
				a.verifySuite(level)
			}
		}
		// failing readers: the error must surface, complete segments before it are in the tree
		if n > 0 {
			for rep := 0; rep < 2; rep++ {
				failat := a.rng.Intn(len(stream))
				if rep == 1 {
					failat = (failat / seg) * seg
				}
				a.New(0)
				a.SetIndex(0)
				a.ReadAll(stream, seg, 1+a.rng.Intn(seg+3), failat)
				a.Root()
				a.Prove()
				a.New(0)
				var root []byte
				var ps [][]byte
				var nl uint64
				var err error
				e := Ev{"op": "BuildReaderProof", "seg": seg, "stream": bytesToInts(stream), "chunk": 0, "i": 0, "failat": failat}
				if m, p := c16try(func() {
					root, ps, nl, err = merkletree.BuildReaderProof(&c16Reader{data: c16clone(stream), failat: failat}, a.newHash(), seg, 0)
				}); p {
					e["panic"] = m
				} else {
					if err != nil {
						e["err"] = err.Error()
					}
					a.recordProof(e, root, ps, 0, nl)
					delete(e, "idx")
				}
				a.emit(e)
			}
		}
	}
}

// ---- leaf sequences -------------------------------------------------------------------

// c16Leaves: n pairwise distinct leaves. size > 0: all of that length except the last, which is
// shorter (segmented-reader files); size = 0: lengths vary (SHA-256 only).
func c16Leaves(r *Rng, hname string, n, size int) [][]byte {
	seen := map[string]bool{}
	out := make([][]byte, 0, n)
	for len(out) < n {
		var b []byte
		last := len(out) == n-1
		switch {
		case hname == "mimc":
			blocks := 1
			if size > 0 {
				blocks = size / 32
				if last && blocks > 1 {
					blocks = 1 + r.Intn(blocks-1)
				}
			} else if r.Intn(4) == 0 {
				blocks = 2
			}
			for k := 0; k < blocks; k++ {
				b = append(b, r.Below(c16Bn254R).FillBytes(make([]byte, 32))...)
			}
		case size > 0:
			l := size
			if last && size > 1 {
				l = 1 + r.Intn(size-1)
			}
			b = r.Bytes(l)
		default:
			l := 1 + r.Intn(70)
			if len(out) == 3 {
				l = 0 // one empty leaf
			}
			if len(out)%17 == 5 {
				l = 64 // as long as two digests
			}
			b = r.Bytes(l)
		}
		if seen[string(b)] {
			continue
		}
		seen[string(b)] = true
		out = append(out, b)
	}
	return out
}

// ---------------------------------------------------------------------------------------
// Vortex driver

type c16Vx struct {
	t     *TraceWriter
	rng   *Rng
	L     []vortex.Hash
	sc    int
	tree  *vortex.MerkleTree
	n     int
	depth int
	root  vortex.Hash
	proof vortex.MerkleProof // reply of the last successful Open
	made  int
}

func c16h(h vortex.Hash) []int {
	out := make([]int, 8)
	for k := range h {
		out[k] = int(h[k][0]) // raw Montgomery word
	}
	return out
}

func c16hs(p []vortex.Hash) [][]int {
	out := make([][]int, len(p))
	for i := range p {
		out[i] = c16h(p[i])
	}
	return out
}

func c16NewVx(dir, name string, N int, ns []int, seed uint64, tier string) *c16Vx {
	r := newRng(seed ^ c16hashName(name))
	L := make([]vortex.Hash, N)
	seen := map[vortex.Hash]bool{{}: true}
	for i := range L {
		for {
			var h vortex.Hash
			for k := range h {
				h[k][0] = uint32(r.U64() % c16KoalaP)
			}
			if i%29 == 7 {
				for k := 1 + r.Intn(7); k < 8; k++ {
					h[k][0] = 0 // sparse leaves
				}
			}
			if !seen[h] {
				seen[h] = true
				L[i] = h
				break
			}
		}
	}
	hdr := Ev{"property": "C16", "kind": "vortex", "hash": "poseidon2", "leaves": c16hs(L), "ns": ns, "rk": c16Poseidon2Keys(),
		"seed": int(seed), "tier": tier, "name": name}
	return &c16Vx{t: newTrace(dir, "c16_"+name, hdr), rng: r, L: L}
}

func (v *c16Vx) emit(e Ev) {
	e["sc"] = v.sc
	v.t.Emit(e)
}

func (v *c16Vx) Build(n int) {
	v.sc++
	// the leaves are a view into a larger buffer whose tail holds stale non-zero hashes (a reused pool): padding to the next
	// power of two must not pick them up, and nothing behind the view may be written
	buf := make([]vortex.Hash, 2*n+9)
	for i := range buf {
		for k := range buf[i] {
			buf[i][k][0] = uint32(0x1234567 + 31*i + k)
		}
	}
	copy(buf, v.L[:n])
	tail := append([]vortex.Hash{}, buf[n:]...)
	in := buf[:n]
	e := Ev{"op": "Build", "n": n}
	if m, p := c16try(func() { v.tree = vortex.BuildMerkleTree(in) }); p {
		e["panic"] = m
		v.tree = nil
	} else {
		v.root = v.tree.Root()
		v.depth = v.tree.Depth()
		e["root"] = c16h(v.root)
		e["depth"] = v.depth
	}
	intact := len(in) == n
	for i := 0; intact && i < n; i++ {
		intact = in[i] == v.L[i]
	}
	for i := 0; intact && i < len(tail); i++ {
		intact = buf[n+i] == tail[i]
	}
	e["intact"] = intact
	v.n, v.proof, v.made = n, nil, -1
	v.emit(e)
}

func (v *c16Vx) Open(i int) bool {
	var proof vortex.MerkleProof
	var err error
	e := Ev{"op": "Open", "i": i}
	if m, p := c16try(func() { proof, err = v.tree.Open(i) }); p {
		e["panic"] = m
	} else if err != nil {
		e["err"] = err.Error()
	} else {
		e["proof"] = c16hs(proof)
		v.proof, v.made = append(vortex.MerkleProof{}, proof...), i
		v.emit(e)
		return true
	}
	v.emit(e)
	return false
}

type c16VMod struct {
	label  string
	expect string
	i      int
	leaf   vortex.Hash
	root   vortex.Hash
	set    int
	drop   int
	ins    int
	val    vortex.Hash
}

func (v *c16Vx) Verify(m c16VMod) {
	proof := append(vortex.MerkleProof{}, v.proof...)
	e := Ev{"op": "Verify", "mod": m.label, "expect": m.expect, "i": m.i, "leaf": c16h(m.leaf), "root": c16h(m.root)}
	switch {
	case m.set >= 0:
		proof[m.set] = m.val
		e["set"] = Ev{"k": m.set, "val": c16h(m.val)}
	case m.drop >= 0:
		proof = append(proof[:m.drop:m.drop], proof[m.drop+1:]...)
		e["drop"] = m.drop
	case m.ins >= 0:
		q := append(vortex.MerkleProof{}, proof[:m.ins]...)
		q = append(q, m.val)
		proof = append(q, proof[m.ins:]...)
		e["ins"] = Ev{"k": m.ins, "val": c16h(m.val)}
	}
	p0 := append(vortex.MerkleProof{}, proof...)
	var err error
	if msg, p := c16try(func() { err = proof.Verify(m.i, m.leaf, m.root) }); p {
		e["panic"] = msg
	} else if err != nil {
		e["err"] = err.Error()
	}
	intact := len(p0) == len(proof)
	for k := 0; intact && k < len(proof); k++ {
		intact = p0[k] == proof[k]
	}
	e["intact"] = intact
	v.emit(e)
}

func (v *c16Vx) tweak(h vortex.Hash) vortex.Hash {
	k := v.rng.Intn(8)
	h[k][0] = (h[k][0] + 1 + uint32(v.rng.Intn(1000))) % c16KoalaP
	return h
}

func (v *c16Vx) randHash() vortex.Hash {
	var h vortex.Hash
	for k := range h {
		h[k][0] = uint32(v.rng.U64() % c16KoalaP)
	}
	return h
}

// suite for the committed leaf i (last Open reply = its proof): VortexMerkle!VTamperings
func (v *c16Vx) verifySuite(i int, level int) {
	d := len(v.proof)
	base := func(label, expect string) c16VMod {
		return c16VMod{label: label, expect: expect, i: i, leaf: v.L[i], root: v.root, set: -1, drop: -1, ins: -1}
	}
	v.Verify(base("none", "T"))
	m := base("leaf", "F")
	m.leaf = v.tweak(m.leaf)
	v.Verify(m)
	m = base("leafzero", "F")
	m.leaf = vortex.Hash{}
	v.Verify(m)
	if v.n > 1 && level >= 1 {
		j := v.rng.Intn(v.n - 1)
		if j >= i {
			j++
		}
		m = base("leafother", "F")
		m.leaf = v.L[j]
		v.Verify(m)
	}
	m = base("root", "F")
	m.root = v.tweak(m.root)
	v.Verify(m)
	var ks []int
	for k := 0; k < d; k++ {
		ks = append(ks, k)
	}
	if level == 0 && d > 2 {
		ks = []int{v.rng.Intn(d), d - 1}
	}
	for _, k := range ks {
		m = base("sib", "F")
		m.set, m.val = k, v.tweak(v.proof[k])
		v.Verify(m)
		if level >= 1 && d > 1 {
			k2 := v.rng.Intn(d - 1)
			if k2 >= k {
				k2++
			}
			if v.proof[k2] != v.proof[k] {
				m = base("sibswap", "F")
				m.set, m.val = k, v.proof[k2]
				v.Verify(m)
			}
		}
	}
	js := map[int]bool{0: true, 1<<uint(d) - 1: true, i + 1: true, i - 1: true}
	for b := 0; b < d; b++ {
		js[i^(1<<uint(b))] = true
	}
	if level >= 2 {
		for j := 0; j < 1<<uint(d); j++ {
			js[j] = true
		}
	}
	var jl []int
	for j := range js {
		if j >= 0 && j < 1<<uint(d) && j != i {
			jl = append(jl, j)
		}
	}
	sort.Ints(jl)
	if level == 0 && len(jl) > 3 {
		jl = []int{jl[0], jl[v.rng.Intn(len(jl))], jl[len(jl)-1]}
	}
	for _, j := range jl {
		m = base("index", "F")
		m.i = j
		v.Verify(m)
	}
	rs := []int{i + 1<<uint(d), i - 1<<uint(d), -1}
	if level >= 1 {
		rs = append(rs, i+2<<uint(d), i+3<<uint(d), 1<<uint(d), 1<<30+i, -(1<<30)+i, i-2<<uint(d))
	}
	for _, r := range rs {
		if r == i {
			continue
		}
		m = base("range", "F")
		m.i = r
		v.Verify(m)
	}
	if d > 0 {
		ds := []int{0, d - 1}
		if level >= 1 {
			ds = ks
		}
		seen := map[int]bool{}
		for _, k := range ds {
			if !seen[k] {
				seen[k] = true
				m = base("drop", "F")
				m.drop = k
				v.Verify(m)
			}
		}
	}
	m = base("append", "F")
	m.ins, m.val = d, v.randHash()
	v.Verify(m)
	if level >= 1 {
		for k := 0; k < d; k++ {
			m = base("insert", "F")
			m.ins, m.val = k, v.randHash()
			v.Verify(m)
		}
		m = base("appendzero", "F")
		m.ins, m.val = d, vortex.Hash{}
		v.Verify(m)
	}
}

func (v *c16Vx) run(ns []int, is func(n, d int) []int, level int) {
	for _, n := range ns {
		v.Build(n)
		if v.tree == nil {
			continue
		}
		d := v.depth
		for _, i := range is(n, d) {
			if v.Open(i) {
				if i >= 0 && i < n {
					v.verifySuite(i, level)
				} else if i >= n && i < 1<<uint(d) {
					// a padding position: the honest opening is structurally valid
					v.Verify(c16VMod{label: "pad", expect: "T", i: i, leaf: vortex.Hash{}, root: v.root, set: -1, drop: -1, ins: -1})
				}
			}
		}
		// indices outside the tree
		for _, i := range []int{1 << uint(d), 1<<uint(d) + 1, 2 << uint(d), 1 << 30, -1, -2, -(1 << uint(d)), -(1 << 30)} {
			v.Open(i)
		}
	}
}

// ---------------------------------------------------------------------------------------

func runC16(args []string) {
	fs := flag.NewFlagSet("c16", flag.ExitOnError)
	out := fs.String("out", ".", "output directory")
	seed := fs.Uint64("seed", 1, "seed")
	tier := fs.String("tier", "quick", "quick|thorough")
	par := fs.Int("par", 8, "trace files written concurrently")
	fs.Parse(args)
	thorough := *tier == "thorough"
	r := newRng(*seed*7919 + 16) // leaf sequences are drawn here, sequentially: files do not depend on scheduling

	type job struct {
		name string
		run  func(name string) int
	}
	var jobs []job
	add := func(name string, f func(name string) int) { jobs = append(jobs, job{name, f}) }
	acc := func(name, hn string, D [][]byte) *c16Acc { return c16NewAcc(*out, name, hn, D, *seed, *tier) }

	// (A) grid: all (n, i), n <= 130: one tree per proof index i, after every push the root, the proof and
	// the verification suite; sharded over files by i
	N := 130
	shaShards, shaLevel := 12, 1
	mimcShards, mimcLevel := 4, 0
	if thorough {
		shaShards, shaLevel = 16, 2
		mimcShards, mimcLevel = 12, 1
	}
	Dsha := c16Leaves(r, "sha256", N, 0)
	for s := 0; s < shaShards; s++ {
		s := s
		add(fmt.Sprintf("acc_sha256_grid_%02d", s), func(name string) int {
			a := acc(name, "sha256", Dsha)
			var is []int
			for i := s; i < N; i += shaShards {
				is = append(is, i)
			}
			if s == 0 {
				is = append(is, N, N+7) // index never reached: nil proof sets
			}
			a.grid(is, N, shaLevel, 8)
			return a.t.Close()
		})
	}
	Dmimc := c16Leaves(r, "mimc", N, 0)
	var mimcIs []int
	if thorough {
		for i := 0; i < N; i++ {
			mimcIs = append(mimcIs, i)
		}
	} else { // quick: the indices next to the powers of two and seeded ones (every n for each of them)
		m := map[int]bool{}
		for _, i := range []int{0, 1, 2, 3, 4, 7, 8, 15, 16, 31, 32, 33, 63, 64, 65, 127, 128, 129} {
			m[i] = true
		}
		for len(m) < 28 {
			m[r.Intn(N)] = true
		}
		for i := range m {
			mimcIs = append(mimcIs, i)
		}
		sort.Ints(mimcIs)
	}
	for s := 0; s < mimcShards; s++ {
		s := s
		add(fmt.Sprintf("acc_mimc_grid_%02d", s), func(name string) int {
			a := acc(name, "mimc", Dmimc)
			var is []int
			for k := s; k < len(mimcIs); k += mimcShards {
				is = append(is, mimcIs[k])
			}
			a.grid(is, N, mimcLevel, 16)
			return a.t.Close()
		})
	}

	// (B) decompositions: every legal Push / PushSubTree / ReadAll history of a short leaf sequence (with
	// the calls the model refuses interspersed), then seeded random decompositions up to 130 leaves
	maxEnum, enumFiles := 6, 4
	if thorough {
		maxEnum, enumFiles = 8, 12
	}
	for f := 0; f < enumFiles; f++ {
		f := f
		seg := 2 + f%5
		D := c16Leaves(r, "sha256", 16, seg)
		add(fmt.Sprintf("acc_sha256_decomp_enum_%02d", f), func(name string) int {
			a := acc(name, "sha256", D)
			k := 0
			for n := 1; n <= maxEnum; n++ {
				for pidx := -1; pidx < n; pidx++ {
					for _, parts := range c16Decomps(n, pidx, 3) {
						if k++; k%enumFiles == f {
							a.runDecomp(parts, pidx, seg, a.rng.Intn(4) == 0, 0)
						}
					}
				}
			}
			// the whole sequence incl. the short last leaf through the reader in one go, every index
			for pidx := -1; pidx < 16; pidx++ {
				a.runDecomp([]c16Part{{'R', 16}}, pidx, seg, false, 1)
				if pidx < 0 || pidx >= 8 {
					a.runDecomp([]c16Part{{'S', 3}, {'P', 1}, {'R', 7}}, pidx, seg, true, 0)
				} else {
					a.runDecomp([]c16Part{{'R', 7}, {'P', 1}, {'S', 3}}, pidx, seg, true, 0)
				}
			}
			return a.t.Close()
		})
	}
	nRand, randFiles := 160, 1
	if thorough {
		nRand, randFiles = 2400, 6
	}
	for _, hn := range []string{"sha256", "mimc"} {
		hn := hn
		seg, Nn, cnt := 3, N, nRand
		if hn == "mimc" {
			seg, Nn, cnt = 64, 70, nRand/4
		}
		for f := 0; f < randFiles; f++ {
			D := c16Leaves(r, hn, Nn, seg)
			add(fmt.Sprintf("acc_%s_decomp_rand_%d", hn, f), func(name string) int {
				a := acc(name, hn, D)
				for k := 0; k < cnt/randFiles; k++ {
					n := 1 + a.rng.Intn(Nn)
					if k%5 == 0 {
						n = Nn // reaches the short last leaf
					}
					pidx := a.rng.Intn(n+1) - 1
					a.runDecomp(a.randDecomp(n, pidx), pidx, seg, true, 0)
				}
				return a.t.Close()
			})
		}
	}

	// (C) readers: ReaderRoot / BuildReaderProof / failing readers; each file ends in a shorter last leaf
	rn := []int{1, 2, 5, 13, 33}
	if thorough {
		rn = []int{1, 2, 3, 4, 5, 7, 8, 9, 13, 16, 17, 33, 64, 65}
	}
	for _, n := range rn {
		n := n
		seg := 1 + r.Intn(6)
		D := c16Leaves(r, "sha256", n, seg)
		add(fmt.Sprintf("acc_sha256_reader_%03d", n), func(name string) int {
			a := acc(name, "sha256", D)
			a.readers(n, seg, true, 0)
			return a.t.Close()
		})
	}
	D130 := c16Leaves(r, "sha256", N, 2)
	add("acc_sha256_reader_130", func(name string) int {
		a := acc(name, "sha256", D130)
		a.readers(N, 2, thorough, 0)
		return a.t.Close()
	})
	D9 := c16Leaves(r, "mimc", 9, 64)
	add("acc_mimc_reader_009", func(name string) int {
		a := acc(name, "mimc", D9)
		a.readers(9, 64, true, 0)
		return a.t.Close()
	})

	// (D) Vortex: all n <= 130, every position (committed and padding), sharded by n
	vxShards, vxLevel := 8, 0
	if thorough {
		vxShards, vxLevel = 16, 2
	}
	for s := 0; s < vxShards; s++ {
		var ns []int
		for n := 1 + s; n <= N; n += vxShards {
			ns = append(ns, n)
		}
		add(fmt.Sprintf("vortex_grid_%02d", s), func(name string) int {
			v := c16NewVx(*out, name, N, ns, *seed, *tier)
			v.run(ns, func(n, d int) []int {
				var is []int
				for i := 0; i < 1<<uint(d); i++ {
					is = append(is, i)
				}
				return is
			}, vxLevel)
			return v.t.Close()
		})
	}
	// large trees (the parallel level construction starts at 512 nodes per level)
	// ... and leaf counts above 4096 whose padded size needs every step of the bit-smearing "next power of two"
	// (4097 = 2^12 + 1, 8194 = 2^13 + 2)
	bigNs := [][]int{{512, 513, 600}, {4097}}
	if thorough {
		bigNs = [][]int{{511, 512, 513}, {600, 777}, {1000, 1023, 1024}, {1025, 1500}, {4097}, {8194}}
	}
	for f, ns := range bigNs {
		ns := ns
		Nb := 1024
		for Nb < ns[len(ns)-1] {
			Nb *= 2
		}
		add(fmt.Sprintf("vortex_big_%d", f), func(name string) int {
			v := c16NewVx(*out, name, Nb, ns, *seed, *tier)
			v.run(ns, func(n, d int) []int {
				m := map[int]bool{0: true, 1: true, n - 1: true, n - 2: true, n / 2: true, 511: true, 512: true, 1<<uint(d) - 1: true}
				if n < 1<<uint(d) {
					m[n] = true
				}
				cnt := 12
				if thorough {
					cnt = 60
				}
				for k := 0; k < cnt; k++ {
					m[v.rng.Intn(1<<uint(d))] = true
				}
				var is []int
				for i := range m {
					if i >= 0 && i < 1<<uint(d) {
						is = append(is, i)
					}
				}
				sort.Ints(is)
				return is
			}, 0)
			return v.t.Close()
		})
	}

	// write the files concurrently (each has its own generator seeded by seed and file name)
	counts := make([]int, len(jobs))
	sem := make(chan struct{}, *par)
	var wg sync.WaitGroup
	for k := range jobs {
		k := k
		wg.Add(1)
		sem <- struct{}{}
		go func() {
			defer wg.Done()
			counts[k] = jobs[k].run(jobs[k].name)
			<-sem
		}()
	}
	wg.Wait()
	total := 0
	for k, j := range jobs {
		total += counts[k]
		fmt.Printf("c16 %-28s %7d events\n", j.name, counts[k])
	}
	fmt.Printf("c16 total %d events in %d files\n", total, len(jobs))
}
