package main

// C12 driver: EdDSA (8 twisted Edwards instances) and ECDSA (10 curves) of gnark-crypto.
//
// Every public call (GenerateKey, Sign, SignForRecover, Verify, RecoverFrom, Public, the Bytes /
// SetBytes of keys and signatures) is one ndjson event logged at its return with raw observations
// only: byte strings, raw (Montgomery) coordinates read by reflection, the (bool, error) pair, panics,
// the arguments as they are after the call. Sign / Verify get a recording hash.Hash (c12Rec) around
// the real SHA-256 / MiMC, so an event carries what the code fed to the hash and the digest it got
// back. Nothing is judged here: spec/C12_signatures/TraceEddsa.tla and TraceEcdsa.tla are the judges.
//
// Inputs: (i) derived from the model (MCEddsa / MCEcdsa): honest triples, every candidate of the
// component lattice {0, 1, order-1, order, order+1, high bits, 2^k-1, swapped halves, wrong sizes,
// y = 0, y >= p, sign bit on x = 0, small-order R, torsion-shifted R and A, (r, n-s), nonce 0},
// one-bit mutations of honest triples, keys and encodings; (ii) seeded random ones (-seed).
// Library arithmetic is used for input construction only (forged candidates), never for a verdict.

import (
	"bytes"
	"crypto/sha256"
	"errors"
	"flag"
	"fmt"
	"hash"
	"io"
	"math/big"
	"reflect"
	"strings"
	"sync"

	ecdsa_bls12377 "github.com/consensys/gnark-crypto/ecc/bls12-377/ecdsa"
	mimc_bls12377 "github.com/consensys/gnark-crypto/ecc/bls12-377/fr/mimc"
	eddsa_bls12377 "github.com/consensys/gnark-crypto/ecc/bls12-377/twistededwards/eddsa"
	eddsa_bandersnatch "github.com/consensys/gnark-crypto/ecc/bls12-381/bandersnatch/eddsa"
	ecdsa_bls12381 "github.com/consensys/gnark-crypto/ecc/bls12-381/ecdsa"
	mimc_bls12381 "github.com/consensys/gnark-crypto/ecc/bls12-381/fr/mimc"
	eddsa_bls12381 "github.com/consensys/gnark-crypto/ecc/bls12-381/twistededwards/eddsa"
	ecdsa_bls24315 "github.com/consensys/gnark-crypto/ecc/bls24-315/ecdsa"
	mimc_bls24315 "github.com/consensys/gnark-crypto/ecc/bls24-315/fr/mimc"
	eddsa_bls24315 "github.com/consensys/gnark-crypto/ecc/bls24-315/twistededwards/eddsa"
	ecdsa_bls24317 "github.com/consensys/gnark-crypto/ecc/bls24-317/ecdsa"
	mimc_bls24317 "github.com/consensys/gnark-crypto/ecc/bls24-317/fr/mimc"
	eddsa_bls24317 "github.com/consensys/gnark-crypto/ecc/bls24-317/twistededwards/eddsa"
	ecdsa_bn254 "github.com/consensys/gnark-crypto/ecc/bn254/ecdsa"
	mimc_bn254 "github.com/consensys/gnark-crypto/ecc/bn254/fr/mimc"
	eddsa_bn254 "github.com/consensys/gnark-crypto/ecc/bn254/twistededwards/eddsa"
	ecdsa_bw6633 "github.com/consensys/gnark-crypto/ecc/bw6-633/ecdsa"
	mimc_bw6633 "github.com/consensys/gnark-crypto/ecc/bw6-633/fr/mimc"
	eddsa_bw6633 "github.com/consensys/gnark-crypto/ecc/bw6-633/twistededwards/eddsa"
	ecdsa_bw6761 "github.com/consensys/gnark-crypto/ecc/bw6-761/ecdsa"
	mimc_bw6761 "github.com/consensys/gnark-crypto/ecc/bw6-761/fr/mimc"
	eddsa_bw6761 "github.com/consensys/gnark-crypto/ecc/bw6-761/twistededwards/eddsa"
	ecdsa_grumpkin "github.com/consensys/gnark-crypto/ecc/grumpkin/ecdsa"
	mimc_grumpkin "github.com/consensys/gnark-crypto/ecc/grumpkin/fr/mimc"
	ecdsa_secp256k1 "github.com/consensys/gnark-crypto/ecc/secp256k1/ecdsa"
	ecdsa_stark "github.com/consensys/gnark-crypto/ecc/stark-curve/ecdsa"
	"github.com/consensys/gnark-crypto/ecc"
	tedwards "github.com/consensys/gnark-crypto/ecc/twistededwards"
	"github.com/consensys/gnark-crypto/signature"
	sigecdsa "github.com/consensys/gnark-crypto/signature/ecdsa"
	sigeddsa "github.com/consensys/gnark-crypto/signature/eddsa"
)

// ---------------------------------------------------------------------------------------
// recording hash (same observation discipline as the C15 driver)

type c12Rec struct {
	inner hash.Hash
	cur   [][]byte // successful writes since the last Reset
	ops   []Ev
}

func (r *c12Rec) hashPanic(in string, extra Ev) {
	if x := recover(); x != nil {
		msg := strings.SplitN(fmt.Sprint(x), "\n", 2)[0]
		if len(msg) > 120 {
			msg = msg[:120]
		}
		if extra != nil {
			r.ops = append(r.ops, extra)
		}
		r.ops = append(r.ops, Ev{"k": "X", "in": in, "msg": msg})
		panic(x)
	}
}

func (r *c12Rec) Write(p []byte) (n int, err error) {
	b := append([]byte{}, p...)
	defer r.hashPanic("Write", Ev{"k": "W", "b": bytesToInts(b), "ok": false})
	n, err = r.inner.Write(p)
	if err == nil {
		r.cur = append(r.cur, b)
	}
	r.ops = append(r.ops, Ev{"k": "W", "b": bytesToInts(b), "ok": err == nil})
	return n, err
}

func (r *c12Rec) Sum(b []byte) []byte {
	defer r.hashPanic("Sum", nil)
	out := r.inner.Sum(b)
	pre := make([][]int, len(r.cur))
	for i := range r.cur {
		pre[i] = bytesToInts(r.cur[i])
	}
	r.ops = append(r.ops, Ev{"k": "S", "pre": pre, "d": bytesToInts(out[len(b):])})
	return out
}

func (r *c12Rec) Reset() {
	defer r.hashPanic("Reset", nil)
	r.inner.Reset()
	r.cur = r.cur[:0]
	r.ops = append(r.ops, Ev{"k": "R"})
}
func (r *c12Rec) Size() int      { return r.inner.Size() }
func (r *c12Rec) BlockSize() int { return r.inner.BlockSize() }

// ---------------------------------------------------------------------------------------
// instances

type c12Codec interface {
	SetBytes([]byte) (int, error)
	Bytes() []byte
}

type c12Inst struct {
	scheme     string // eddsa | ecdsa
	name       string // header "curve": Edwards name (EdwardsParams) or curve name (CurveParams)
	impl       string // eddsa: the registered Edwards curve whose point type the package really uses
	pkg        string // eddsa: set when the package is (also) judged against the curve it really uses
	coordField string // field of the point coordinates
	nb         int    // bytes of a scalar (sizeFr of the package)
	fb         int    // bytes of a coordinate
	pkb        int    // bytes of an encoded public key
	privb      int    // bytes of an encoded private key
	raw        bool   // ecdsa: public key is x||y uncompressed (secp256k1)
	recover    bool   // ecdsa: SignForRecover / RecoverFrom exist
	order      *big.Int
	gen        func(io.Reader) (signature.Signer, error)
	via        func(io.Reader) (signature.Signer, error) // the generic constructor signature/{eddsa,ecdsa}.New for this instance
	newPub     func() signature.PublicKey
	newPriv    func() signature.Signer
	newSig     func() c12Codec
	mimc       func() hash.Hash
	mimcBS     int
	mimcMod    *big.Int
}

var c12Insts []*c12Inst
var c12Once sync.Once

func c12Ed(name, field string, gen func(io.Reader) (signature.Signer, error), np func() signature.PublicKey,
	npr func() signature.Signer, ns func() c12Codec, mimc func() hash.Hash) {
	f := fields[field]
	nb := f.Limbs * f.WBits / 8
	// which Edwards curve does the package work on? (type of PublicKey.A)
	impl := ""
	at := reflect.TypeOf(np()).Elem().Field(0).Type
	for _, n := range edwardsNames {
		if edwards[n].AffT == at {
			impl = n
		}
	}
	if impl == "" {
		fatal("c12: no registered Edwards curve for %s", at)
	}
	_, _, order, _ := edwards[impl].params()
	c12Insts = append(c12Insts, &c12Inst{scheme: "eddsa", name: name, impl: impl, coordField: field, nb: nb, fb: nb, pkb: nb, privb: 2*nb + 32,
		order: order, gen: gen, newPub: np, newPriv: npr, newSig: ns, mimc: mimc, mimcBS: nb, mimcMod: f.Q})
}

func c12Ec(name string, raw, rec bool, gen func(io.Reader) (signature.Signer, error), np func() signature.PublicKey,
	npr func() signature.Signer, ns func() c12Codec, mimc func() hash.Hash, mimcField string) {
	fr, fp := fields[name+"/fr"], fields[name+"/fp"]
	nb, fb := fr.Limbs*fr.WBits/8, fp.Limbs*fp.WBits/8
	pkb := fb
	if raw {
		pkb = 2 * fb
	}
	mf := fields[mimcField]
	c12Insts = append(c12Insts, &c12Inst{scheme: "ecdsa", name: name, coordField: name + "/fp", nb: nb, fb: fb, pkb: pkb, privb: pkb + nb,
		raw: raw, recover: rec, order: fr.Q, gen: gen, newPub: np, newPriv: npr, newSig: ns, mimc: mimc,
		mimcBS: mf.Limbs * mf.WBits / 8, mimcMod: mf.Q})
}

func c12Register() {
	c12Ed("bn254", "bn254/fr", func(r io.Reader) (signature.Signer, error) { return eddsa_bn254.GenerateKey(r) },
		func() signature.PublicKey { return new(eddsa_bn254.PublicKey) }, func() signature.Signer { return new(eddsa_bn254.PrivateKey) },
		func() c12Codec { return new(eddsa_bn254.Signature) }, func() hash.Hash { return mimc_bn254.NewMiMC() })
	c12Ed("bls12-377", "bls12-377/fr", func(r io.Reader) (signature.Signer, error) { return eddsa_bls12377.GenerateKey(r) },
		func() signature.PublicKey { return new(eddsa_bls12377.PublicKey) }, func() signature.Signer { return new(eddsa_bls12377.PrivateKey) },
		func() c12Codec { return new(eddsa_bls12377.Signature) }, func() hash.Hash { return mimc_bls12377.NewMiMC() })
	c12Ed("bls12-381", "bls12-381/fr", func(r io.Reader) (signature.Signer, error) { return eddsa_bls12381.GenerateKey(r) },
		func() signature.PublicKey { return new(eddsa_bls12381.PublicKey) }, func() signature.Signer { return new(eddsa_bls12381.PrivateKey) },
		func() c12Codec { return new(eddsa_bls12381.Signature) }, func() hash.Hash { return mimc_bls12381.NewMiMC() })
	c12Ed("bls12-381-bandersnatch", "bls12-381/fr", func(r io.Reader) (signature.Signer, error) { return eddsa_bandersnatch.GenerateKey(r) },
		func() signature.PublicKey { return new(eddsa_bandersnatch.PublicKey) }, func() signature.Signer { return new(eddsa_bandersnatch.PrivateKey) },
		func() c12Codec { return new(eddsa_bandersnatch.Signature) }, func() hash.Hash { return mimc_bls12381.NewMiMC() })
	c12Ed("bls24-315", "bls24-315/fr", func(r io.Reader) (signature.Signer, error) { return eddsa_bls24315.GenerateKey(r) },
		func() signature.PublicKey { return new(eddsa_bls24315.PublicKey) }, func() signature.Signer { return new(eddsa_bls24315.PrivateKey) },
		func() c12Codec { return new(eddsa_bls24315.Signature) }, func() hash.Hash { return mimc_bls24315.NewMiMC() })
	c12Ed("bls24-317", "bls24-317/fr", func(r io.Reader) (signature.Signer, error) { return eddsa_bls24317.GenerateKey(r) },
		func() signature.PublicKey { return new(eddsa_bls24317.PublicKey) }, func() signature.Signer { return new(eddsa_bls24317.PrivateKey) },
		func() c12Codec { return new(eddsa_bls24317.Signature) }, func() hash.Hash { return mimc_bls24317.NewMiMC() })
	c12Ed("bw6-633", "bw6-633/fr", func(r io.Reader) (signature.Signer, error) { return eddsa_bw6633.GenerateKey(r) },
		func() signature.PublicKey { return new(eddsa_bw6633.PublicKey) }, func() signature.Signer { return new(eddsa_bw6633.PrivateKey) },
		func() c12Codec { return new(eddsa_bw6633.Signature) }, func() hash.Hash { return mimc_bw6633.NewMiMC() })
	c12Ed("bw6-761", "bw6-761/fr", func(r io.Reader) (signature.Signer, error) { return eddsa_bw6761.GenerateKey(r) },
		func() signature.PublicKey { return new(eddsa_bw6761.PublicKey) }, func() signature.Signer { return new(eddsa_bw6761.PrivateKey) },
		func() c12Codec { return new(eddsa_bw6761.Signature) }, func() hash.Hash { return mimc_bw6761.NewMiMC() })

	c12Ec("bn254", false, true, func(r io.Reader) (signature.Signer, error) { return ecdsa_bn254.GenerateKey(r) },
		func() signature.PublicKey { return new(ecdsa_bn254.PublicKey) }, func() signature.Signer { return new(ecdsa_bn254.PrivateKey) },
		func() c12Codec { return new(ecdsa_bn254.Signature) }, func() hash.Hash { return mimc_bn254.NewMiMC() }, "bn254/fr")
	c12Ec("bls12-377", false, false, func(r io.Reader) (signature.Signer, error) { return ecdsa_bls12377.GenerateKey(r) },
		func() signature.PublicKey { return new(ecdsa_bls12377.PublicKey) }, func() signature.Signer { return new(ecdsa_bls12377.PrivateKey) },
		func() c12Codec { return new(ecdsa_bls12377.Signature) }, func() hash.Hash { return mimc_bls12377.NewMiMC() }, "bls12-377/fr")
	c12Ec("bls12-381", false, false, func(r io.Reader) (signature.Signer, error) { return ecdsa_bls12381.GenerateKey(r) },
		func() signature.PublicKey { return new(ecdsa_bls12381.PublicKey) }, func() signature.Signer { return new(ecdsa_bls12381.PrivateKey) },
		func() c12Codec { return new(ecdsa_bls12381.Signature) }, func() hash.Hash { return mimc_bls12381.NewMiMC() }, "bls12-381/fr")
	c12Ec("bls24-315", false, false, func(r io.Reader) (signature.Signer, error) { return ecdsa_bls24315.GenerateKey(r) },
		func() signature.PublicKey { return new(ecdsa_bls24315.PublicKey) }, func() signature.Signer { return new(ecdsa_bls24315.PrivateKey) },
		func() c12Codec { return new(ecdsa_bls24315.Signature) }, func() hash.Hash { return mimc_bls24315.NewMiMC() }, "bls24-315/fr")
	c12Ec("bls24-317", false, false, func(r io.Reader) (signature.Signer, error) { return ecdsa_bls24317.GenerateKey(r) },
		func() signature.PublicKey { return new(ecdsa_bls24317.PublicKey) }, func() signature.Signer { return new(ecdsa_bls24317.PrivateKey) },
		func() c12Codec { return new(ecdsa_bls24317.Signature) }, func() hash.Hash { return mimc_bls24317.NewMiMC() }, "bls24-317/fr")
	c12Ec("bw6-633", false, false, func(r io.Reader) (signature.Signer, error) { return ecdsa_bw6633.GenerateKey(r) },
		func() signature.PublicKey { return new(ecdsa_bw6633.PublicKey) }, func() signature.Signer { return new(ecdsa_bw6633.PrivateKey) },
		func() c12Codec { return new(ecdsa_bw6633.Signature) }, func() hash.Hash { return mimc_bw6633.NewMiMC() }, "bw6-633/fr")
	c12Ec("bw6-761", false, false, func(r io.Reader) (signature.Signer, error) { return ecdsa_bw6761.GenerateKey(r) },
		func() signature.PublicKey { return new(ecdsa_bw6761.PublicKey) }, func() signature.Signer { return new(ecdsa_bw6761.PrivateKey) },
		func() c12Codec { return new(ecdsa_bw6761.Signature) }, func() hash.Hash { return mimc_bw6761.NewMiMC() }, "bw6-761/fr")
	c12Ec("grumpkin", false, false, func(r io.Reader) (signature.Signer, error) { return ecdsa_grumpkin.GenerateKey(r) },
		func() signature.PublicKey { return new(ecdsa_grumpkin.PublicKey) }, func() signature.Signer { return new(ecdsa_grumpkin.PrivateKey) },
		func() c12Codec { return new(ecdsa_grumpkin.Signature) }, func() hash.Hash { return mimc_grumpkin.NewMiMC() }, "grumpkin/fr")
	// no MiMC over the scalar fields of secp256k1 / stark-curve: the bn254 MiMC serves as "an algebraic hash.Hash"
	c12Ec("secp256k1", true, true, func(r io.Reader) (signature.Signer, error) { return ecdsa_secp256k1.GenerateKey(r) },
		func() signature.PublicKey { return new(ecdsa_secp256k1.PublicKey) }, func() signature.Signer { return new(ecdsa_secp256k1.PrivateKey) },
		func() c12Codec { return new(ecdsa_secp256k1.Signature) }, func() hash.Hash { return mimc_bn254.NewMiMC() }, "bn254/fr")
	c12Ec("stark-curve", false, true, func(r io.Reader) (signature.Signer, error) { return ecdsa_stark.GenerateKey(r) },
		func() signature.PublicKey { return new(ecdsa_stark.PublicKey) }, func() signature.Signer { return new(ecdsa_stark.PrivateKey) },
		func() c12Codec { return new(ecdsa_stark.Signature) }, func() hash.Hash { return mimc_bn254.NewMiMC() }, "bn254/fr")
}

var c12EdIDs = map[string]tedwards.ID{"bn254": tedwards.BN254, "bls12-377": tedwards.BLS12_377, "bls12-381": tedwards.BLS12_381,
	"bls12-381-bandersnatch": tedwards.BLS12_381_BANDERSNATCH, "bls24-315": tedwards.BLS24_315, "bls24-317": tedwards.BLS24_317,
	"bw6-761": tedwards.BW6_761, "bw6-633": tedwards.BW6_633}
var c12EcIDs = map[string]ecc.ID{"bn254": ecc.BN254, "bls12-377": ecc.BLS12_377, "bls12-381": ecc.BLS12_381, "bls24-315": ecc.BLS24_315,
	"bls24-317": ecc.BLS24_317, "bw6-761": ecc.BW6_761, "bw6-633": ecc.BW6_633, "stark-curve": ecc.STARK_CURVE, "secp256k1": ecc.SECP256K1,
	"grumpkin": ecc.GRUMPKIN}

func c12SetVia() {
	for _, in := range c12Insts {
		if in.scheme == "eddsa" {
			id := c12EdIDs[in.name]
			in.via = func(r io.Reader) (signature.Signer, error) { return sigeddsa.New(id, r) }
		} else {
			id := c12EcIDs[in.name]
			in.via = func(r io.Reader) (signature.Signer, error) { return sigecdsa.New(id, r) }
		}
	}
}

// ---------------------------------------------------------------------------------------
// one trace file

type c12Key struct {
	id     int
	priv   signature.Signer
	pub    signature.PublicKey
	scalar *big.Int
}

type c12Ctx struct {
	in   *c12Inst
	t    *TraceWriter
	r    *Rng
	keys []*c12Key
	nk   int
}

func c12Do(f func()) (msg string, panicked bool) {
	defer func() {
		if x := recover(); x != nil {
			panicked = true
			msg = strings.SplitN(fmt.Sprint(x), "\n", 2)[0]
			if len(msg) > 120 {
				msg = msg[:120]
			}
		}
	}()
	f()
	return
}

func (c *c12Ctx) F() *Field { return fields[c.in.coordField] }

// the point A of a *PublicKey (or of the PublicKey inside a *PrivateKey), addressable
func c12A(key any) reflect.Value {
	v := reflect.ValueOf(key).Elem()
	if pk := v.FieldByName("PublicKey"); pk.IsValid() {
		v = pk
	}
	return v.FieldByName("A")
}

func (c *c12Ctx) ptRaw(key any) any { return enc(c12A(key)) }

// setPt writes the coordinates (values, not necessarily reduced: raw = value * R mod q) into A
func (c *c12Ctx) setPt(key any, x, y *big.Int) {
	a, f := c12A(key), c.F()
	f.SetRaw(a.Field(0).Addr(), f.ToMont(new(big.Int).Mod(x, f.Q)))
	f.SetRaw(a.Field(1).Addr(), f.ToMont(new(big.Int).Mod(y, f.Q)))
}

func (c *c12Ctx) ptVal(key any) (x, y *big.Int) {
	a, f := c12A(key), c.F()
	val := func(v reflect.Value) *big.Int {
		z := new(big.Int).Mul(rawOfElem(v), f.Rinv)
		return z.Mod(z, f.Q)
	}
	return val(a.Field(0)), val(a.Field(1))
}

func (c *c12Ctx) clonePub(p signature.PublicKey) signature.PublicKey {
	n := c.in.newPub()
	c12A(n).Set(c12A(p))
	return n
}

func c12Err(ev Ev, err error, pm string, pk bool) {
	if pk {
		ev["panic"] = pm
	} else if err != nil {
		ev["err"] = err.Error()
	}
}

type c12FailReader struct{}

func (c12FailReader) Read([]byte) (int, error) { return 0, errors.New("no entropy") }

func (c *c12Ctx) genKey() *c12Key { return c.genKeyBy(false) }

// genKeyBy(true) goes through the generic constructor signature/{eddsa,ecdsa}.New
func (c *c12Ctx) genKeyBy(via bool) *c12Key {
	seed := c.r.Bytes(160)
	c.nk++
	ev := Ev{"op": "GenerateKey", "k": c.nk, "seed": bytesToInts(seed)}
	gen := c.in.gen
	if via {
		gen = c.in.via
		ev["via"] = "New"
	}
	var priv signature.Signer
	var err error
	pm, pk := c12Do(func() { priv, err = gen(bytes.NewReader(seed)) })
	c12Err(ev, err, pm, pk)
	var key *c12Key
	if !pk && err == nil {
		b := priv.Bytes()
		ev["priv"] = bytesToInts(b)
		ev["A"] = c.ptRaw(priv)
		key = &c12Key{id: c.nk, priv: priv, scalar: new(big.Int).SetBytes(b[c.in.pkb : c.in.pkb+c.in.nb])}
	}
	c.t.Emit(ev)
	if key != nil {
		key.pub = c.public(key)
		c.keys = append(c.keys, key)
	}
	return key
}

func (c *c12Ctx) genKeyFail() {
	ev := Ev{"op": "GenerateKey", "k": 0, "rdfail": true}
	var priv signature.Signer
	var err error
	pm, pk := c12Do(func() { priv, err = c.in.gen(c12FailReader{}) })
	c12Err(ev, err, pm, pk)
	if !pk && err == nil && priv != nil && !reflect.ValueOf(priv).IsNil() {
		ev["priv"] = bytesToInts(priv.Bytes())
	}
	c.t.Emit(ev)
}

func (c *c12Ctx) public(k *c12Key) signature.PublicKey {
	ev := Ev{"op": "Public", "k": k.id}
	var p signature.PublicKey
	pm, pk := c12Do(func() { p = k.priv.Public() })
	c12Err(ev, nil, pm, pk)
	if !pk {
		ev["A"] = c.ptRaw(p)
	}
	c.t.Emit(ev)
	if !pk && len(c.keys) > 0 {
		// caller-side action (no event): a second reply of Public() is overwritten with another key's encoding. The key
		// object handed out is the caller's; the signer and the first reply must not notice (every later Sign / Verify /
		// Bytes of this key is judged against the key pair as generated).
		c12Do(func() {
			p2 := k.priv.Public()
			p2.SetBytes(c.keys[0].pub.Bytes())
		})
	}
	return p
}

// hasher returns the hash handed to the code (nil for hk = "nil") and its recorder
func (c *c12Ctx) hasher(hk string, dirty bool) (hash.Hash, *c12Rec) {
	var rec *c12Rec
	switch hk {
	case "nil":
		return nil, nil
	case "sha256":
		rec = &c12Rec{inner: sha256.New()}
	case "mimc":
		rec = &c12Rec{inner: c.in.mimc()}
	default:
		fatal("c12: hash kind %s", hk)
	}
	if dirty { // a hash that was used before: the code must Reset it
		g := make([]byte, c.in.mimcBS)
		g[len(g)-1] = 0x5a
		rec.Write(g)
		rec.ops = nil
	}
	return rec, rec
}

func c12Hops(ev Ev, rec *c12Rec) {
	if rec != nil {
		ops := rec.ops
		if ops == nil {
			ops = []Ev{}
		}
		ev["hops"] = ops
	}
}

func (c *c12Ctx) sign(k *c12Key, msg []byte, hk string, dirty bool) []byte {
	h, rec := c.hasher(hk, dirty)
	m := append([]byte{}, msg...)
	ev := Ev{"op": "Sign", "k": k.id, "msg": bytesToInts(msg), "hk": hk, "dirty": dirty}
	var sig []byte
	var err error
	pm, pk := c12Do(func() { sig, err = k.priv.Sign(m, h) })
	c12Err(ev, err, pm, pk)
	c12Hops(ev, rec)
	if !pk {
		ev["msgafter"] = bytesToInts(m)
		if err == nil {
			ev["sig"] = bytesToInts(sig)
		}
		ev["privafter"] = bytesToInts(k.priv.Bytes())
	}
	c.t.Emit(ev)
	if pk || err != nil {
		return nil
	}
	return sig
}

func (c *c12Ctx) verify(pub signature.PublicKey, sig, msg []byte, hk string, dirty bool, tag string) bool {
	h, rec := c.hasher(hk, dirty)
	p := c.clonePub(pub)
	s, m := append([]byte{}, sig...), append([]byte{}, msg...)
	ev := Ev{"op": "Verify", "A": c.ptRaw(p), "sig": bytesToInts(sig), "msg": bytesToInts(msg), "hk": hk, "dirty": dirty, "tag": tag}
	var ok bool
	var err error
	pm, pk := c12Do(func() { ok, err = p.Verify(s, m, h) })
	c12Err(ev, err, pm, pk)
	c12Hops(ev, rec)
	if !pk {
		ev["ok"] = ok
		ev["Aafter"] = c.ptRaw(p)
		ev["sigafter"] = bytesToInts(s)
		ev["msgafter"] = bytesToInts(m)
	}
	c.t.Emit(ev)
	return ok && !pk
}

// sigSetBytes: Signature.SetBytes(buf) on a fresh object, then Bytes() of that object
func (c *c12Ctx) sigSetBytes(buf []byte, tag string) {
	b := append([]byte{}, buf...)
	ev := Ev{"op": "SigSetBytes", "buf": bytesToInts(buf), "tag": tag}
	s := c.in.newSig()
	var n int
	var err error
	pm, pk := c12Do(func() { n, err = s.SetBytes(b) })
	c12Err(ev, err, pm, pk)
	if !pk {
		ev["n"] = n
		ev["bufafter"] = bytesToInts(b)
		if err == nil {
			v := reflect.ValueOf(s).Elem()
			if c.in.scheme == "eddsa" {
				ev["R"] = enc(v.FieldByName("R"))
			} else {
				ev["R"] = c12ByteArr(v.FieldByName("R"))
			}
			ev["S"] = c12ByteArr(v.FieldByName("S"))
			var back []byte
			pm2, pk2 := c12Do(func() { back = s.Bytes() })
			if pk2 {
				ev["panic"] = "Bytes: " + pm2
			} else {
				ev["back"] = bytesToInts(back)
			}
		}
	}
	c.t.Emit(ev)
}

func c12ByteArr(v reflect.Value) []int {
	out := make([]int, v.Len())
	for i := range out {
		out[i] = int(v.Index(i).Uint())
	}
	return out
}

func (c *c12Ctx) pubBytes(p signature.PublicKey) []byte {
	ev := Ev{"op": "PubBytes", "A": c.ptRaw(p)}
	var out []byte
	pm, pk := c12Do(func() { out = p.Bytes() })
	c12Err(ev, nil, pm, pk)
	if !pk {
		ev["out"] = bytesToInts(out)
		ev["Aafter"] = c.ptRaw(p)
	}
	c.t.Emit(ev)
	return out
}

// pubSetBytes on a fresh PublicKey; returns it when the code accepted the buffer
func (c *c12Ctx) pubSetBytes(buf []byte, tag string) signature.PublicKey {
	b := append([]byte{}, buf...)
	ev := Ev{"op": "PubSetBytes", "buf": bytesToInts(buf), "tag": tag}
	p := c.in.newPub()
	var n int
	var err error
	pm, pk := c12Do(func() { n, err = p.SetBytes(b) })
	c12Err(ev, err, pm, pk)
	if !pk {
		ev["n"] = n
		ev["bufafter"] = bytesToInts(b)
		if err == nil {
			ev["A"] = c.ptRaw(p)
			var back []byte
			pm2, pk2 := c12Do(func() { back = p.Bytes() })
			if pk2 {
				ev["panic"] = "Bytes: " + pm2
			} else {
				ev["back"] = bytesToInts(back)
			}
		}
	}
	c.t.Emit(ev)
	if pk || err != nil {
		return nil
	}
	return p
}

// privSetBytes on a fresh PrivateKey; registers the key under a new id when accepted
func (c *c12Ctx) privSetBytes(buf []byte, tag string) *c12Key {
	b := append([]byte{}, buf...)
	c.nk++
	ev := Ev{"op": "PrivSetBytes", "k": c.nk, "buf": bytesToInts(buf), "tag": tag}
	p := c.in.newPriv()
	var n int
	var err error
	pm, pk := c12Do(func() { n, err = p.SetBytes(b) })
	c12Err(ev, err, pm, pk)
	var key *c12Key
	if !pk {
		ev["n"] = n
		ev["bufafter"] = bytesToInts(b)
		if err == nil {
			ev["A"] = c.ptRaw(p)
			back := p.Bytes()
			ev["back"] = bytesToInts(back)
			key = &c12Key{id: c.nk, priv: p, scalar: new(big.Int).SetBytes(back[c.in.pkb : c.in.pkb+c.in.nb])}
		}
	}
	c.t.Emit(ev)
	if key != nil {
		key.pub = c.public(key)
	}
	return key
}

// ---------------------------------------------------------------------------------------
// messages

func (c *c12Ctx) elemBytes(v *big.Int) []byte {
	b := make([]byte, c.in.mimcBS)
	v.FillBytes(b)
	return b
}

// a message the MiMC of the instance accepts: n canonical field elements
func (c *c12Ctx) mimcMsg(n int) []byte {
	var out []byte
	for i := 0; i < n; i++ {
		out = append(out, c.elemBytes(c.r.Below(c.in.mimcMod))...)
	}
	return out
}

type c12Msg struct {
	hk  string
	msg []byte
}

// honest message set: lengths 0, 1, below / at / above the SHA-256 block, multi-block; MiMC: 0, 1, several elements
func (c *c12Ctx) messages(thorough bool) []c12Msg {
	var ms []c12Msg
	lens := []int{0, 1, 55, 64, 65, 200}
	if thorough {
		lens = append(lens, 31, 32, 33, 56, 63, 119, 128, 1000)
	}
	for _, n := range lens {
		ms = append(ms, c12Msg{"sha256", c.r.Bytes(n)})
	}
	el := []int{0, 1, 2, 5}
	if thorough {
		el = append(el, 3, 9)
	}
	for _, n := range el {
		ms = append(ms, c12Msg{"mimc", c.mimcMsg(n)})
	}
	// short write: MiMC left-pads it
	ms = append(ms, c12Msg{"mimc", []byte{7, 7, 7}})
	if c.in.scheme == "ecdsa" { // pre-hashed messages (nil hash): shorter, equal, longer than the order, leading zeros, all ones
		nb := c.in.nb
		z := c.r.Bytes(nb)
		z[0] = 0
		ms = append(ms, c12Msg{"nil", c.r.Bytes(nb)}, c12Msg{"nil", c.r.Bytes(nb - 3)}, c12Msg{"nil", c.r.Bytes(nb + 9)}, c12Msg{"nil", z},
			c12Msg{"nil", bytes.Repeat([]byte{0xff}, nb)}, c12Msg{"nil", []byte{}}, c12Msg{"nil", c.elemBytesN(c.in.order, nb)})
	}
	return ms
}

func (c *c12Ctx) elemBytesN(v *big.Int, n int) []byte {
	b := make([]byte, n)
	new(big.Int).Mod(v, new(big.Int).Lsh(big.NewInt(1), uint(8*n))).FillBytes(b)
	return b
}

// messages the MiMC refuses
func (c *c12Ctx) badMimcMsgs() [][]byte {
	bs := c.in.mimcBS
	return [][]byte{
		c.r.Bytes(bs + 1),              // not a multiple of the block
		bytes.Repeat([]byte{0xff}, bs), // not a field element
		append(c.mimcMsg(1), bytes.Repeat([]byte{0xff}, bs)...), // second element refused
	}
}

func c12Flip(b []byte, bit int) []byte {
	o := append([]byte{}, b...)
	o[bit/8] ^= 1 << uint(bit%8)
	return o
}

// ---------------------------------------------------------------------------------------
// scenario parts shared by both schemes

func (c *c12Ctx) partHonest(thorough bool) {
	nk := 2
	if thorough {
		nk = 6
	}
	c.genKeyFail()
	for i := 0; i < nk; i++ {
		c.genKey()
	}
	for i, k := range c.keys {
		for j, m := range c.messages(thorough) {
			if !thorough && i > 0 && j%3 != 0 {
				continue
			}
			dirty := (i+j)%4 == 3
			sig := c.sign(k, m.msg, m.hk, dirty)
			if sig == nil {
				continue
			}
			c.verify(k.pub, sig, m.msg, m.hk, (i+j)%5 == 1, "honest")
			if j%4 == 0 { // the same signature under another key / for another message / with another hash
				o := c.keys[(i+1)%len(c.keys)]
				c.verify(o.pub, sig, m.msg, m.hk, false, "otherkey")
				if len(m.msg) > 0 && m.hk != "mimc" {
					c.verify(k.pub, sig, c12Flip(m.msg, 0), m.hk, false, "othermsg")
				}
				if m.hk == "sha256" {
					c.verify(k.pub, sig, m.msg, "nil", false, "otherhash")
				}
			}
		}
		// the hash refuses the message
		good := c.sign(k, c.mimcMsg(1), "mimc", false)
		// ... also against a signature on the EMPTY message: a verifier that drops the refused message hashes exactly what
		// the signer of the empty message hashed
		goodEmpty := c.sign(k, []byte{}, "mimc", false)
		for _, bm := range c.badMimcMsgs() {
			c.sign(k, bm, "mimc", false)
			if good != nil {
				c.verify(k.pub, good, bm, "mimc", false, "badmimc")
			}
			if goodEmpty != nil {
				c.verify(k.pub, goodEmpty, bm, "mimc", false, "badmimc-empty")
			}
		}
		if c.in.scheme == "eddsa" {
			c.sign(k, []byte("hash needed"), "nil", false)
		}
	}
}

func (c *c12Ctx) partCodec(thorough bool) {
	c.genKey()
	c.genKeyBy(true)
	for _, k := range c.keys {
		pb := c.pubBytes(k.pub)
		c.pubSetBytes(pb, "roundtrip")
		c.pubSetBytes(append(append([]byte{}, pb...), 1, 2, 3), "longer")
		c.pubSetBytes(pb[:len(pb)-1], "short")
		c.pubSetBytes([]byte{}, "empty")
		prb := k.priv.Bytes()
		if nk := c.privSetBytes(prb, "roundtrip"); nk != nil {
			msg := c.r.Bytes(40)
			if sig := c.sign(nk, msg, "sha256", false); sig != nil {
				c.verify(k.pub, sig, msg, "sha256", false, "deserialised-signer")
				c.verify(nk.pub, sig, msg, "sha256", false, "deserialised-signer")
			}
		}
		c.privSetBytes(append(append([]byte{}, prb...), 9, 9), "longer")
		c.privSetBytes(prb[:len(prb)-1], "short")
		c.privSetBytes(prb[:c.in.pkb], "short")
		// signature objects
		msg := c.r.Bytes(33)
		if sig := c.sign(k, msg, "sha256", false); sig != nil {
			c.sigSetBytes(sig, "roundtrip")
			c.sigSetBytes(sig[:len(sig)-1], "short")
			c.sigSetBytes(append(append([]byte{}, sig...), 0), "long")
			c.sigSetBytes([]byte{}, "empty")
		}
		// one-bit mutations of the key encoding: decode, then verify an honest signature under what was decoded
		if sig := c.sign(k, msg, "sha256", false); sig != nil {
			nb := 12
			if thorough {
				nb = 8 * len(pb)
			}
			for i := 0; i < nb; i++ {
				bit := i
				if !thorough {
					bit = c.r.Intn(8 * len(pb))
					if i == 0 {
						bit = 8*len(pb) - 1
					} else if i == 1 {
						bit = 7
					}
				}
				if p := c.pubSetBytes(c12Flip(pb, bit), "keybit"); p != nil {
					c.verify(p, sig, msg, "sha256", false, "keybit")
				}
			}
		}
	}
}

// 64 (quick) one-bit mutations of an honest triple: signature bits, message bits, key coordinate bits
func (c *c12Ctx) partMut(thorough bool) {
	k := c.genKey()
	triples := 1
	if thorough {
		triples = 3
	}
	for tr := 0; tr < triples; tr++ {
		hk := []string{"sha256", "mimc", "sha256"}[tr%3]
		var msg []byte
		if hk == "mimc" {
			msg = c.mimcMsg(2)
		} else {
			msg = c.r.Bytes(70 + tr)
		}
		if tr == 2 && c.in.scheme == "ecdsa" {
			hk = "nil"
			msg = c.r.Bytes(c.in.nb)
		}
		sig := c.sign(k, msg, hk, false)
		if sig == nil {
			continue
		}
		c.verify(k.pub, sig, msg, hk, false, "honest")
		nsig, nmsg := 44, 8
		if thorough {
			nsig, nmsg = 8*len(sig), 64
		}
		for i := 0; i < nsig; i++ {
			bit := i
			if !thorough {
				switch {
				case i < 8:
					bit = 8*(c.in.nb-1) + i // last byte of the first half (EdDSA: sign bit and top bits of y)
				case i < 16:
					bit = i - 8 // first byte
				case i < 24:
					bit = 8*c.in.nb + i - 16 // first byte of the second half
				case i < 28:
					bit = 8*len(sig) - 1 - (i - 24)
				default:
					bit = c.r.Intn(8 * len(sig))
				}
			}
			ms := c12Flip(sig, bit)
			c.verify(k.pub, ms, msg, hk, false, "sigbit")
		}
		for i := 0; i < nmsg && hk != "mimc"; i++ {
			c.verify(k.pub, sig, c12Flip(msg, c.r.Intn(8*len(msg))), hk, false, "msgbit")
		}
		// key: one bit of a coordinate (the object handed to Verify, mostly off the curve)
		x, y := c.ptVal(k.pub)
		for i := 0; i < 12; i++ {
			p := c.in.newPub()
			bit := c.r.Intn(c.F().Q.BitLen() - 1)
			if i%2 == 0 {
				c.setPt(p, new(big.Int).Xor(x, new(big.Int).Lsh(big.NewInt(1), uint(bit))), y)
			} else {
				c.setPt(p, x, new(big.Int).Xor(y, new(big.Int).Lsh(big.NewInt(1), uint(bit))))
			}
			c.verify(p, sig, msg, hk, false, "keycoordbit")
		}
	}
}

// ---------------------------------------------------------------------------------------
// EdDSA: candidates from the component lattice, forged valid unusual signatures

type c12EdMath struct {
	c     *c12Ctx
	e     *Edwards
	f     *Field
	order *big.Int
	base  reflect.Value
}

func (c *c12Ctx) edMath() *c12EdMath {
	e := edwards[c.in.impl]
	_, _, order, base := e.params()
	return &c12EdMath{c: c, e: e, f: e.F(), order: order, base: base}
}
func (m *c12EdMath) mul(p reflect.Value, k *big.Int) reflect.Value {
	o := reflect.New(m.e.AffT)
	method(o, "ScalarMultiplication").Call([]reflect.Value{p, reflect.ValueOf(k)})
	return o
}
func (m *c12EdMath) add(p, q reflect.Value) reflect.Value {
	o := reflect.New(m.e.AffT)
	method(o, "Add").Call([]reflect.Value{p, q})
	return o
}
func (m *c12EdMath) pt(x, y *big.Int) reflect.Value {
	o := reflect.New(m.e.AffT)
	m.f.SetRaw(o.Elem().Field(0).Addr(), m.f.ToMont(x))
	m.f.SetRaw(o.Elem().Field(1).Addr(), m.f.ToMont(y))
	return o
}
func (m *c12EdMath) val(p reflect.Value) (x, y *big.Int) {
	v := func(e reflect.Value) *big.Int {
		z := new(big.Int).Mul(rawOfElem(e), m.f.Rinv)
		return z.Mod(z, m.f.Q)
	}
	return v(p.Elem().Field(0)), v(p.Elem().Field(1))
}
func (m *c12EdMath) encode(p reflect.Value) []byte {
	a := method(p, "Bytes").Call(nil)[0]
	b := make([]byte, a.Len())
	reflect.Copy(reflect.ValueOf(b), a)
	return b
}

// a random point of the curve (any coset of the prime-order subgroup)
func (m *c12EdMath) randOnCurve() reflect.Value {
	for {
		b := m.c.r.Bytes(m.c.in.nb)
		y := new(big.Int).SetBytes(b)
		y.Mod(y, m.f.Q)
		le := make([]byte, m.c.in.nb)
		y.FillBytes(le)
		for i, j := 0, len(le)-1; i < j; i, j = i+1, j-1 {
			le[i], le[j] = le[j], le[i]
		}
		p := reflect.New(m.e.AffT)
		method(p, "SetBytes").Call([]reflect.Value{reflect.ValueOf(le)})
		if method(p, "IsOnCurve").Call(nil)[0].Bool() {
			return p
		}
	}
}

// digest of R || A || M as the package feeds it (coordinates big endian, one write each)
func (m *c12EdMath) hram(hk string, R, A reflect.Value, msg []byte) *big.Int {
	var h hash.Hash
	if hk == "mimc" {
		h = m.c.in.mimc()
	} else {
		h = sha256.New()
	}
	rx, ry := m.val(R)
	ax, ay := m.val(A)
	for _, v := range []*big.Int{rx, ry, ax, ay} {
		b := make([]byte, m.c.in.nb)
		v.FillBytes(b)
		h.Write(b)
	}
	h.Write(msg)
	return new(big.Int).SetBytes(h.Sum(nil))
}

// forge builds enc(R) || S with S = r + H(R, A, M) a mod l for R = [r]B + T and the key point A (= [a]B + T')
func (m *c12EdMath) forge(hk string, r, a *big.Int, T, A reflect.Value, msg []byte) []byte {
	R := m.mul(m.base, r)
	if T.IsValid() {
		R = m.add(R, T)
	}
	h := m.hram(hk, R, A, msg)
	s := new(big.Int).Mul(h, a)
	s.Add(s, r).Mod(s, m.order)
	sb := make([]byte, m.c.in.nb)
	s.FillBytes(sb)
	return append(m.encode(R), sb...)
}

func c12LE(v *big.Int, n int) []byte {
	b := make([]byte, n)
	new(big.Int).Mod(v, new(big.Int).Lsh(big.NewInt(1), uint(8*n))).FillBytes(b)
	for i, j := 0, n-1; i < j; i, j = i+1, j-1 {
		b[i], b[j] = b[j], b[i]
	}
	return b
}

func (c *c12Ctx) partEdLattice(thorough bool) {
	m := c.edMath()
	nb, q, l := c.in.nb, m.f.Q, m.order
	k := c.genKey()
	k2 := c.genKey()
	A := reflect.New(m.e.AffT)
	A.Elem().Set(c12A(k.pub))
	one, two := big.NewInt(1), big.NewInt(2)
	top := new(big.Int).Lsh(one, uint(8*nb))
	for _, hk := range []string{"sha256", "mimc"} {
		var msg []byte
		if hk == "mimc" {
			msg = c.mimcMsg(2)
		} else {
			msg = c.r.Bytes(77)
		}
		sig := c.sign(k, msg, hk, false)
		if sig == nil {
			continue
		}
		Renc, S := sig[:nb], new(big.Int).SetBytes(sig[nb:])
		be := func(v *big.Int) []byte { return c.elemBytesN(v, nb) }
		try := func(tag string, s []byte) {
			c.verify(k.pub, s, msg, hk, false, tag)
			c.sigSetBytes(s, tag)
		}
		// S component
		for i, v := range []*big.Int{new(big.Int), one, new(big.Int).Sub(l, one), l, new(big.Int).Add(l, one), new(big.Int).Add(S, l),
			new(big.Int).Sub(top, one), new(big.Int).Or(S, new(big.Int).Lsh(one, uint(8*nb-1))), new(big.Int).Sub(l, S), q,
			new(big.Int).Lsh(S, 1), new(big.Int).Add(S, one)} {
			try(fmt.Sprintf("S%d", i), append(append([]byte{}, Renc...), be(v)...))
		}
		// R component: y = 0, 1 (identity), q-1 (order 2), q, q+1, y + q, all ones, sign flips, x <-> -x
		ry := new(big.Int).SetBytes(c12LE(new(big.Int).SetBytes(Renc), nb)) // little endian -> integer, sign bit included
		signBit := new(big.Int).Lsh(one, uint(8*nb-1))
		for i, v := range []*big.Int{new(big.Int), one, new(big.Int).Sub(q, one), q, new(big.Int).Add(q, one), new(big.Int).Add(new(big.Int).AndNot(ry, signBit), q),
			new(big.Int).Sub(top, one), new(big.Int).Xor(ry, signBit), new(big.Int).Or(one, signBit), new(big.Int).Or(new(big.Int).Sub(q, one), signBit),
			signBit, two, new(big.Int).Sub(q, two), new(big.Int).Rsh(q, 1)} {
			try(fmt.Sprintf("R%d", i), append(c12LE(v, nb), sig[nb:]...))
		}
		// halves swapped, truncated, extended, empty, three components
		try("swapped", append(append([]byte{}, sig[nb:]...), Renc...))
		try("short", sig[:len(sig)-1])
		try("long", append(append([]byte{}, sig...), 0))
		try("empty", []byte{})
		try("triple", append(append([]byte{}, sig...), sig[:nb]...))
		try("zero", make([]byte, 2*nb))
		try("ones", bytes.Repeat([]byte{0xff}, 2*nb))

		// valid but unusual triples, forged with the private scalar
		a := k.scalar
		r := c.r.Below(l)
		noT := reflect.Value{}
		// nonce 0: R is the identity (x = 0); then the same signature with the sign bit of R set
		f0 := m.forge(hk, new(big.Int), a, noT, A, msg)
		try("nonce0", f0)
		try("nonce0-signbit", c12Flip(f0, 8*(nb-1)+7))
		// R of order 2: (0, -1) (x = 0), with and without the sign bit
		T2 := m.pt(new(big.Int), new(big.Int).Sub(q, one))
		f2 := m.forge(hk, new(big.Int), a, T2, A, msg)
		try("R-order2", f2)
		try("R-order2-signbit", c12Flip(f2, 8*(nb-1)+7))
		// R shifted by small-order points: satisfies the cofactored equation only
		try("R+T2", m.forge(hk, r, a, T2, A, msg))
		Tc := m.mul(m.randOnCurve(), l) // order divides the cofactor
		try("R+Tc", m.forge(hk, r, a, Tc, A, msg))
		try("honest-forged", m.forge(hk, r, a, noT, A, msg))
		// the same with a wrong S (off by one): must be refused
		fw := m.forge(hk, r, a, Tc, A, msg)
		sw := new(big.Int).SetBytes(fw[nb:])
		sw.Add(sw, one).Mod(sw, l)
		if sw.Sign() != 0 {
			try("R+Tc-wrongS", append(append([]byte{}, fw[:nb]...), be(sw)...))
		}
		// key shifted by a small-order point: A' = A + T, signatures made with a verify under A'
		for i, T := range []reflect.Value{T2, Tc} {
			Ap := m.add(A, T)
			p := c.in.newPub()
			x, y := m.val(Ap)
			c.setPt(p, x, y)
			c.verify(p, m.forge(hk, r, a, noT, Ap, msg), msg, hk, false, fmt.Sprintf("A+T%d", i))
			c.verify(p, sig, msg, hk, false, fmt.Sprintf("A+T%d-oldsig", i))
		}
		// small-order and degenerate keys
		for i, xy := range [][2]*big.Int{{new(big.Int), one}, {new(big.Int), new(big.Int).Sub(q, one)}, {new(big.Int), new(big.Int)}, {one, one}} {
			p := c.in.newPub()
			c.setPt(p, xy[0], xy[1])
			c.verify(p, sig, msg, hk, false, fmt.Sprintf("degenerate-key%d", i))
			Ad := m.pt(xy[0], xy[1])
			if i < 2 { // under the identity / order-2 key: S = r verifies
				c.verify(p, m.forge(hk, r, new(big.Int), noT, Ad, msg), msg, hk, false, fmt.Sprintf("degenerate-key%d-forged", i))
			}
		}
		c.verify(k2.pub, sig, msg, hk, false, "otherkey")
	}
	// public key encodings: y >= q, sign bit on x = 0, ordinates of no point, all ones
	pb := c.pubBytes(k.pub)
	yv := new(big.Int).SetBytes(c12LE(new(big.Int).SetBytes(pb), nb))
	signBit := new(big.Int).Lsh(one, uint(8*nb-1))
	for i, v := range []*big.Int{new(big.Int), one, new(big.Int).Or(one, signBit), new(big.Int).Sub(q, one), new(big.Int).Or(new(big.Int).Sub(q, one), signBit),
		q, new(big.Int).Add(q, one), new(big.Int).Add(new(big.Int).AndNot(yv, signBit), q), new(big.Int).Xor(yv, signBit), new(big.Int).Sub(top, one), two, big.NewInt(3), big.NewInt(4), big.NewInt(5)} {
		c.pubSetBytes(c12LE(v, nb), fmt.Sprintf("pub%d", i))
	}
}

func (c *c12Ctx) partEdRandom(n int) {
	m := c.edMath()
	nb := c.in.nb
	k := c.genKey()
	A := reflect.New(m.e.AffT)
	A.Elem().Set(c12A(k.pub))
	for i := 0; i < n; i++ {
		hk := []string{"sha256", "mimc"}[c.r.Intn(2)]
		var msg []byte
		if hk == "mimc" {
			msg = c.mimcMsg(c.r.Intn(4))
		} else {
			msg = c.r.Bytes(c.r.Intn(150))
		}
		switch c.r.Intn(6) {
		case 0: // honest
			if sig := c.sign(k, msg, hk, c.r.Intn(3) == 0); sig != nil {
				c.verify(k.pub, sig, msg, hk, c.r.Intn(3) == 0, "honest")
			}
		case 1: // random bytes
			s := c.r.Bytes(2 * nb)
			c.verify(k.pub, s, msg, hk, false, "random")
			c.sigSetBytes(s, "random")
		case 2: // random point of the curve as R, random S below the order
			R := m.randOnCurve()
			s := append(m.encode(R), c.elemBytesN(c.r.Below(m.order), nb)...)
			c.verify(k.pub, s, msg, hk, false, "randomR")
			c.sigSetBytes(s, "randomR")
		case 3: // forged valid signature with R outside the subgroup
			T := m.mul(m.randOnCurve(), m.order)
			c.verify(k.pub, m.forge(hk, c.r.Below(m.order), k.scalar, T, A, msg), msg, hk, false, "forged-torsion")
		case 4: // random key of the curve (any coset), honest-looking signature for the subgroup part
			P := m.randOnCurve()
			p := c.in.newPub()
			x, y := m.val(P)
			c.setPt(p, x, y)
			if sig := c.sign(k, msg, hk, false); sig != nil {
				c.verify(p, sig, msg, hk, false, "randomkey")
			}
		case 5: // one random bit of an honest signature
			if sig := c.sign(k, msg, hk, false); sig != nil {
				c.verify(k.pub, c12Flip(sig, c.r.Intn(8*len(sig))), msg, hk, false, "sigbit")
			}
		}
	}
}

// ---------------------------------------------------------------------------------------
// ECDSA: lattice of (r, s), recovery

func (c *c12Ctx) signForRecover(k *c12Key, msg []byte, hk string) (v uint, r, s *big.Int, digest []byte, ok bool) {
	h, rec := c.hasher(hk, false)
	m := append([]byte{}, msg...)
	ev := Ev{"op": "SignForRecover", "k": k.id, "msg": bytesToInts(msg), "hk": hk}
	hv := reflect.Zero(reflect.TypeOf((*hash.Hash)(nil)).Elem())
	if h != nil {
		hv = reflect.ValueOf(h)
	}
	var out []reflect.Value
	pm, pk := c12Do(func() { out = method(reflect.ValueOf(k.priv), "SignForRecover").Call([]reflect.Value{reflect.ValueOf(m), hv}) })
	var err error
	if !pk && !out[3].IsNil() {
		err = out[3].Interface().(error)
	}
	c12Err(ev, err, pm, pk)
	c12Hops(ev, rec)
	if !pk && err == nil {
		v = uint(out[0].Uint())
		r, s = out[1].Interface().(*big.Int), out[2].Interface().(*big.Int)
		if v < 1<<30 {
			ev["v"] = int(v)
		} else {
			ev["v"] = -1
		}
		if r.Sign() >= 0 && s.Sign() >= 0 {
			ev["r"], ev["s"] = digits(r), digits(s)
			ok = true
		} else {
			ev["negative"] = true
		}
		ev["msgafter"] = bytesToInts(m)
	}
	c.t.Emit(ev)
	digest = msg
	if rec != nil {
		for _, o := range rec.ops {
			if o["k"] == "S" {
				d := o["d"].([]int)
				digest = make([]byte, len(d))
				for i, x := range d {
					digest[i] = byte(x)
				}
			}
		}
	}
	return
}

func (c *c12Ctx) recoverFrom(msg []byte, v uint, r, s *big.Int, tag string) {
	c.recoverKey(msg, v, r, s, tag)
}

// recoverKey is recoverFrom returning the recovered key object (nil after an error or a panic)
func (c *c12Ctx) recoverKey(msg []byte, v uint, r, s *big.Int, tag string) signature.PublicKey {
	p := c.in.newPub()
	// a key object that already holds a point: a failed recovery must leave it unchanged
	if len(c.keys) > 0 {
		c12A(p).Set(c12A(c.keys[0].pub))
	}
	m := append([]byte{}, msg...)
	r0, s0 := new(big.Int).Set(r), new(big.Int).Set(s)
	ev := Ev{"op": "RecoverFrom", "msg": bytesToInts(msg), "v": int(v), "r": digits(r), "s": digits(s), "Abefore": c.ptRaw(p), "tag": tag}
	var out []reflect.Value
	pm, pk := c12Do(func() {
		out = method(reflect.ValueOf(p), "RecoverFrom").Call([]reflect.Value{reflect.ValueOf(m), reflect.ValueOf(v), reflect.ValueOf(r0), reflect.ValueOf(s0)})
	})
	var err error
	if !pk && !out[0].IsNil() {
		err = out[0].Interface().(error)
	}
	c12Err(ev, err, pm, pk)
	if !pk {
		ev["A"] = c.ptRaw(p)
		ev["msgafter"] = bytesToInts(m)
		if r0.Sign() >= 0 && s0.Sign() >= 0 {
			ev["rafter"], ev["safter"] = digits(r0), digits(s0)
		}
	}
	c.t.Emit(ev)
	if pk || err != nil {
		return nil
	}
	return p
}

func (c *c12Ctx) partEcLattice(thorough bool) {
	nb, n := c.in.nb, c.in.order
	k := c.genKey()
	k2 := c.genKey()
	one := big.NewInt(1)
	top := new(big.Int).Lsh(one, uint(8*nb))
	be := func(v *big.Int) []byte { return c.elemBytesN(v, nb) }
	for _, hk := range []string{"sha256", "nil", "mimc"} {
		var msg []byte
		switch hk {
		case "mimc":
			msg = c.mimcMsg(2)
		case "nil":
			msg = c.r.Bytes(nb)
		default:
			msg = c.r.Bytes(77)
		}
		sig := c.sign(k, msg, hk, false)
		if sig == nil {
			continue
		}
		R, S := new(big.Int).SetBytes(sig[:nb]), new(big.Int).SetBytes(sig[nb:])
		try := func(tag string, s []byte) {
			c.verify(k.pub, s, msg, hk, false, tag)
			c.sigSetBytes(s, tag)
		}
		vals := []*big.Int{new(big.Int), one, new(big.Int).Sub(n, one), n, new(big.Int).Add(n, one), new(big.Int).Sub(top, one),
			new(big.Int).Lsh(one, uint(8*nb-1))}
		for i, v := range vals {
			try(fmt.Sprintf("r%d", i), append(be(v), sig[nb:]...))
			try(fmt.Sprintf("s%d", i), append(append([]byte{}, sig[:nb]...), be(v)...))
		}
		try("r+n", append(be(new(big.Int).Add(R, n)), sig[nb:]...))
		try("s+n", append(append([]byte{}, sig[:nb]...), be(new(big.Int).Add(S, n))...))
		try("n-s", append(append([]byte{}, sig[:nb]...), be(new(big.Int).Sub(n, S))...)) // the other solution of the equation
		try("n-r", append(be(new(big.Int).Sub(n, R)), sig[nb:]...))
		try("n-r,n-s", append(be(new(big.Int).Sub(n, R)), be(new(big.Int).Sub(n, S))...))
		try("swapped", append(append([]byte{}, sig[nb:]...), sig[:nb]...))
		try("r,r", append(append([]byte{}, sig[:nb]...), sig[:nb]...))
		try("short", sig[:len(sig)-1])
		try("long", append(append([]byte{}, sig...), 0))
		try("empty", []byte{})
		try("zero", make([]byte, 2*nb))
		try("ones", bytes.Repeat([]byte{0xff}, 2*nb))
		c.verify(k2.pub, sig, msg, hk, false, "otherkey")
		// the generator and its negative as keys
		for i, sc := range []*big.Int{one, new(big.Int).Sub(n, one), big.NewInt(2)} {
			if kk := c.privFromScalar(sc); kk != nil {
				if sg := c.sign(kk, msg, hk, false); sg != nil {
					c.verify(kk.pub, sg, msg, hk, false, fmt.Sprintf("smallkey%d", i))
					c.verify(k.pub, sg, msg, hk, false, fmt.Sprintf("smallkey%d-wrongkey", i))
				}
			}
		}
	}
	// raw public keys (secp256k1): coordinates off the curve, >= p, zero
	if c.in.raw {
		p := c.F().Q
		x, y := c.ptVal(k.pub)
		fb := c.in.fb
		enc2 := func(a, b *big.Int) []byte { return append(c.elemBytesN(a, fb), c.elemBytesN(b, fb)...) }
		for i, xy := range [][2]*big.Int{{x, y}, {x, new(big.Int).Sub(p, y)}, {x, new(big.Int).Add(y, one)}, {new(big.Int).Add(x, p), y}, {x, new(big.Int).Add(y, p)},
			{new(big.Int), new(big.Int)}, {p, p}, {y, x}, {new(big.Int).Sub(top, one), new(big.Int).Sub(top, one)}} {
			if xy[0].Cmp(top) >= 0 || xy[1].Cmp(top) >= 0 {
				continue
			}
			c.pubSetBytes(enc2(xy[0], xy[1]), fmt.Sprintf("rawpub%d", i))
		}
	}
}

// privFromScalar builds the key pair of a chosen scalar through PrivateKey.SetBytes (public part computed by the library)
func (c *c12Ctx) privFromScalar(sc *big.Int) *c12Key {
	gr := curves[c.in.name].Group("G1")
	P := gr.MulGen(sc)
	p := c.in.newPub()
	c12A(p).Set(P.Elem())
	pb := c.pubBytes(p)
	return c.privSetBytes(append(append([]byte{}, pb...), c.elemBytesN(sc, c.in.nb)...), "chosen-scalar")
}

func (c *c12Ctx) partEcRecover(thorough bool) {
	if !c.in.recover {
		return
	}
	k := c.genKey()
	n := c.in.order
	reps := 6
	if thorough {
		reps = 60
	}
	for i := 0; i < reps; i++ {
		hk := []string{"nil", "sha256", "nil", "mimc"}[i%4]
		var msg []byte
		switch hk {
		case "mimc":
			msg = c.mimcMsg(1 + i%3)
		case "nil":
			msg = c.r.Bytes(c.in.nb - i%3)
		default:
			msg = c.r.Bytes(10 * i)
		}
		v, r, s, dg, ok := c.signForRecover(k, msg, hk)
		if !ok {
			continue
		}
		c.recoverFrom(dg, v, r, s, "honest")
		sig := append(c.elemBytesN(r, c.in.nb), c.elemBytesN(s, c.in.nb)...)
		c.verify(k.pub, sig, msg, hk, false, "honest-recoverable")
		if i%3 == 0 {
			c.recoverFrom(dg, v^1, r, s, "otherparity")
			c.recoverFrom(dg, v^2, r, s, "otherx")
			c.recoverFrom(dg, v|4, r, s, "highbits")
			if len(dg) > 0 {
				c.recoverFrom(c12Flip(dg, 8*len(dg)-1), v, r, s, "othermsg")
			}
			c.recoverFrom(dg, v, r, new(big.Int).Sub(n, s), "n-s")
			c.recoverFrom(dg, v, new(big.Int), s, "r0")
			c.recoverFrom(dg, v, n, s, "rn")
			c.recoverFrom(dg, v, r, new(big.Int), "s0")
			c.recoverFrom(dg, v, r, n, "sn")
			c.recoverFrom(dg, v, c.r.Below(n), s, "randomr")
		}
	}
}

// partEcOverflowX: signatures whose nonce point has an abscissa in [n, p) (r = x - n is small): reachable through
// RecoverFrom with the overflow bit of v. The recovered key must verify (r, s) - x mod n = r is what the equation compares.
func (c *c12Ctx) partEcOverflowX(thorough bool) {
	if !c.in.recover {
		return
	}
	n := c.in.order
	tries := 24
	if thorough {
		tries = 200
	}
	for j := 1; j <= tries; j++ {
		r := big.NewInt(int64(j))
		dg := c.r.Bytes(c.in.nb)
		s := c.r.Below(n)
		if s.Sign() == 0 {
			s.SetInt64(1)
		}
		for _, v := range []uint{2, 3} {
			if q := c.recoverKey(dg, v, r, s, "overflow-x"); q != nil {
				sig := append(c.elemBytesN(r, c.in.nb), c.elemBytesN(s, c.in.nb)...)
				c.verify(q, sig, dg, "nil", false, "overflow-x")
			}
		}
	}
}

func (c *c12Ctx) partEcRandom(nev int) {
	nb, n := c.in.nb, c.in.order
	k := c.genKey()
	for i := 0; i < nev; i++ {
		hk := []string{"sha256", "mimc", "nil"}[c.r.Intn(3)]
		var msg []byte
		switch hk {
		case "mimc":
			msg = c.mimcMsg(c.r.Intn(4))
		case "nil":
			msg = c.r.Bytes(c.r.Intn(nb + 12))
		default:
			msg = c.r.Bytes(c.r.Intn(150))
		}
		switch c.r.Intn(5) {
		case 0:
			if sig := c.sign(k, msg, hk, c.r.Intn(3) == 0); sig != nil {
				c.verify(k.pub, sig, msg, hk, c.r.Intn(3) == 0, "honest")
			}
		case 1:
			s := c.r.Bytes(2 * nb)
			c.verify(k.pub, s, msg, hk, false, "random")
			c.sigSetBytes(s, "random")
		case 2:
			s := append(c.elemBytesN(c.r.Below(n), nb), c.elemBytesN(c.r.Below(n), nb)...)
			c.verify(k.pub, s, msg, hk, false, "random-inrange")
		case 3:
			if sig := c.sign(k, msg, hk, false); sig != nil {
				c.verify(k.pub, c12Flip(sig, c.r.Intn(8*len(sig))), msg, hk, false, "sigbit")
			}
		case 4: // the malleable twin
			if sig := c.sign(k, msg, hk, false); sig != nil {
				s := new(big.Int).SetBytes(sig[nb:])
				c.verify(k.pub, append(append([]byte{}, sig[:nb]...), c.elemBytesN(s.Sub(n, s), nb)...), msg, hk, false, "n-s")
			}
		}
	}
}

// ---------------------------------------------------------------------------------------

func runC12(args []string) {
	fs := flag.NewFlagSet("c12", flag.ExitOnError)
	out := fs.String("out", ".", "output directory")
	seed := fs.Uint64("seed", 1, "seed")
	tier := fs.String("tier", "quick", "quick|thorough")
	only := fs.String("only", "", "restrict to instances whose scheme_name contains this string")
	fs.Parse(args)
	c12Once.Do(func() { c12Register(); c12SetVia() })
	thorough := *tier == "thorough"
	files, events := 0, 0
	var insts []*c12Inst
	for _, in := range c12Insts {
		insts = append(insts, in)
		if in.scheme == "eddsa" && in.impl != in.name {
			// the package does not work on the curve it is published for: it is judged against the declared curve
			// (reduced run) and, as a second instance, against the curve it really uses
			cp := *in
			cp.pkg, cp.name = in.name, in.impl
			insts = append(insts, &cp)
		}
	}
	for ii, in := range insts {
		id := in.scheme + "_" + in.name
		if in.pkg != "" {
			id = in.scheme + "_" + in.pkg + "-as-" + in.name
		}
		if *only != "" && !strings.Contains(id, *only) {
			continue
		}
		// three self-contained trace files per instance (one TLC run each): histories continue across the parts of a file
		groups := [][]string{{"honest", "codec"}, {"lattice"}, {"mut", "rand", "recover"}}
		if thorough { // long parts: one file each, so that the TLC runs spread over the cores
			groups = [][]string{{"honest"}, {"codec"}, {"lattice"}, {"mut"}, {"rand"}, {"recover"}}
		}
		if in.scheme == "eddsa" && in.impl != in.name {
			groups = [][]string{{"honest"}}
		}
		for gi, parts := range groups {
			if len(parts) == 1 && parts[0] == "recover" && !(in.scheme == "ecdsa" && in.recover) {
				continue
			}
			c := &c12Ctx{in: in, r: newRng(*seed*1000003 + uint64(ii)*7919 + uint64(gi)*104729)}
			hdr := Ev{"property": "C12", "scheme": in.scheme, "curve": in.name, "part": strings.Join(parts, "+"), "nb": in.nb, "fb": in.fb, "pkb": in.pkb,
				"privb": in.privb, "raw": in.raw, "mimcbs": in.mimcBS, "seed": int(*seed % (1 << 30)), "tier": *tier}
			if in.pkg != "" {
				hdr["pkg"] = in.pkg
			}
			if in.scheme == "eddsa" {
				hdr["impl"] = in.impl
			}
			c.t = newTrace(*out, fmt.Sprintf("c12_%s_%s", id, strings.Join(parts, "-")), hdr)
			for _, part := range parts {
				c.keys = nil // every part works with its own keys (the specification keeps all of them)
				switch part {
				case "honest":
					c.partHonest(thorough && (in.scheme == "ecdsa" || in.impl == in.name))
				case "lattice":
					if in.scheme == "eddsa" {
						c.partEdLattice(thorough)
					} else {
						c.partEcLattice(thorough)
					}
				case "mut":
					c.partMut(thorough)
				case "codec":
					c.partCodec(thorough)
				case "rand":
					n := 30
					if thorough {
						n = 400
					}
					if in.scheme == "eddsa" {
						c.partEdRandom(n)
					} else {
						c.partEcRandom(n)
					}
				case "recover":
					c.partEcRecover(thorough)
					c.partEcOverflowX(thorough)
				}
			}
			events += c.t.Close()
			files++
		}
	}
	fmt.Printf("c12: %d trace files, %d events, %d instances\n", files, events, len(insts))
}

func init() { register("c12", runC12) }
