package main

// C02 driver: group-law operations in every coordinate system. Each event carries the raw
// coordinates of the operands before the call, after the call, and of the result.

import (
	"flag"
	"fmt"
	"math/big"
	"reflect"
	"strings"
)

func init() { register("c02", runC02) }

// pointOp describes one method. kinds: "aff", "jac", "ext".
type pointOp struct {
	name     string   // method name
	recv     string   // receiver kind
	args     []string // argument kinds
	recvIsOp bool     // the receiver's previous value is the first operand
	pred     bool     // returns bool
}

var weierstrassOps = []pointOp{
	{"Add", "aff", []string{"aff", "aff"}, false, false},
	{"Sub", "aff", []string{"aff", "aff"}, false, false},
	{"Double", "aff", []string{"aff"}, false, false},
	{"Neg", "aff", []string{"aff"}, false, false},
	{"Set", "aff", []string{"aff"}, false, false},
	{"FromJacobian", "aff", []string{"jac"}, false, false},
	{"Equal", "aff", []string{"aff"}, true, true},
	{"Set", "jac", []string{"jac"}, false, false},
	{"Equal", "jac", []string{"jac"}, true, true},
	{"Neg", "jac", []string{"jac"}, false, false},
	{"AddAssign", "jac", []string{"jac"}, true, false},
	{"SubAssign", "jac", []string{"jac"}, true, false},
	{"DoubleMixed", "jac", []string{"aff"}, false, false},
	{"AddMixed", "jac", []string{"aff"}, true, false},
	{"Double", "jac", []string{"jac"}, false, false},
	{"DoubleAssign", "jac", nil, true, false},
	{"FromAffine", "jac", []string{"aff"}, false, false},
	{"add", "ext", []string{"ext"}, true, false},
	{"double", "ext", []string{"ext"}, false, false},
	{"addMixed", "ext", []string{"aff"}, true, false},
	{"subMixed", "ext", []string{"aff"}, true, false},
	{"doubleNegMixed", "ext", []string{"aff"}, false, false},
	{"doubleMixed", "ext", []string{"aff"}, false, false},
	{"fromJacExtended", "jac", []string{"ext"}, false, false},
	{"fromJacExtended", "aff", []string{"ext"}, false, false},
}

var weierstrassPreds = []pointOp{
	{"IsInfinity", "aff", nil, true, true},
	{"IsOnCurve", "aff", nil, true, true},
	{"IsOnCurve", "jac", nil, true, true},
	{"IsInfinity", "ext", nil, true, true},
}

// testPoint: one abstract point in its three representations.
type testPoint struct {
	label string
	aff   reflect.Value
	jac   []reflect.Value // several representatives (Z = 1, rescaled)
	ext   []reflect.Value
}

func (tp *testPoint) rep(kind string, r *Rng) reflect.Value {
	switch kind {
	case "aff":
		return clonePtr(tp.aff)
	case "jac":
		return clonePtr(tp.jac[r.Intn(len(tp.jac))])
	default:
		return clonePtr(tp.ext[r.Intn(len(tp.ext))])
	}
}

func (g *Group) typeName(kind string) string {
	switch kind {
	case "aff":
		return g.G + "Affine"
	case "jac":
		return g.G + "Jac"
	}
	return g.lower + "JacExtended"
}

func (g *Group) newKind(kind string) reflect.Value {
	switch kind {
	case "aff":
		return g.NewAff()
	case "jac":
		return g.NewJac()
	}
	return g.NewExt()
}

func (g *Group) mkTestPoint(label string, aff reflect.Value, r *Rng) *testPoint {
	tp := &testPoint{label: label, aff: aff}
	j := g.ToJac(aff)
	tp.jac = append(tp.jac, j)
	isInf := method(aff, "IsInfinity").Call(nil)[0].Bool()
	for i := 0; i < 2; i++ {
		lam := g.RandCoord(r)
		tp.jac = append(tp.jac, g.RescaleJac(j, lam))
	}
	if isInf {
		// the zero value (0, 0, 0) is another encoding of the point at infinity (what `var p G1Jac` holds and what some
		// routines return), besides (1, 1, 0) and its rescalings
		tp.jac = append(tp.jac, g.NewJac())
	}
	if g.ExtT != nil {
		e := g.ToExt(aff)
		tp.ext = append(tp.ext, e)
		if !isInf {
			for i := 0; i < 2; i++ {
				tp.ext = append(tp.ext, g.RescaleExt(e, g.RandCoord(r)))
			}
		}
	}
	return tp
}

// invoke calls an exported method by reflection or an unexported one through the shim.
func (g *Group) invoke(recvKind, name string, recv reflect.Value, args []reflect.Value) ([]reflect.Value, string, bool) {
	m := recv.MethodByName(name)
	if m.IsValid() {
		return call(m, args...)
	}
	sh := g.C.shim(g.typeName(recvKind) + "." + name)
	if !sh.IsValid() {
		return nil, "", false
	}
	return call(sh, append([]reflect.Value{recv}, args...)...)
}

func (g *Group) hasOp(op pointOp) bool {
	if op.recv == "ext" || (len(op.args) > 0 && op.args[0] == "ext") {
		if g.ExtT == nil {
			return false
		}
	}
	rv := g.newKind(op.recv)
	if rv.MethodByName(op.name).IsValid() {
		return true
	}
	return g.C.shim(g.typeName(op.recv) + "." + op.name).IsValid()
}

func tagged(kind string, v reflect.Value) map[string]any {
	return map[string]any{"t": kind, "v": enc(v)}
}

// runOp executes op on the operand test points and logs the event.
func (g *Group) runOp(t *TraceWriter, op pointOp, operands []*testPoint, r *Rng, garbage *testPoint) {
	var opVals []reflect.Value
	var kinds []string
	if op.recvIsOp {
		kinds = append([]string{op.recv}, op.args...)
	} else {
		kinds = op.args
	}
	for i, k := range kinds {
		opVals = append(opVals, operands[i].rep(k, r))
	}
	var recv reflect.Value
	var args []reflect.Value
	if op.recvIsOp {
		recv = opVals[0]
		args = opVals[1:]
	} else {
		recv = garbage.rep(op.recv, r) // a destination holding an unrelated valid point
		args = opVals
	}
	before := make([]any, len(opVals))
	labels := make([]string, len(opVals))
	for i := range opVals {
		before[i] = tagged(kinds[i], opVals[i])
		labels[i] = operands[i].label
	}
	e := Ev{"op": op.name, "g": g.G, "rk": op.recv, "args": before, "labels": labels}
	out, pm, pk := g.invoke(op.recv, op.name, recv, args)
	if pk {
		e["panic"] = pm
	} else if op.pred {
		e["ret"] = out[0].Bool()
	} else {
		e["out"] = tagged(op.recv, recv)
	}
	if !pk {
		// non-receiver operands must be unchanged
		var after []any
		start := 0
		if op.recvIsOp {
			start = 1
		}
		for i := start; i < len(opVals); i++ {
			after = append(after, tagged(kinds[i], opVals[i]))
		}
		if after == nil {
			after = []any{}
		}
		e["after"] = after
	}
	t.Emit(e)
}

func (g *Group) pool(r *Rng, nRandom int) []*testPoint {
	var pts []*testPoint
	inf := g.NewAff()
	pts = append(pts, g.mkTestPoint("O", inf, r))
	neg := func(a reflect.Value) reflect.Value {
		n := g.NewAff()
		method(n, "Neg").Call([]reflect.Value{a})
		return n
	}
	G1 := g.MulGen(big.NewInt(1))
	G2 := g.MulGen(big.NewInt(2))
	G3 := g.MulGen(big.NewInt(3))
	pts = append(pts, g.mkTestPoint("G", G1, r), g.mkTestPoint("-G", neg(G1), r), g.mkTestPoint("2G", G2, r),
		g.mkTestPoint("-2G", neg(G2), r), g.mkTestPoint("3G", G3, r))
	for i := 0; i < nRandom; i++ {
		pts = append(pts, g.mkTestPoint("kG", g.MulGen(r.Below(g.C.Fr.Q)), r))
	}
	// the points with x = 0 (when b is a square): of order 3 on j = 0 curves, a classical blind spot of
	// endomorphism-based subgroup tests
	zero := reflect.New(g.CoordT)
	if rhs := g.curveRHS(zero); method(rhs, "Legendre").Call(nil)[0].Int() == 1 {
		y := reflect.New(g.CoordT)
		method(y, "Sqrt").Call([]reflect.Value{rhs})
		X0 := g.NewAff()
		X0.Elem().Field(1).Set(y.Elem())
		pts = append(pts, g.mkTestPoint("X0", X0, r))
	}
	// a point of the curve that is (in general) outside the r-torsion on cofactor curves
	N := g.RandOnCurve(r)
	pts = append(pts, g.mkTestPoint("N", N, r), g.mkTestPoint("-N", neg(N), r))
	return pts
}

func (g *Group) subgroupChecks(t *TraceWriter, pts []*testPoint, r *Rng, n int) {
	// IsInSubGroup on subgroup points, curve points outside the subgroup, and off-curve points
	cnt := 0
	for _, tp := range pts {
		if cnt >= n {
			break
		}
		for _, k := range []string{"aff", "jac"} {
			p := tp.rep(k, r)
			e := Ev{"op": "IsInSubGroup", "g": g.G, "rk": k, "args": []any{tagged(k, p)}, "labels": []string{tp.label}}
			out, pm, pk := g.invoke(k, "IsInSubGroup", p, nil)
			if pk {
				e["panic"] = pm
			} else {
				e["ret"] = out[0].Bool()
			}
			t.Emit(e)
			cnt++
		}
	}
	// off-curve: a valid representative with ONE coordinate doubled or incremented (structured: such triples satisfy many of
	// the identities a membership test relies on - e.g. a Z rescaled by a base-field scalar commutes with the endomorphisms -
	// and only the curve equation tells them apart), affine and Jacobian
	for pi, tp := range pts {
		if pi == 0 || pi > 6 {
			continue // pts[0] is the point at infinity
		}
		for _, k := range []string{"aff", "jac"} {
			base := tp.rep(k, r)
			for fi := 0; fi < base.Elem().NumField(); fi++ {
				for _, how := range []string{"Double", "AddOne"} {
					if how == "AddOne" && (pi+fi)%2 == 1 {
						continue
					}
					p := clonePtr(base)
					c := p.Elem().Field(fi).Addr()
					if how == "Double" {
						method(c, "Double").Call([]reflect.Value{c})
					} else {
						one := reflect.New(c.Elem().Type())
						method(one, "SetOne").Call(nil)
						method(c, "Add").Call([]reflect.Value{c, one})
					}
					for _, name := range []string{"IsOnCurve", "IsInSubGroup"} {
						if !p.MethodByName(name).IsValid() {
							continue
						}
						e := Ev{"op": name, "g": g.G, "rk": k, "args": []any{tagged(k, p)}, "labels": []string{"off:" + tp.label}}
						out, pm, pk := g.invoke(k, name, clonePtr(p), nil)
						if pk {
							e["panic"] = pm
						} else {
							e["ret"] = out[0].Bool()
						}
						t.Emit(e)
					}
				}
			}
		}
	}
	// off-curve: random coordinates
	for i := 0; i < 2; i++ {
		p := g.NewAff()
		p.Elem().Field(0).Set(g.RandCoord(r).Elem())
		p.Elem().Field(1).Set(g.RandCoord(r).Elem())
		for _, name := range []string{"IsOnCurve", "IsInSubGroup"} {
			e := Ev{"op": name, "g": g.G, "rk": "aff", "args": []any{tagged("aff", p)}, "labels": []string{"off"}}
			out, pm, pk := g.invoke("aff", name, clonePtr(p), nil)
			if pk {
				e["panic"] = pm
			} else {
				e["ret"] = out[0].Bool()
			}
			t.Emit(e)
		}
	}
}

func (g *Group) batchToAffine(t *TraceWriter, pts []*testPoint, r *Rng) {
	fn, ok := g.C.Funcs["BatchJacobianToAffine"+g.G]
	if !ok {
		return
	}
	// pts[0] is the point at infinity: patterns put it first, in the middle, last, twice, everywhere
	patterns := [][]int{{}, {1}, {0}, {1, 2}, {0, 1, 2}, {1, 0, 2}, {1, 2, 0}, {3, 0, 4, 0, 5}, {0, 0}, {1, 0, 0, 2}, {0, 3, 0}}
	all := []int{}
	for i := range pts {
		all = append(all, (i*3+1)%len(pts))
	}
	patterns = append(patterns, all)
	long := make([]int, 45) // more points than CPUs: the parallel phases work on chunks of several points
	for i := range long {
		long[i] = (i*i + i/4) % len(pts)
	}
	patterns = append(patterns, long)
	for _, pat := range patterns {
		n := len(pat)
		sl := reflect.MakeSlice(reflect.SliceOf(g.JacT), n, n)
		var before []any
		for i := 0; i < n; i++ {
			p := pts[pat[i]%len(pts)].rep("jac", r)
			sl.Index(i).Set(p.Elem())
			before = append(before, tagged("jac", p))
		}
		if before == nil {
			before = []any{}
		}
		e := Ev{"op": "BatchJacobianToAffine", "g": g.G, "args": before}
		out, pm, pk := call(fn, sl)
		if pk {
			e["panic"] = pm
		} else {
			var res []any
			for i := 0; i < out[0].Len(); i++ {
				res = append(res, tagged("aff", out[0].Index(i).Addr()))
			}
			if res == nil {
				res = []any{}
			}
			e["outs"] = res
		}
		t.Emit(e)
	}
}

func runC02(args []string) {
	fs := flag.NewFlagSet("c02", flag.ExitOnError)
	out := fs.String("out", ".", "output directory")
	seed := fs.Uint64("seed", 1, "seed")
	tier := fs.String("tier", "quick", "quick|thorough")
	only := fs.String("curves", "", "comma separated curve names (default all)")
	fs.Parse(args)
	names := curveNames
	if *only != "" {
		names = strings.Split(*only, ",")
	}
	nRandom, nSub, reps := 1, 24, 1
	if *tier == "thorough" {
		nRandom, nSub, reps = 4, 40, 6
	}
	total := 0
	for _, name := range names {
		c := curves[name]
		for _, gn := range []string{"G1", "G2"} {
			g := c.Group(gn)
			if g == nil {
				continue
			}
			r := newRng(*seed*7919 + uint64(len(name))*131 + uint64(gn[1]))
			t := newTrace(*out, "c02_"+name+"_"+gn, Ev{"property": "C02", "curve": name, "g": gn, "seed": int(*seed % (1 << 30))})
			pts := g.pool(r, nRandom)
			garbage := pts[len(pts)-3]
			for rep := 0; rep < reps; rep++ {
				for _, op := range weierstrassOps {
					if !g.hasOp(op) {
						continue
					}
					nOperands := len(op.args)
					if op.recvIsOp {
						nOperands++
					}
					if nOperands == 1 {
						for _, p := range pts {
							g.runOp(t, op, []*testPoint{p}, r, garbage)
						}
					} else {
						for _, p := range pts {
							for _, q := range pts {
								g.runOp(t, op, []*testPoint{p, q}, r, garbage)
							}
						}
					}
				}
				for _, op := range weierstrassPreds {
					if !g.hasOp(op) {
						continue
					}
					for _, p := range pts {
						g.runOp(t, op, []*testPoint{p}, r, garbage)
					}
				}
			}
			g.subgroupChecks(t, pts, r, nSub)
			g.batchToAffine(t, pts, r)
			total += t.Close()
		}
	}
	if *only == "" {
		total += runC02Edwards(*out, *seed, *tier)
	}
	fmt.Printf("c02: %d events\n", total)
}
