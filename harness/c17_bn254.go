package main

// C17 driver for the seven curve-based proof systems, typed on bn254. The drivers of the other pairing
// curves (c17_gen_<curve>.go) are generated from this file by tools/c17gen.py (text substitution of the
// curve name): edit this file only.  See c17.go for the event schema.

import (
	"crypto/sha256"
	"fmt"
	"math/big"
	"reflect"
	"sort"

	"github.com/consensys/gnark-crypto/accumulator/merkletree"
	curve "github.com/consensys/gnark-crypto/ecc/bn254"
	"github.com/consensys/gnark-crypto/ecc/bn254/fflonk"
	"github.com/consensys/gnark-crypto/ecc/bn254/fr"
	"github.com/consensys/gnark-crypto/ecc/bn254/fr/fft"
	"github.com/consensys/gnark-crypto/ecc/bn254/fr/fri"
	"github.com/consensys/gnark-crypto/ecc/bn254/fr/pedersen"
	"github.com/consensys/gnark-crypto/ecc/bn254/fr/permutation"
	"github.com/consensys/gnark-crypto/ecc/bn254/fr/plookup"
	"github.com/consensys/gnark-crypto/ecc/bn254/kzg"
	"github.com/consensys/gnark-crypto/ecc/bn254/mpcsetup"
	"github.com/consensys/gnark-crypto/ecc/bn254/shplonk"
	fiatshamir "github.com/consensys/gnark-crypto/fiat-shamir"
)

func init() { c17Curves["bn254"] = func(cfg *c17Cfg) { (&c17d_bn254{cfg: cfg, name: "bn254"}).run() } }

type c17d_bn254 struct {
	cfg   *c17Cfg
	name  string
	r     *Rng
	q     *big.Int // order of the scalar field
	srs   *kzg.SRS
	srs2  *kzg.SRS // another trapdoor: the source of "other" verifying keys
	alpha *big.Int
	g1    curve.G1Affine
	g2    curve.G2Affine
}

func (d *c17d_bn254) run() {
	d.q = fr.Modulus()
	d.r = newRng(d.cfg.seed*104729 + uint64(len(d.name))*131 + uint64(d.name[len(d.name)-1]))
	_, _, d.g1, d.g2 = curve.Generators()
	d.alpha = d.r.Below(d.q)
	var err error
	if d.srs, err = kzg.NewSRS(160, d.alpha); err != nil {
		fatal("c17: srs: %v", err)
	}
	if d.srs2, err = kzg.NewSRS(8, d.r.Below(d.q)); err != nil {
		fatal("c17: srs: %v", err)
	}
	if d.cfg.want("shplonk") {
		d.shplonkFamily()
	}
	if d.cfg.want("permutation") {
		d.permutationFamily()
	}
	if d.cfg.want("plookup") {
		d.plookupFamily()
	}
	if d.cfg.want("fri") {
		d.friFamily()
	}
	if d.cfg.want("pedersen") {
		d.pedersenFamily()
	}
	if d.cfg.want("mpcsetup") {
		d.mpcFamily()
	}
}

// ---------------------------------------------------------------------------------------
// scalars, points, raw encodings

func (d *c17d_bn254) rnd() (e fr.Element) {
	e.SetBigInt(d.r.Below(d.q))
	return
}
func (d *c17d_bn254) rndVec(n int) []fr.Element {
	v := make([]fr.Element, n)
	for i := range v {
		v[i] = d.rnd()
	}
	return v
}
func (d *c17d_bn254) raw(e fr.Element) []int { return digits(rawOfElem(reflect.ValueOf(e))) }
func (d *c17d_bn254) raws(v []fr.Element) [][]int {
	out := make([][]int, len(v))
	for i := range v {
		out[i] = d.raw(v[i])
	}
	return out
}
func (d *c17d_bn254) raws2(v [][]fr.Element) [][][]int {
	out := make([][][]int, len(v))
	for i := range v {
		out[i] = d.raws(v[i])
	}
	return out
}
func (d *c17d_bn254) big(e fr.Element) *big.Int { return e.BigInt(new(big.Int)) }
func (d *c17d_bn254) mulG1(k *big.Int) (p curve.G1Affine) {
	p.ScalarMultiplication(&d.g1, k)
	return
}
func (d *c17d_bn254) mulG2(k *big.Int) (p curve.G2Affine) {
	p.ScalarMultiplication(&d.g2, k)
	return
}

func (d *c17d_bn254) subFr() func(dst, other *fr.Element, kind string) bool {
	return func(dst, other *fr.Element, kind string) bool {
		switch kind {
		case "random":
			*dst = d.rnd()
		case "zero":
			dst.SetZero()
		case "other":
			*dst = *other
		case "shift":
			var one fr.Element
			one.SetOne()
			dst.Add(dst, &one)
		}
		return true
	}
}
func (d *c17d_bn254) subG1() func(dst, other *curve.G1Affine, kind string) bool {
	return func(dst, other *curve.G1Affine, kind string) bool {
		switch kind {
		case "random":
			*dst = d.mulG1(d.r.Below(d.q))
		case "zero":
			*dst = curve.G1Affine{}
		case "other":
			*dst = *other
		case "shift":
			dst.Add(dst, &d.g1)
		}
		return true
	}
}
func (d *c17d_bn254) subG2() func(dst, other *curve.G2Affine, kind string) bool {
	return func(dst, other *curve.G2Affine, kind string) bool {
		switch kind {
		case "random":
			*dst = d.mulG2(d.r.Below(d.q))
		case "zero":
			*dst = curve.G2Affine{}
		case "other":
			*dst = *other
		case "shift":
			dst.Add(dst, &d.g2)
		}
		return true
	}
}

// ---------------------------------------------------------------------------------------
// polynomials over fr (coefficient form, low degree first) - input construction only

func (d *c17d_bn254) pEval(f []fr.Element, x fr.Element) (y fr.Element) {
	for i := len(f) - 1; i >= 0; i-- {
		y.Mul(&y, &x).Add(&y, &f[i])
	}
	return
}
func (d *c17d_bn254) pAdd(a, b []fr.Element) []fr.Element {
	n := len(a)
	if len(b) > n {
		n = len(b)
	}
	out := make([]fr.Element, n)
	copy(out, a)
	for i := range b {
		out[i].Add(&out[i], &b[i])
	}
	return out
}
func (d *c17d_bn254) pScale(a []fr.Element, c fr.Element) []fr.Element {
	out := make([]fr.Element, len(a))
	for i := range a {
		out[i].Mul(&a[i], &c)
	}
	return out
}
func (d *c17d_bn254) pSub(a, b []fr.Element) []fr.Element {
	var m fr.Element
	m.SetOne().Neg(&m)
	return d.pAdd(a, d.pScale(b, m))
}
func (d *c17d_bn254) pMul(a, b []fr.Element) []fr.Element {
	if len(a) == 0 || len(b) == 0 {
		return nil
	}
	out := make([]fr.Element, len(a)+len(b)-1)
	var t fr.Element
	for i := range a {
		for j := range b {
			t.Mul(&a[i], &b[j])
			out[i+j].Add(&out[i+j], &t)
		}
	}
	return out
}
func (d *c17d_bn254) pTrim(a []fr.Element) []fr.Element {
	for len(a) > 0 && a[len(a)-1].IsZero() {
		a = a[:len(a)-1]
	}
	return a
}

// pDivMod: a = q*b + r, b != 0
func (d *c17d_bn254) pDivMod(a, b []fr.Element) (q, r []fr.Element) {
	b = d.pTrim(b)
	r = append([]fr.Element{}, a...)
	if len(r) < len(b) {
		return nil, d.pTrim(r)
	}
	q = make([]fr.Element, len(r)-len(b)+1)
	var lcInv, c, t fr.Element
	lcInv.Inverse(&b[len(b)-1])
	for i := len(r) - 1; i >= len(b)-1; i-- {
		c.Mul(&r[i], &lcInv)
		q[i-len(b)+1] = c
		for j := range b {
			t.Mul(&c, &b[j])
			r[i-len(b)+1+j].Sub(&r[i-len(b)+1+j], &t)
		}
	}
	return q, d.pTrim(r)
}
func (d *c17d_bn254) pVanish(xs []fr.Element) []fr.Element {
	out := []fr.Element{fr.One()}
	for _, x := range xs {
		var nx fr.Element
		nx.Neg(&x)
		out = d.pMul(out, []fr.Element{nx, fr.One()})
	}
	return out
}

// pInterp: the polynomial of degree < len(xs) through (xs[i], ys[i]); xs pairwise distinct
func (d *c17d_bn254) pInterp(xs, ys []fr.Element) []fr.Element {
	out := make([]fr.Element, len(xs))
	for i := range xs {
		others := append(append([]fr.Element{}, xs[:i]...), xs[i+1:]...)
		li := d.pVanish(others)
		den := d.pEval(li, xs[i])
		den.Inverse(&den).Mul(&den, &ys[i])
		out = d.pAdd(out, d.pScale(li, den))
	}
	return out[:len(xs)]
}

// pCompose returns f(cX)
func (d *c17d_bn254) pScaleArg(f []fr.Element, c fr.Element) []fr.Element {
	out := make([]fr.Element, len(f))
	acc := fr.One()
	for i := range f {
		out[i].Mul(&f[i], &acc)
		acc.Mul(&acc, &c)
	}
	return out
}

func (d *c17d_bn254) commit(p []fr.Element) kzg.Digest {
	if len(p) == 0 {
		p = []fr.Element{{}}
	}
	c, err := kzg.Commit(p, d.srs.Pk)
	if err != nil {
		fatal("c17: commit(len %d): %v", len(p), err)
	}
	return c
}

// challenge as the library's deriveRandomness / deriveChallenge compute it: Bind then ComputeChallenge on a shared transcript
func (d *c17d_bn254) fsChallenge(fs *fiatshamir.Transcript, name string, binds ...[]byte) fr.Element {
	for _, b := range binds {
		if err := fs.Bind(name, b); err != nil {
			fatal("c17: bind %s: %v", name, err)
		}
	}
	b, err := fs.ComputeChallenge(name)
	if err != nil {
		fatal("c17: challenge %s: %v", name, err)
	}
	var c fr.Element
	c.SetBytes(b)
	return c
}
func (d *c17d_bn254) rawBytes(ps ...*curve.G1Affine) [][]byte {
	out := make([][]byte, len(ps))
	for i, p := range ps {
		b := p.RawBytes()
		out[i] = b[:]
	}
	return out
}

// ---------------------------------------------------------------------------------------
// SHPLONK and fflonk

type c17Shp_bn254 struct {
	proof   shplonk.OpeningProof
	digests []kzg.Digest
	points  [][]fr.Element
	data    [][]byte
	vk      kzg.VerifyingKey
	polys   [][]fr.Element // the committed polynomials (nil where a digest is not a commitment made here)
}

func (d *c17d_bn254) shpStatement(p *c17Shp_bn254) Ev {
	return Ev{"polys": d.raws2(p.polys), "points": d.raws2(p.points), "cv": d.raws2(p.proof.ClaimedValues)}
}

// shpForge is the SHPLONK prover run on arbitrary claimed values: exactly BatchOpen's algebra (same
// Fiat-Shamir transcript as the verifier), with the remainders of the two divisions dropped.
func (d *c17d_bn254) shpForge(polys [][]fr.Element, digests []kzg.Digest, points [][]fr.Element, cv [][]fr.Element, data [][]byte) (shplonk.OpeningProof, bool) {
	fs := fiatshamir.NewTranscript(sha256.New(), "gamma", "z")
	var binds [][]byte
	for i := range points {
		for j := range points[i] {
			binds = append(binds, points[i][j].Marshal())
		}
	}
	for i := range digests {
		binds = append(binds, digests[i].Marshal())
	}
	binds = append(binds, data...)
	gamma := d.fsChallenge(fs, "gamma", binds...)
	var flat []fr.Element
	for i := range points {
		flat = append(flat, points[i]...)
	}
	zt := d.pVanish(flat)
	zti := make([][]fr.Element, len(points))
	ri := make([][]fr.Element, len(points))
	var f []fr.Element
	acc := fr.One()
	for i := range points {
		var rest []fr.Element
		for j := range points {
			if j != i {
				rest = append(rest, points[j]...)
			}
		}
		zti[i] = d.pVanish(rest)
		ri[i] = d.pInterp(points[i], cv[i])
		f = d.pAdd(f, d.pScale(d.pMul(zti[i], d.pSub(polys[i], ri[i])), acc))
		acc.Mul(&acc, &gamma)
	}
	w, rem := d.pDivMod(f, zt)
	exact := len(rem) == 0
	W := d.commit(w)
	z := d.fsChallenge(fs, "z", W.Marshal())
	var l []fr.Element
	acc = fr.One()
	for i := range points {
		c := d.pEval(zti[i], z)
		c.Mul(&c, &acc)
		riz := d.pEval(ri[i], z)
		l = d.pAdd(l, d.pScale(d.pSub(polys[i], []fr.Element{riz}), c))
		acc.Mul(&acc, &gamma)
	}
	l = d.pSub(l, d.pScale(w, d.pEval(zt, z)))
	var nz fr.Element
	nz.Neg(&z)
	wp, rem2 := d.pDivMod(l, []fr.Element{nz, fr.One()})
	exact = exact && len(rem2) == 0
	cvc := make([][]fr.Element, len(cv))
	for i := range cv {
		cvc[i] = append([]fr.Element{}, cv[i]...)
	}
	return shplonk.OpeningProof{W: W, WPrime: d.commit(wp), ClaimedValues: cvc}, exact
}

// cancelCommon: polynomials i1 != i2 are both opened at the point a (positions j1, j2 of their sets).
// Returns claimed values that are wrong at exactly these two places and for which the folded
// numerator is still divisible by Z_T, given gamma (which does not depend on the claimed values).
func (d *c17d_bn254) shpCancel(polys [][]fr.Element, digests []kzg.Digest, points [][]fr.Element, cv [][]fr.Element, data [][]byte, i1, j1, i2, j2 int) [][]fr.Element {
	fs := fiatshamir.NewTranscript(sha256.New(), "gamma", "z")
	var binds [][]byte
	for i := range points {
		for j := range points[i] {
			binds = append(binds, points[i][j].Marshal())
		}
	}
	for i := range digests {
		binds = append(binds, digests[i].Marshal())
	}
	binds = append(binds, data...)
	gamma := d.fsChallenge(fs, "gamma", binds...)
	a := points[i1][j1]
	// Z'_k(a) = prod over the points of all sets but S_k, one occurrence of a removed, of (a - t);
	// the Lagrange basis of S_k at a is 1 at a, so changing the claimed value by e changes (f_k - r_k)(a) by -e
	zprime := func(k, jk int) fr.Element {
		acc := fr.One()
		removed := false
		for i := range points {
			if i == k {
				continue
			}
			for _, t := range points[i] {
				if !removed && t.Equal(&a) {
					removed = true
					continue
				}
				var df fr.Element
				df.Sub(&a, &t)
				acc.Mul(&acc, &df)
			}
		}
		return acc
	}
	z1, z2 := zprime(i1, j1), zprime(i2, j2)
	var g1, g2 fr.Element
	g1.Exp(gamma, big.NewInt(int64(i1)))
	g2.Exp(gamma, big.NewInt(int64(i2)))
	e2 := d.rnd()
	// gamma^i1 Z'_1(a) e1 + gamma^i2 Z'_2(a) e2 = 0
	var e1, den fr.Element
	e1.Mul(&g2, &z2).Mul(&e1, &e2).Neg(&e1)
	den.Mul(&g1, &z1)
	e1.Div(&e1, &den)
	out := make([][]fr.Element, len(cv))
	for i := range cv {
		out[i] = append([]fr.Element{}, cv[i]...)
	}
	out[i1][j1].Add(&out[i1][j1], &e1)
	out[i2][j2].Add(&out[i2][j2], &e2)
	return out
}

func (d *c17d_bn254) shplonkFamily() {
	tr := c17NewTrace(d.cfg, "shplonk", d.name, Ev{"fr": d.name + "/fr"})
	defer tr.close(d.cfg)
	cs := c17Case[c17Shp_bn254]{
		fn: "shplonk.BatchVerify",
		verify: func(p *c17Shp_bn254) error {
			return shplonk.BatchVerify(p.proof, p.digests, p.points, c17UsedHash(), p.vk, p.data...)
		},
		args:  func(p *c17Shp_bn254) []any { return []any{&p.proof, &p.digests, &p.points, &p.data, &p.vk} },
		extra: d.shpStatement,
	}
	type shape struct {
		sizes []int
		npts  []int
		data  int
	}
	shapes := []shape{
		{[]int{1}, []int{1}, 0},              // minimal: a constant opened at one point
		{[]int{5}, []int{2}, 1},              // non-power-of-two size
		{[]int{4, 7}, []int{1, 2}, 0},        // two polynomials
		{[]int{8, 3, 16}, []int{2, 1, 3}, 2}, // three polynomials, extra transcript data
		{[]int{2, 1}, []int{3, 2}, 0},        // more points than coefficients
	}
	if d.cfg.thorough() {
		for k := 0; k < 6; k++ {
			n := 1 + d.r.Intn(4)
			sh := shape{data: d.r.Intn(3)}
			for i := 0; i < n; i++ {
				sh.sizes = append(sh.sizes, 1+d.r.Intn(24))
				sh.npts = append(sh.npts, 1+d.r.Intn(4))
			}
			shapes = append(shapes, sh)
		}
	}
	mk := func(sh shape) *c17Shp_bn254 {
		c := &c17Shp_bn254{vk: d.srs.Vk}
		for i, n := range sh.sizes {
			c.polys = append(c.polys, d.rndVec(n))
			c.digests = append(c.digests, d.commit(c.polys[i]))
			c.points = append(c.points, d.rndVec(sh.npts[i]))
		}
		for i := 0; i < sh.data; i++ {
			c.data = append(c.data, d.r.Bytes(5+7*i))
		}
		return c
	}
	prove := func(c *c17Shp_bn254) bool {
		pr, err := shplonk.BatchOpen(c.polys, c.digests, c.points, c17UsedHash(), d.srs.Pk, c.data...)
		e := d.shpStatement(c)
		e["fn"] = "shplonk.BatchOpen"
		if err != nil {
			e["err"] = c17msg(err)
			tr.emit("Prove", e)
			return false
		}
		c.proof = pr
		e["cv"] = d.raws2(pr.ClaimedValues)
		tr.emit("Prove", e)
		return true
	}
	for _, sh := range shapes {
		tr.scenario("shplonk")
		a, b := mk(sh), mk(sh)
		if !prove(a) {
			continue
		}
		pb, err := shplonk.BatchOpen(b.polys, b.digests, b.points, c17UsedHash(), d.srs.Pk, b.data...)
		if err != nil {
			continue
		}
		b.proof = pb
		c17Honest(tr, cs, a)
		last := len(sh.sizes) - 1
		lp := sh.npts[last] - 1
		c17Subs(tr, cs, a, b, []c17Acc[c17Shp_bn254, curve.G1Affine]{
			{"W", nil, func(p *c17Shp_bn254) *curve.G1Affine { return &p.proof.W }},
			{"WPrime", nil, func(p *c17Shp_bn254) *curve.G1Affine { return &p.proof.WPrime }},
			{"digest", []int{0}, func(p *c17Shp_bn254) *curve.G1Affine { p.polys[0] = nil; return &p.digests[0] }},
			{"digest", []int{last}, func(p *c17Shp_bn254) *curve.G1Affine { p.polys[last] = nil; return &p.digests[last] }},
		}, d.subG1(), c17Kinds)
		c17Subs(tr, cs, a, b, []c17Acc[c17Shp_bn254, fr.Element]{
			{"cv", []int{0, 0}, func(p *c17Shp_bn254) *fr.Element { return &p.proof.ClaimedValues[0][0] }},
			{"cv", []int{last, lp}, func(p *c17Shp_bn254) *fr.Element { return &p.proof.ClaimedValues[last][lp] }},
			{"point", []int{0, 0}, func(p *c17Shp_bn254) *fr.Element { return &p.points[0][0] }},
			{"point", []int{last, lp}, func(p *c17Shp_bn254) *fr.Element { return &p.points[last][lp] }},
		}, d.subFr(), c17Kinds)
		if len(a.data) > 0 {
			c17Subs(tr, cs, a, nil, []c17Acc[c17Shp_bn254, []byte]{
				{"data", []int{0}, func(p *c17Shp_bn254) *[]byte { return &p.data[0] }},
			}, c17SubBytes(d.r), []string{"random", "zero", "shift"})
		}
		// the verifying key of another trapdoor (a commitment to a constant does not depend on the trapdoor:
		// not applied when every polynomial is a constant)
		if c17MaxInt(sh.sizes) > 1 {
			p := cs.cp(a)
			old := c17snap(&p.vk)
			p.vk = d.srs2.Vk
			tr.verify(cs.fn, []c17Op{{K: "sub", C: "vk", S: "other", Old: old, New: c17snap(&p.vk)}}, cs.extra(p), cs.args(p), func() error { return cs.verify(p) })
		}
		// shape forgeries: a row of claimed values dropped / one row shorter than its point set / one more point set
		{
			p := cs.cp(a)
			p.proof.ClaimedValues = p.proof.ClaimedValues[:last]
			c17Forged(tr, cs, "lencv", p)
			p = cs.cp(a)
			p.proof.ClaimedValues[last] = p.proof.ClaimedValues[last][:lp]
			c17Forged(tr, cs, "lencv", p)
			p = cs.cp(a)
			p.points = append(p.points, d.rndVec(1))
			c17Forged(tr, cs, "lenpoints", p)
		}
		// falsevalue: the prover's own algebra run on one wrong claimed value (W, W' recomputed)
		{
			p := cs.cp(a)
			cv := p.proof.ClaimedValues
			cv[last][lp] = d.rnd()
			p.proof, _ = d.shpForge(a.polys, p.digests, p.points, cv, p.data)
			c17Forged(tr, cs, "falsevalue", p)
		}
	}
	// cancelcommon: two polynomials opened at a common point
	type cshape struct {
		sizes  []int
		extra  []int // additional (distinct, random) points per polynomial
		i1, i2 int
	}
	cshapes := []cshape{{[]int{8, 8}, []int{0, 0}, 0, 1}, {[]int{5, 9, 4}, []int{1, 2, 1}, 0, 2}}
	if d.cfg.thorough() {
		cshapes = append(cshapes, cshape{[]int{16, 3, 7, 12}, []int{2, 0, 1, 3}, 1, 3}, cshape{[]int{1, 1}, []int{0, 1}, 0, 1})
	}
	for _, sh := range cshapes {
		tr.scenario("shplonk")
		c := &c17Shp_bn254{vk: d.srs.Vk}
		common := d.rnd()
		for i, n := range sh.sizes {
			c.polys = append(c.polys, d.rndVec(n))
			c.digests = append(c.digests, d.commit(c.polys[i]))
			pts := d.rndVec(sh.extra[i])
			if i == sh.i1 || i == sh.i2 {
				pts = append(pts, common)
			} else if len(pts) == 0 {
				pts = d.rndVec(1)
			}
			c.points = append(c.points, pts)
		}
		if !prove(c) {
			continue
		}
		c17Honest(tr, cs, c) // a statement with a repeated point is admissible: the honest proof must verify
		p := cs.cp(c)
		cv := d.shpCancel(c.polys, c.digests, c.points, c.proof.ClaimedValues, c.data, sh.i1, len(c.points[sh.i1])-1, sh.i2, len(c.points[sh.i2])-1)
		var exact bool
		p.proof, exact = d.shpForge(c.polys, c.digests, c.points, cv, c.data)
		if !exact {
			fatal("c17: cancelcommon forgery is not exact")
		}
		c17Forged(tr, cs, "cancelcommon", p)
	}
	d.fflonkPart(tr)
}

// ---- fflonk ----

type c17Ffl_bn254 struct {
	proof   fflonk.OpeningProof
	digests []kzg.Digest
	points  [][]fr.Element
	data    [][]byte
	vk      kzg.VerifyingKey
	packs   [][][]fr.Element
}

func (d *c17d_bn254) fflStatement(p *c17Ffl_bn254) Ev {
	packs := make([][][][]int, len(p.packs))
	for i := range p.packs {
		packs[i] = d.raws2(p.packs[i])
	}
	cv := make([][][][]int, len(p.proof.ClaimedValues))
	for i := range cv {
		cv[i] = d.raws2(p.proof.ClaimedValues[i])
	}
	return Ev{"packs": packs, "points": d.raws2(p.points), "cv": cv, "cvin": d.raws2(p.proof.SOpeningProof.ClaimedValues)}
}

// the t-th root of unity the library uses for a pack of t polynomials (fflonk.getIthRootOne)
func (d *c17d_bn254) fflOmega(t int) fr.Element {
	e := new(big.Int).Sub(d.q, big.NewInt(1))
	e.Div(e, big.NewInt(int64(t)))
	var w fr.Element
	w.Exp(fft.GeneratorFullMultiplicativeGroup(), e)
	return w
}

// inner claimed values (on the extended sets) that the outer ones fold to
func (d *c17d_bn254) fflFoldCv(p *c17Ffl_bn254) [][]fr.Element {
	out := make([][]fr.Element, len(p.proof.ClaimedValues))
	for i, cvi := range p.proof.ClaimedValues {
		t := len(cvi)
		w := d.fflOmega(t)
		for j := range p.points[i] {
			pol := make([]fr.Element, t)
			for k := 0; k < t; k++ {
				pol[k] = cvi[k][j]
			}
			x := p.points[i][j]
			for l := 0; l < t; l++ {
				out[i] = append(out[i], d.pEval(pol, x))
				x.Mul(&x, &w)
			}
		}
	}
	return out
}
func (d *c17d_bn254) fflExtend(p *c17Ffl_bn254) [][]fr.Element {
	out := make([][]fr.Element, len(p.points))
	for i := range p.points {
		t := len(p.proof.ClaimedValues[i])
		w := d.fflOmega(t)
		for _, x := range p.points[i] {
			for l := 0; l < t; l++ {
				out[i] = append(out[i], x)
				x.Mul(&x, &w)
			}
		}
	}
	return out
}

func (d *c17d_bn254) fflonkPart(tr *c17Trace) {
	cs := c17Case[c17Ffl_bn254]{
		fn: "fflonk.BatchVerify",
		verify: func(p *c17Ffl_bn254) error {
			return fflonk.BatchVerify(p.proof, p.digests, p.points, c17UsedHash(), p.vk, p.data...)
		},
		args:  func(p *c17Ffl_bn254) []any { return []any{&p.proof, &p.digests, &p.points, &p.data, &p.vk} },
		extra: d.fflStatement,
	}
	type shape struct {
		npoly []int // polynomials per pack
		size  int
		npts  []int
		data  int
	}
	shapes := []shape{
		{[]int{1}, 1, []int{1}, 0},             // minimal
		{[]int{2, 3}, 4, []int{1, 2}, 1},       // packs of different sizes
		{[]int{5, 1, 2}, 3, []int{2, 1, 1}, 0}, // 5 polynomials: padded to the next divisor of r-1
	}
	if d.cfg.thorough() {
		shapes = append(shapes, shape{[]int{4, 4}, 6, []int{2, 2}, 2}, shape{[]int{7}, 2, []int{3}, 0}, shape{[]int{3, 3, 2, 1}, 5, []int{1, 1, 2, 1}, 1})
	}
	mk := func(sh shape) *c17Ffl_bn254 {
		c := &c17Ffl_bn254{vk: d.srs.Vk}
		for i, np := range sh.npoly {
			pack := make([][]fr.Element, np)
			for j := range pack {
				pack[j] = d.rndVec(sh.size)
			}
			c.packs = append(c.packs, pack)
			dg, err := fflonk.FoldAndCommit(pack, d.srs.Pk)
			if err != nil {
				fatal("c17: fflonk commit: %v", err)
			}
			c.digests = append(c.digests, dg)
			c.points = append(c.points, d.rndVec(sh.npts[i]))
		}
		for i := 0; i < sh.data; i++ {
			c.data = append(c.data, d.r.Bytes(9+i))
		}
		return c
	}
	prove := func(c *c17Ffl_bn254) bool {
		pr, err := fflonk.BatchOpen(c.packs, c.digests, c.points, c17UsedHash(), d.srs.Pk, c.data...)
		if err != nil {
			e := d.fflStatement(c)
			e["fn"], e["err"] = "fflonk.BatchOpen", c17msg(err)
			tr.emit("Prove", e)
			return false
		}
		c.proof = pr
		e := d.fflStatement(c)
		e["fn"] = "fflonk.BatchOpen"
		tr.emit("Prove", e)
		return true
	}
	for _, sh := range shapes {
		tr.scenario("fflonk")
		a, b := mk(sh), mk(sh)
		if !prove(a) {
			continue
		}
		if pb, err := fflonk.BatchOpen(b.packs, b.digests, b.points, c17UsedHash(), d.srs.Pk, b.data...); err == nil {
			b.proof = pb
		} else {
			b = nil
		}
		c17Honest(tr, cs, a)
		last := len(sh.npoly) - 1
		lp := sh.npts[last] - 1
		lpol := len(a.proof.ClaimedValues[last]) - 1 // the last (possibly padding) polynomial of the last pack
		c17Subs(tr, cs, a, b, []c17Acc[c17Ffl_bn254, curve.G1Affine]{
			{"W", nil, func(p *c17Ffl_bn254) *curve.G1Affine { return &p.proof.SOpeningProof.W }},
			{"WPrime", nil, func(p *c17Ffl_bn254) *curve.G1Affine { return &p.proof.SOpeningProof.WPrime }},
			{"digest", []int{last}, func(p *c17Ffl_bn254) *curve.G1Affine { p.packs[last] = nil; return &p.digests[last] }},
		}, d.subG1(), c17Kinds)
		c17Subs(tr, cs, a, b, []c17Acc[c17Ffl_bn254, fr.Element]{
			{"cvouter", []int{0, 0, 0}, func(p *c17Ffl_bn254) *fr.Element { return &p.proof.ClaimedValues[0][0][0] }},
			{"cvouter", []int{last, lpol, lp}, func(p *c17Ffl_bn254) *fr.Element { return &p.proof.ClaimedValues[last][lpol][lp] }},
			{"cvinner", []int{0, 0}, func(p *c17Ffl_bn254) *fr.Element { return &p.proof.SOpeningProof.ClaimedValues[0][0] }},
			{"cvinner", []int{last, -1}, func(p *c17Ffl_bn254) *fr.Element {
				v := p.proof.SOpeningProof.ClaimedValues[last]
				return &v[len(v)-1]
			}},
			{"point", []int{0, 0}, func(p *c17Ffl_bn254) *fr.Element { return &p.points[0][0] }},
			{"point", []int{last, lp}, func(p *c17Ffl_bn254) *fr.Element { return &p.points[last][lp] }},
		}, d.subFr(), c17Kinds)
		if len(a.data) > 0 {
			c17Subs(tr, cs, a, nil, []c17Acc[c17Ffl_bn254, []byte]{
				{"data", []int{0}, func(p *c17Ffl_bn254) *[]byte { return &p.data[0] }},
			}, c17SubBytes(d.r), []string{"random", "shift"})
		}
		if sh.size > 1 {
			p := cs.cp(a)
			old := c17snap(&p.vk)
			p.vk = d.srs2.Vk
			tr.verify(cs.fn, []c17Op{{K: "sub", C: "vk", S: "other", Old: old, New: c17snap(&p.vk)}}, cs.extra(p), cs.args(p), func() error { return cs.verify(p) })
		}
		{
			// shapeouter: the outer claimed values of the last pack are dropped / one polynomial's values are shorter
			p := cs.cp(a)
			p.proof.ClaimedValues = p.proof.ClaimedValues[:last]
			c17Forged(tr, cs, "shapeouter", p)
			if lpol > 0 {
				p = cs.cp(a)
				p.proof.ClaimedValues[last][lpol] = p.proof.ClaimedValues[last][lpol][:lp]
				c17Forged(tr, cs, "shapeouter", p)
			}
			// leninner: one inner row shortened
			p = cs.cp(a)
			v := p.proof.SOpeningProof.ClaimedValues[last]
			p.proof.SOpeningProof.ClaimedValues[last] = v[:len(v)-1]
			c17Forged(tr, cs, "leninner", p)
		}
		{
			// consistentcv: one outer claimed value is wrong and the inner values are re-folded from the outer ones
			p := cs.cp(a)
			p.proof.ClaimedValues[last][0][lp] = d.rnd()
			p.proof.SOpeningProof.ClaimedValues = d.fflFoldCv(p)
			c17Forged(tr, cs, "consistentcv", p)
		}
	}
	// cancelcommon through fflonk: two packs with the same number of polynomials opened at a common point
	for _, np := range []int{1, 3} {
		if np == 3 && !d.cfg.thorough() && d.name != "bn254" {
			continue
		}
		tr.scenario("fflonk")
		c := &c17Ffl_bn254{vk: d.srs.Vk}
		common := d.rnd()
		for i := 0; i < 2; i++ {
			pack := make([][]fr.Element, np)
			for j := range pack {
				pack[j] = d.rndVec(4 + i)
			}
			c.packs = append(c.packs, pack)
			dg, _ := fflonk.FoldAndCommit(pack, d.srs.Pk)
			c.digests = append(c.digests, dg)
			c.points = append(c.points, []fr.Element{common})
		}
		if !prove(c) {
			continue
		}
		c17Honest(tr, cs, c)
		// forge the inner SHPLONK opening at the common extended point x (l = 0), then make the outer values
		// the coefficients of the degree < t polynomial through the forged inner values
		folded := [][]fr.Element{fflonk.Fold(c.packs[0]), fflonk.Fold(c.packs[1])}
		ext := d.fflExtend(c)
		inner := d.shpCancel(folded, c.digests, ext, c.proof.SOpeningProof.ClaimedValues, c.data, 0, 0, 1, 0)
		p := cs.cp(c)
		var exact bool
		p.proof.SOpeningProof, exact = d.shpForge(folded, c.digests, ext, inner, c.data)
		if !exact {
			fatal("c17: fflonk cancelcommon forgery is not exact")
		}
		for i := 0; i < 2; i++ {
			coef := d.pInterp(ext[i], inner[i])
			for k := range p.proof.ClaimedValues[i] {
				p.proof.ClaimedValues[i][k][0] = coef[k]
			}
		}
		c17Forged(tr, cs, "cancelcommon", p)
	}
}

// ---------------------------------------------------------------------------------------
// permutation argument

type c17Perm_bn254 struct {
	proof permutation.Proof
	vk    kzg.VerifyingKey
}

func (d *c17d_bn254) permChallenges(pr *permutation.Proof) (eps, omega, eta fr.Element) {
	fs := fiatshamir.NewTranscript(sha256.New(), "epsilon", "omega", "eta")
	eps = d.fsChallenge(fs, "epsilon", d.rawBytes(c17field[kzg.Digest](pr, "t1"), c17field[kzg.Digest](pr, "t2"))...)
	omega = d.fsChallenge(fs, "omega", d.rawBytes(c17field[kzg.Digest](pr, "z"))...)
	eta = d.fsChallenge(fs, "eta", d.rawBytes(c17field[kzg.Digest](pr, "q"))...)
	return
}

// canonical coefficients of the polynomial with values v on the domain of size len(v) (as Prove computes them)
func (d *c17d_bn254) lagrangeToCanonical(v []fr.Element) []fr.Element {
	c := append([]fr.Element{}, v...)
	dom := fft.NewDomain(uint64(len(v)))
	dom.FFTInverse(c, fft.DIF)
	fft.BitReverse(c)
	return c
}

// permForgeDomain builds, with the real KZG prover, a complete proof for ARBITRARY t1, t2 (given by the canonical
// coefficients of their interpolants) over a claimed "domain" dom = the size roots of X^size - 1 and a claimed
// generator gp such that gp*dom is disjoint from dom: the accumulator Z is 1 on dom and (eps - t1)/(eps - t2) on
// gp*dom, so the quotient identity, the batched and the shifted openings all hold for a NON-permutation.
//
//	freegenerator: dom = the real domain of size n, gp random            -> only the order check on g can refuse
//	oddsize:       dom = the roots of X^m - 1, m = 3 mod 4, gp = -1      -> only "size is a power of two" can refuse
func (d *c17d_bn254) permForgeDomain(ct1, ct2 []fr.Element, dom []fr.Element, gp fr.Element) permutation.Proof {
	n := len(dom)
	var pr permutation.Proof
	*c17field[int](&pr, "size") = n
	*c17field[fr.Element](&pr, "g") = gp
	dt1, dt2 := d.commit(ct1), d.commit(ct2)
	*c17field[kzg.Digest](&pr, "t1"), *c17field[kzg.Digest](&pr, "t2") = dt1, dt2
	fs := fiatshamir.NewTranscript(sha256.New(), "epsilon", "omega", "eta")
	eps := d.fsChallenge(fs, "epsilon", d.rawBytes(&dt1, &dt2)...)
	xs := append([]fr.Element{}, dom...)
	ys := make([]fr.Element, n, 2*n)
	for i := range ys {
		ys[i].SetOne()
	}
	for _, h := range dom {
		var x, num, den fr.Element
		x.Mul(&gp, &h)
		t1h, t2h := d.pEval(ct1, h), d.pEval(ct2, h)
		num.Sub(&eps, &t1h)
		den.Sub(&eps, &t2h)
		num.Div(&num, &den)
		xs = append(xs, x)
		ys = append(ys, num)
	}
	Z := d.pInterp(xs, ys)
	dz := d.commit(Z)
	*c17field[kzg.Digest](&pr, "z") = dz
	omega := d.fsChallenge(fs, "omega", d.rawBytes(&dz)...)
	e := []fr.Element{eps}
	one := []fr.Element{fr.One()}
	xn1 := make([]fr.Element, n+1) // X^n - 1
	xn1[n].SetOne()
	xn1[0].SetOne().Neg(&xn1[0])
	var mone fr.Element
	mone.SetOne().Neg(&mone)
	l0, _ := d.pDivMod(xn1, []fr.Element{mone, fr.One()}) // (X^n - 1)/(X - 1)
	num := d.pSub(d.pMul(d.pScaleArg(Z, gp), d.pSub(e, ct2)), d.pMul(Z, d.pSub(e, ct1)))
	num = d.pAdd(num, d.pScale(d.pMul(l0, d.pSub(Z, one)), omega))
	q, rem := d.pDivMod(num, xn1)
	if len(rem) != 0 {
		fatal("c17: permutation forgery: numerator not divisible")
	}
	dq := d.commit(q)
	*c17field[kzg.Digest](&pr, "q") = dq
	eta := d.fsChallenge(fs, "eta", d.rawBytes(&dq)...)
	bp, err := kzg.BatchOpenSinglePoint([][]fr.Element{ct1, ct2, Z, q}, []kzg.Digest{dt1, dt2, dz, dq}, eta, sha256.New(), d.srs.Pk)
	if err != nil {
		fatal("c17: permutation forgery batch open: %v", err)
	}
	*c17field[kzg.BatchOpeningProof](&pr, "batchedProof") = bp
	var seta fr.Element
	seta.Mul(&eta, &gp)
	sp, err := kzg.Open(Z, seta, d.srs.Pk)
	if err != nil {
		fatal("c17: permutation forgery open: %v", err)
	}
	*c17field[kzg.OpeningProof](&pr, "shiftedProof") = sp
	return pr
}

func (d *c17d_bn254) permFreeGenerator(t1, t2 []fr.Element) permutation.Proof {
	n := len(t1)
	fd := fft.NewDomain(uint64(n))
	dom := make([]fr.Element, n)
	dom[0].SetOne()
	for i := 1; i < n; i++ {
		dom[i].Mul(&dom[i-1], &fd.Generator)
	}
	return d.permForgeDomain(d.lagrangeToCanonical(t1), d.lagrangeToCanonical(t2), dom, d.rnd())
}

// permOddSize: claimed size m = 3 mod 4 dividing r-1 (so that X^m - 1 splits), claimed generator -1. Returns ok = false
// when the scalar field has no such small m.
func (d *c17d_bn254) permOddSize(t1, t2 []fr.Element) (permutation.Proof, int, bool) {
	rm1 := new(big.Int).Sub(d.q, big.NewInt(1))
	for m := 3; m < 40; m += 4 {
		if new(big.Int).Mod(rm1, big.NewInt(int64(m))).Sign() != 0 {
			continue
		}
		var w, mone fr.Element
		w.Exp(fft.GeneratorFullMultiplicativeGroup(), new(big.Int).Div(rm1, big.NewInt(int64(m))))
		dom := make([]fr.Element, m)
		dom[0].SetOne()
		for i := 1; i < m; i++ {
			dom[i].Mul(&dom[i-1], &w)
		}
		mone.SetOne().Neg(&mone)
		return d.permForgeDomain(d.lagrangeToCanonical(t1), d.lagrangeToCanonical(t2), dom, mone), m, true
	}
	return permutation.Proof{}, 0, false
}

func (d *c17d_bn254) permCase() c17Case[c17Perm_bn254] {
	return c17Case[c17Perm_bn254]{
		fn:     "permutation.Verify",
		verify: func(p *c17Perm_bn254) error { return permutation.Verify(p.vk, p.proof) },
		args:   func(p *c17Perm_bn254) []any { return []any{&p.proof, &p.vk} },
	}
}

// substitutions of every component of a permutation proof (used for the inner proof of plookup tables as well)
func c17PermSubs_bn254[P any](d *c17d_bn254, tr *c17Trace, cs c17Case[P], a, b *P, get func(*P) *permutation.Proof, class func(string) string, kinds []string, full bool) {
	cls := class
	class = func(c string) string { return cls(c) + ":" + c }
	g1 := func(name, cl string) c17Acc[P, curve.G1Affine] {
		return c17Acc[P, curve.G1Affine]{class(cl), nil, func(p *P) *curve.G1Affine { return c17field[curve.G1Affine](get(p), name) }}
	}
	accG := []c17Acc[P, curve.G1Affine]{g1("t1", "t1"), g1("z", "z"),
		{class("batchedH"), nil, func(p *P) *curve.G1Affine { return &c17field[kzg.BatchOpeningProof](get(p), "batchedProof").H }},
		{class("shiftedH"), nil, func(p *P) *curve.G1Affine { return &c17field[kzg.OpeningProof](get(p), "shiftedProof").H }}}
	if full {
		accG = append(accG, g1("t2", "t2"), g1("q", "q"))
	}
	c17Subs(tr, cs, a, b, accG, d.subG1(), kinds)
	accF := []c17Acc[P, fr.Element]{
		{class("g"), nil, func(p *P) *fr.Element { return c17field[fr.Element](get(p), "g") }},
		{class("shiftedcv"), nil, func(p *P) *fr.Element { return &c17field[kzg.OpeningProof](get(p), "shiftedProof").ClaimedValue }},
	}
	ks := []int{0, 3}
	if full {
		ks = []int{0, 1, 2, 3}
	}
	for _, k := range ks {
		k := k
		accF = append(accF, c17Acc[P, fr.Element]{class("batchedcv"), []int{k}, func(p *P) *fr.Element {
			return &c17field[kzg.BatchOpeningProof](get(p), "batchedProof").ClaimedValues[k]
		}})
	}
	c17Subs(tr, cs, a, b, accF, d.subFr(), kinds)
	c17Subs(tr, cs, a, b, []c17Acc[P, int]{{class("size"), nil, func(p *P) *int { return c17field[int](get(p), "size") }}}, c17SubInt(d.r), kinds)
}

func (d *c17d_bn254) permutationFamily() {
	tr := c17NewTrace(d.cfg, "permutation", d.name, Ev{"fr": d.name + "/fr"})
	defer tr.close(d.cfg)
	cs := d.permCase()
	sizes := []int{2, 4, 8}
	if d.cfg.thorough() {
		sizes = append(sizes, 16, 32)
	}
	perm := func(v []fr.Element) []fr.Element {
		out := append([]fr.Element{}, v...)
		for i := len(out) - 1; i > 0; i-- {
			j := d.r.Intn(i + 1)
			out[i], out[j] = out[j], out[i]
		}
		return out
	}
	prove := func(t1, t2 []fr.Element, note string) *c17Perm_bn254 {
		tr.scenario("permutation")
		pr, err := permutation.Prove(d.srs.Pk, t1, t2)
		e := Ev{"fn": "permutation.Prove", "t1": d.raws(t1), "t2": d.raws(t2), "note": note}
		if err != nil {
			e["err"] = c17msg(err)
			tr.emit("Prove", e)
			return nil
		}
		tr.emit("Prove", e)
		return &c17Perm_bn254{proof: pr, vk: d.srs.Vk}
	}
	for si, n := range sizes {
		t1 := d.rndVec(n)
		if si%2 == 1 {
			t1[n-1] = t1[0] // a repeated value
		}
		a := prove(t1, perm(t1), "permuted")
		if a == nil {
			continue
		}
		c17Honest(tr, cs, a)
		u := d.rndVec(n)
		pb, err := permutation.Prove(d.srs.Pk, u, perm(u))
		var b *c17Perm_bn254
		if err == nil {
			b = &c17Perm_bn254{proof: pb, vk: d.srs.Vk}
		}
		c17PermSubs_bn254(d, tr, cs, a, b, func(p *c17Perm_bn254) *permutation.Proof { return &p.proof }, func(c string) string { return c }, c17Kinds, true)
		{
			p := cs.cp(a)
			old := c17snap(&p.vk)
			p.vk = d.srs2.Vk
			tr.verify(cs.fn, []c17Op{{K: "sub", C: "vk", S: "other", Old: old, New: c17snap(&p.vk)}}, nil, cs.args(p), func() error { return cs.verify(p) })
		}
		{
			// compensatedcv: t1(eta) shifted by delta and q(eta) adjusted so that the identity still holds:
			// only the batched KZG opening can tell
			p := cs.cp(a)
			eps, _, eta := d.permChallenges(&p.proof)
			_ = eps
			bp := c17field[kzg.BatchOpeningProof](&p.proof, "batchedProof")
			delta := d.rnd()
			var den, adj fr.Element
			den.Exp(eta, big.NewInt(int64(n)))
			one := fr.One()
			den.Sub(&den, &one)
			adj.Mul(&delta, &bp.ClaimedValues[2]).Div(&adj, &den)
			bp.ClaimedValues[0].Add(&bp.ClaimedValues[0], &delta)
			bp.ClaimedValues[3].Add(&bp.ClaimedValues[3], &adj)
			c17Forged(tr, cs, "compensatedcv", p)
		}
		// the identity permutation and a statement whose two sides are equal as vectors
		if a2 := prove(t1, t1, "identical"); a2 != nil {
			c17Honest(tr, cs, a2)
		}
		// false statements through the real prover: one value changed / same set, different multiplicities
		f2 := perm(t1)
		f2[d.r.Intn(n)] = d.rnd()
		if a3 := prove(t1, f2, "onechanged"); a3 != nil {
			c17Honest(tr, cs, a3)
		}
		if n >= 4 {
			m1 := d.rndVec(n)
			m1[1] = m1[0]
			m2 := perm(m1)
			for i := range m2 {
				if !m2[i].Equal(&m1[0]) {
					m2[i] = m1[0] // one more copy of m1[0], one value lost
					break
				}
			}
			if a4 := prove(m1, m2, "multiplicity"); a4 != nil {
				c17Honest(tr, cs, a4)
			}
		}
		// freegenerator: a complete forged proof for a NON-permutation, generator outside the domain
		{
			tr.scenario("permutation")
			g2v := d.rndVec(n)
			tr.emit("Prove", Ev{"fn": "forger", "t1": d.raws(t1), "t2": d.raws(g2v), "note": "freegenerator"})
			p := &c17Perm_bn254{proof: d.permFreeGenerator(t1, g2v), vk: d.srs.Vk}
			c17Forged(tr, cs, "freegenerator", p)
		}
		// oddsize: the same forgery over the roots of X^m - 1 for an odd claimed size m, claimed generator -1
		o2 := d.rndVec(n)
		if pr, m, ok := d.permOddSize(t1, o2); ok {
			tr.scenario("permutation")
			tr.emit("Prove", Ev{"fn": "forger", "note": "oddsize", "m": m, "t1": d.raws(t1), "t2": d.raws(o2)})
			c17Forged(tr, cs, "oddsize", &c17Perm_bn254{proof: pr, vk: d.srs.Vk})
		}
	}
}

// ---------------------------------------------------------------------------------------
// plookup: vector and tables

type c17Plv_bn254 struct {
	proof plookup.ProofLookupVector
	vk    kzg.VerifyingKey
}

type c17Plt_bn254 struct {
	proof plookup.ProofLookupTables
	vk    kzg.VerifyingKey
}

func (d *c17d_bn254) plvChallenges(pr *plookup.ProofLookupVector) (beta, gamma, alpha, nu fr.Element) {
	fs := fiatshamir.NewTranscript(sha256.New(), "beta", "gamma", "alpha", "nu")
	dg := func(n string) *kzg.Digest { return c17field[kzg.Digest](pr, n) }
	beta = d.fsChallenge(fs, "beta", d.rawBytes(dg("t"), dg("f"), dg("h1"), dg("h2"))...)
	gamma = d.fsChallenge(fs, "gamma")
	alpha = d.fsChallenge(fs, "alpha", d.rawBytes(dg("z"))...)
	nu = d.fsChallenge(fs, "nu", d.rawBytes(dg("h"))...)
	return
}

// substitutions of the components of a lookup-vector proof (also used for the folded proof inside a tables proof)
func c17PlvSubs_bn254[P any](d *c17d_bn254, tr *c17Trace, cs c17Case[P], a, b *P, get func(*P) *plookup.ProofLookupVector, class func(string) string, kinds []string, full bool) {
	cls := class
	class = func(c string) string { return cls(c) + ":" + c }
	names := []string{"f", "t", "h1", "z"}
	if full {
		names = []string{"f", "t", "h1", "h2", "z", "h"}
	}
	var accG []c17Acc[P, curve.G1Affine]
	for _, nm := range names {
		nm := nm
		accG = append(accG, c17Acc[P, curve.G1Affine]{class(nm), nil, func(p *P) *curve.G1Affine { return c17field[curve.G1Affine](get(p), nm) }})
	}
	accG = append(accG,
		c17Acc[P, curve.G1Affine]{class("batchedH"), nil, func(p *P) *curve.G1Affine { return &get(p).BatchedProof.H }},
		c17Acc[P, curve.G1Affine]{class("shiftedH"), nil, func(p *P) *curve.G1Affine { return &get(p).BatchedProofShifted.H }})
	c17Subs(tr, cs, a, b, accG, d.subG1(), kinds)
	accF := []c17Acc[P, fr.Element]{{class("g"), nil, func(p *P) *fr.Element { return c17field[fr.Element](get(p), "g") }}}
	bk, sk := []int{0, 5}, []int{3}
	if full {
		bk, sk = []int{0, 1, 2, 3, 4, 5}, []int{0, 1, 2, 3}
	}
	for _, k := range bk {
		k := k
		accF = append(accF, c17Acc[P, fr.Element]{class("batchedcv"), []int{k}, func(p *P) *fr.Element { return &get(p).BatchedProof.ClaimedValues[k] }})
	}
	for _, k := range sk {
		k := k
		accF = append(accF, c17Acc[P, fr.Element]{class("shiftedcv"), []int{k}, func(p *P) *fr.Element { return &get(p).BatchedProofShifted.ClaimedValues[k] }})
	}
	c17Subs(tr, cs, a, b, accF, d.subFr(), kinds)
	c17Subs(tr, cs, a, b, []c17Acc[P, uint64]{{class("size"), nil, func(p *P) *uint64 { return c17field[uint64](get(p), "size") }}}, c17SubU64(d.r), kinds)
}

func (d *c17d_bn254) plookupFamily() {
	tr := c17NewTrace(d.cfg, "plookup", d.name, Ev{"fr": d.name + "/fr"})
	defer tr.close(d.cfg)
	// ---- lookup of a vector in a vector ----
	cs := c17Case[c17Plv_bn254]{
		fn:     "plookup.VerifyLookupVector",
		verify: func(p *c17Plv_bn254) error { return plookup.VerifyLookupVector(p.vk, p.proof) },
		args:   func(p *c17Plv_bn254) []any { return []any{&p.proof, &p.vk} },
	}
	prove := func(f, t fr.Vector, note string) *c17Plv_bn254 {
		tr.scenario("plookupvec")
		e := Ev{"fn": "plookup.ProveLookupVector", "f": d.raws(f), "t": d.raws(t), "note": note}
		pr, err := plookup.ProveLookupVector(d.srs.Pk, append(fr.Vector{}, f...), append(fr.Vector{}, t...))
		if err != nil {
			e["err"] = c17msg(err)
			tr.emit("Prove", e)
			return nil
		}
		tr.emit("Prove", e)
		return &c17Plv_bn254{proof: pr, vk: d.srs.Vk}
	}
	pick := func(t fr.Vector, n int) fr.Vector {
		f := make(fr.Vector, n)
		for i := range f {
			f[i] = t[d.r.Intn(len(t))]
		}
		return f
	}
	shapes := [][2]int{{1, 1}, {3, 4}, {7, 8}, {5, 3}}
	if d.cfg.thorough() {
		shapes = append(shapes, [2]int{1, 2}, [2]int{9, 4}, [2]int{15, 16}, [2]int{20, 11}, [2]int{31, 32})
	}
	for si, sh := range shapes {
		t := fr.Vector(d.rndVec(sh[1]))
		a := prove(pick(t, sh[0]), t, "included")
		if a == nil {
			continue
		}
		c17Honest(tr, cs, a)
		t2 := fr.Vector(d.rndVec(sh[1]))
		var b *c17Plv_bn254
		if pb, err := plookup.ProveLookupVector(d.srs.Pk, pick(t2, sh[0]), t2); err == nil {
			b = &c17Plv_bn254{proof: pb, vk: d.srs.Vk}
		}
		c17PlvSubs_bn254(d, tr, cs, a, b, func(p *c17Plv_bn254) *plookup.ProofLookupVector { return &p.proof }, func(c string) string { return c }, c17Kinds, si == 1 || d.cfg.thorough())
		if sh[1] > 1 { // a one-value table makes every committed polynomial a constant: the commitments do not depend on the trapdoor
			p := cs.cp(a)
			old := c17snap(&p.vk)
			p.vk = d.srs2.Vk
			tr.verify(cs.fn, []c17Op{{K: "sub", C: "vk", S: "other", Old: old, New: c17snap(&p.vk)}}, nil, cs.args(p), func() error { return cs.verify(p) })
		}
		{
			// compensatedcv: f(nu) shifted by delta, h(nu) adjusted so that the quotient identity still holds
			p := cs.cp(a)
			beta, gamma, _, nu := d.plvChallenges(&p.proof)
			n := *c17field[uint64](&p.proof, "size")
			g := *c17field[fr.Element](&p.proof, "g")
			cv, scv := p.proof.BatchedProof.ClaimedValues, p.proof.BatchedProofShifted.ClaimedValues
			one := fr.One()
			var gn1, v, w, A, adj, den fr.Element
			gn1.Exp(g, big.NewInt(int64(n-1)))
			v.Add(&one, &beta)
			w.Mul(&v, &gamma)
			A.Mul(&beta, &scv[2]).Add(&A, &cv[2]).Add(&A, &w)
			delta := d.rnd()
			adj.Sub(&nu, &gn1).Mul(&adj, &cv[3]).Mul(&adj, &v).Mul(&adj, &delta).Mul(&adj, &A)
			den.Exp(nu, big.NewInt(int64(n))).Sub(&den, &one)
			adj.Div(&adj, &den)
			cv[4].Add(&cv[4], &delta)
			cv[5].Add(&cv[5], &adj)
			c17Forged(tr, cs, "compensatedcv", p)
		}
		// false statements through the real prover
		f := pick(t, sh[0])
		f[d.r.Intn(len(f))] = d.rnd()
		if a2 := prove(f, t, "onemissing"); a2 != nil {
			c17Honest(tr, cs, a2)
		}
		if sh[0] > 1 {
			f = pick(t, sh[0])
			f[len(f)-1] = d.rnd() // the padding value of f
			if a3 := prove(f, t, "lastmissing"); a3 != nil {
				c17Honest(tr, cs, a3)
			}
		}
		// oddsize: complete forged proof that a random f is in t, claimed size odd, claimed generator -1
		if sh[1] > 1 {
			ff := fr.Vector(d.rndVec(sh[1]))
			if p, m, ok := d.plvOddSize(d.lagrangeToCanonical(c17Pad(ff, sh[1])), d.lagrangeToCanonical(c17Pad(t, sh[1]))); ok {
				tr.scenario("plookupvec")
				tr.emit("Prove", Ev{"fn": "forger", "note": "oddsize", "m": m, "f": d.raws(ff), "t": d.raws(t)})
				c17Forged(tr, cs, "oddsize", p)
			}
		}
	}

	// ---- lookup of tables ----
	ct := c17Case[c17Plt_bn254]{
		fn:     "plookup.VerifyLookupTables",
		verify: func(p *c17Plt_bn254) error { return plookup.VerifyLookupTables(p.vk, p.proof) },
		args:   func(p *c17Plt_bn254) []any { return []any{&p.proof, &p.vk} },
		extra:  func(p *c17Plt_bn254) Ev { return Ev{"rows": len(*c17field[[]kzg.Digest](&p.proof, "fs"))} },
	}
	rows := func(v []fr.Vector) [][][]int {
		out := make([][][]int, len(v))
		for i := range v {
			out[i] = d.raws(v[i])
		}
		return out
	}
	cloneT := func(v []fr.Vector) []fr.Vector {
		out := make([]fr.Vector, len(v))
		for i := range v {
			out[i] = append(fr.Vector{}, v[i]...)
		}
		return out
	}
	proveT := func(f, t []fr.Vector, note string) *c17Plt_bn254 {
		tr.scenario("plookuptab")
		e := Ev{"fn": "plookup.ProveLookupTables", "f": rows(f), "t": rows(t), "note": note}
		pr, err := plookup.ProveLookupTables(d.srs.Pk, cloneT(f), cloneT(t))
		if err != nil {
			e["err"] = c17msg(err)
			tr.emit("Prove", e)
			return nil
		}
		tr.emit("Prove", e)
		return &c17Plt_bn254{proof: pr, vk: d.srs.Vk}
	}
	mkTable := func(nr, nc int) []fr.Vector {
		t := make([]fr.Vector, nr)
		for i := range t {
			t[i] = d.rndVec(nc)
		}
		return t
	}
	pickCols := func(t []fr.Vector, nc int) []fr.Vector {
		f := make([]fr.Vector, len(t))
		for i := range f {
			f[i] = make(fr.Vector, nc)
		}
		for j := 0; j < nc; j++ {
			c := d.r.Intn(len(t[0]))
			for i := range t {
				f[i][j] = t[i][c]
			}
		}
		return f
	}
	tshapes := [][3]int{{1, 3, 4}, {3, 7, 8}, {2, 5, 4}} // rows, columns of f, columns of t
	if d.cfg.thorough() {
		tshapes = append(tshapes, [3]int{4, 15, 16}, [3]int{2, 1, 2}, [3]int{3, 9, 16})
	}
	for si, sh := range tshapes {
		t := mkTable(sh[0], sh[2])
		f := pickCols(t, sh[1])
		a := proveT(f, t, "included")
		if a == nil {
			continue
		}
		c17Honest(tr, ct, a)
		tb := mkTable(sh[0], sh[2])
		var b *c17Plt_bn254
		if pb, err := plookup.ProveLookupTables(d.srs.Pk, pickCols(tb, sh[1]), cloneT(tb)); err == nil {
			b = &c17Plt_bn254{proof: pb, vk: d.srs.Vk}
		}
		lr := sh[0] - 1
		c17Subs(tr, ct, a, b, []c17Acc[c17Plt_bn254, curve.G1Affine]{
			{"fs", []int{0}, func(p *c17Plt_bn254) *curve.G1Affine { return &(*c17field[[]kzg.Digest](&p.proof, "fs"))[0] }},
			{"fs", []int{lr}, func(p *c17Plt_bn254) *curve.G1Affine { return &(*c17field[[]kzg.Digest](&p.proof, "fs"))[lr] }},
			{"ts", []int{0}, func(p *c17Plt_bn254) *curve.G1Affine { return &(*c17field[[]kzg.Digest](&p.proof, "ts"))[0] }},
			{"ts", []int{lr}, func(p *c17Plt_bn254) *curve.G1Affine { return &(*c17field[[]kzg.Digest](&p.proof, "ts"))[lr] }},
		}, d.subG1(), c17Kinds)
		folded := func(p *c17Plt_bn254) *plookup.ProofLookupVector {
			return c17field[plookup.ProofLookupVector](&p.proof, "foldedProof")
		}
		inner := func(p *c17Plt_bn254) *permutation.Proof {
			return c17field[permutation.Proof](&p.proof, "permutationProof")
		}
		kinds := []string{"random", "other"}
		if si == 1 || d.cfg.thorough() {
			kinds = c17Kinds
		}
		c17PlvSubs_bn254(d, tr, ct, a, b, folded, func(c string) string {
			switch c {
			case "f":
				return "foldedf"
			case "t":
				return "foldedt"
			}
			return "foldedother"
		}, kinds, false)
		c17PermSubs_bn254(d, tr, ct, a, b, inner, func(c string) string {
			if c == "t1" || c == "t2" {
				return "permt"
			}
			return "permother"
		}, kinds, false)
		{
			p := ct.cp(a)
			old := c17snap(&p.vk)
			p.vk = d.srs2.Vk
			tr.verify(ct.fn, []c17Op{{K: "sub", C: "vk", S: "other", Old: old, New: c17snap(&p.vk)}}, nil, ct.args(p), func() error { return ct.verify(p) })
		}
		{
			// lents: one table-row commitment dropped
			p := ct.cp(a)
			ts := c17field[[]kzg.Digest](&p.proof, "ts")
			*ts = (*ts)[:lr]
			c17Forged(tr, ct, "lents", p)
		}
		if b != nil {
			// otherperm: the (internally consistent) permutation proof of another honest tables proof
			p := ct.cp(a)
			*inner(p) = c17clone(*inner(b))
			c17Forged(tr, ct, "otherperm", p)
		}
		// a false statement through the real prover: one column of f is not a column of t
		f2 := pickCols(t, sh[1])
		f2[d.r.Intn(sh[0])][d.r.Intn(sh[1])] = d.rnd()
		if a2 := proveT(f2, t, "onemissing"); a2 != nil {
			c17Honest(tr, ct, a2)
		}
		// faketable: f is NOT in t, but it is in tf. The row commitments are those of (f, t); the folded lookup and the
		// permutation argument are honest proofs about tf folded with the verifier's lambda.
		{
			tf := mkTable(sh[0], sh[2])
			ff := pickCols(tf, sh[1])
			tr.scenario("plookuptab")
			tr.emit("Prove", Ev{"fn": "forger", "f": rows(ff), "t": rows(t), "note": "faketable"})
			p := d.pltFakeTable(ff, t, tf)
			c17Forged(tr, ct, "faketable", p)
		}
	}
}

// plvOddSize: a complete forged lookup proof for ARBITRARY f, t (canonical coefficients cf, ct of their interpolants)
// with claimed size m = 3 mod 4 (m | r-1) and claimed generator -1: g^(m-1) = 1, the shifted points -u are outside
// the roots of X^m - 1, so z(-u) is free; h1 = h2 = a constant.
func (d *c17d_bn254) plvOddSize(cf, ct []fr.Element) (*c17Plv_bn254, int, bool) {
	rm1 := new(big.Int).Sub(d.q, big.NewInt(1))
	for m := 3; m < 40; m += 4 {
		if new(big.Int).Mod(rm1, big.NewInt(int64(m))).Sign() != 0 {
			continue
		}
		var wm, g fr.Element
		wm.Exp(fft.GeneratorFullMultiplicativeGroup(), new(big.Int).Div(rm1, big.NewInt(int64(m))))
		g.SetOne().Neg(&g)
		dom := make([]fr.Element, m)
		dom[0].SetOne()
		for i := 1; i < m; i++ {
			dom[i].Mul(&dom[i-1], &wm)
		}
		out := &c17Plv_bn254{vk: d.srs.Vk}
		pr := &out.proof
		*c17field[uint64](pr, "size") = uint64(m)
		*c17field[fr.Element](pr, "g") = g
		c := d.rnd()
		ch := []fr.Element{c}
		df, dt, dh1 := d.commit(cf), d.commit(ct), d.commit(ch)
		*c17field[kzg.Digest](pr, "f"), *c17field[kzg.Digest](pr, "t") = df, dt
		*c17field[kzg.Digest](pr, "h1"), *c17field[kzg.Digest](pr, "h2") = dh1, dh1
		fs := fiatshamir.NewTranscript(sha256.New(), "beta", "gamma", "alpha", "nu")
		beta := d.fsChallenge(fs, "beta", d.rawBytes(&dt, &df, &dh1, &dh1)...)
		gamma := d.fsChallenge(fs, "gamma")
		one := fr.One()
		var v, w, K, K2inv fr.Element
		v.Add(&one, &beta)
		w.Mul(&v, &gamma)
		K.Mul(&beta, &c).Add(&K, &c).Add(&K, &w)
		K2inv.Square(&K).Inverse(&K2inv)
		pf := d.pAdd([]fr.Element{gamma}, cf)
		pt := d.pAdd(d.pAdd([]fr.Element{w}, ct), d.pScale(d.pScaleArg(ct, g), beta))
		xs := append([]fr.Element{}, dom...)
		ys := make([]fr.Element, m, 2*m)
		for i := range ys {
			ys[i].SetOne()
		}
		for _, u := range dom {
			var x, y fr.Element
			x.Mul(&g, &u)
			a, b := d.pEval(pf, u), d.pEval(pt, u)
			y.Mul(&v, &a).Mul(&y, &b).Mul(&y, &K2inv)
			xs = append(xs, x)
			ys = append(ys, y)
		}
		Z := d.pInterp(xs, ys)
		dz := d.commit(Z)
		*c17field[kzg.Digest](pr, "z") = dz
		alpha := d.fsChallenge(fs, "alpha", d.rawBytes(&dz)...)
		xm1 := make([]fr.Element, m+1)
		xm1[m].SetOne()
		xm1[0].SetOne().Neg(&xm1[0])
		var mone, a12, K2 fr.Element
		mone.SetOne().Neg(&mone)
		lin := []fr.Element{mone, one}
		l0, _ := d.pDivMod(xm1, lin)
		K2.Square(&K)
		bracket := d.pSub(d.pScale(d.pMul(d.pMul(Z, pf), pt), v), d.pScale(d.pScaleArg(Z, g), K2))
		a12.Square(&alpha).Add(&a12, &alpha)
		num := d.pAdd(d.pMul(lin, bracket), d.pScale(d.pMul(l0, d.pSub(Z, []fr.Element{one})), a12))
		h, rem := d.pDivMod(num, xm1)
		if len(rem) != 0 {
			fatal("c17: plookup oddsize: numerator not divisible")
		}
		dh := d.commit(h)
		*c17field[kzg.Digest](pr, "h") = dh
		nu := d.fsChallenge(fs, "nu", d.rawBytes(&dh)...)
		var err error
		pr.BatchedProof, err = kzg.BatchOpenSinglePoint([][]fr.Element{ch, ch, ct, Z, cf, h}, []kzg.Digest{dh1, dh1, dt, dz, df, dh}, nu, sha256.New(), d.srs.Pk)
		if err != nil {
			fatal("c17: plookup oddsize open: %v", err)
		}
		nu.Mul(&nu, &g)
		pr.BatchedProofShifted, err = kzg.BatchOpenSinglePoint([][]fr.Element{ch, ch, ct, Z}, []kzg.Digest{dh1, dh1, dt, dz}, nu, sha256.New(), d.srs.Pk)
		if err != nil {
			fatal("c17: plookup oddsize open: %v", err)
		}
		return out, m, true
	}
	return nil, 0, false
}

// pltFakeTable assembles a tables proof whose row commitments are those of (f, t) while the inner proofs are about tf.
func (d *c17d_bn254) pltFakeTable(f, t, tf []fr.Vector) *c17Plt_bn254 {
	nr := len(f)
	nc := len(f[0]) + 1
	if nc < len(t[0]) {
		nc = len(t[0])
	}
	dom := fft.NewDomain(uint64(nc))
	n := int(dom.Cardinality)
	pad := func(v fr.Vector) fr.Vector {
		out := make(fr.Vector, n)
		copy(out, v)
		for j := len(v); j < n; j++ {
			out[j] = v[len(v)-1]
		}
		return out
	}
	fsd := make([]kzg.Digest, nr)
	tsd := make([]kzg.Digest, nr)
	lfs := make([]fr.Vector, nr)
	ltf := make([]fr.Vector, nr)
	for i := 0; i < nr; i++ {
		lfs[i] = pad(f[i])
		ltf[i] = pad(tf[i])
		fsd[i] = d.commit(d.lagrangeToCanonical(lfs[i]))
		tsd[i] = d.commit(d.lagrangeToCanonical(pad(t[i])))
	}
	fs := fiatshamir.NewTranscript(sha256.New(), "lambda")
	var pts []*curve.G1Affine
	for i := range fsd {
		pts = append(pts, &fsd[i])
	}
	for i := range tsd {
		pts = append(pts, &tsd[i])
	}
	lambda := d.fsChallenge(fs, "lambda", d.rawBytes(pts...)...)
	foldedf := make(fr.Vector, n)
	foldedt := make(fr.Vector, n)
	for i := 0; i < n; i++ {
		for j := nr - 1; j >= 0; j-- {
			foldedf[i].Mul(&foldedf[i], &lambda).Add(&foldedf[i], &lfs[j][i])
			foldedt[i].Mul(&foldedt[i], &lambda).Add(&foldedt[i], &ltf[j][i])
		}
	}
	sorted := append(fr.Vector{}, foldedt...)
	sort.Sort(sorted)
	pp, err := permutation.Prove(d.srs.Pk, append(fr.Vector{}, foldedt...), sorted)
	if err != nil {
		fatal("c17: faketable permutation: %v", err)
	}
	fp, err := plookup.ProveLookupVector(d.srs.Pk, append(fr.Vector{}, foldedf[:n-1]...), append(fr.Vector{}, foldedt...))
	if err != nil {
		fatal("c17: faketable lookup: %v", err)
	}
	out := &c17Plt_bn254{vk: d.srs.Vk}
	*c17field[[]kzg.Digest](&out.proof, "fs") = fsd
	*c17field[[]kzg.Digest](&out.proof, "ts") = tsd
	*c17field[plookup.ProofLookupVector](&out.proof, "foldedProof") = fp
	*c17field[permutation.Proof](&out.proof, "permutationProof") = pp
	return out
}

// ---------------------------------------------------------------------------------------
// FRI: proof of proximity and openings

type c17Fri_bn254 struct {
	iopp  fri.Iopp
	proof fri.ProofOfProximity
}

type c17FriOpen_bn254 struct {
	iopp     fri.Iopp
	position uint64
	op       fri.OpeningProof
	pp       fri.ProofOfProximity
}

type c17FriGeom_bn254 struct {
	steps int // number of folding steps
	N     int // size of the evaluation domain (rho * next power of two of size)
}

func (d *c17d_bn254) friGeom(size int) c17FriGeom_bn254 {
	n, steps := 1, 0
	for n < size {
		n <<= 1
		steps++
	}
	return c17FriGeom_bn254{steps: steps, N: n * fri.GetRho()}
}

// friReplay recomputes the verifier's Fiat-Shamir challenges and query positions of one round
func (d *c17d_bn254) friReplay(g c17FriGeom_bn254, rd *fri.Round) (xi []fr.Element, si []int) {
	names := make([]string, g.steps+1)
	for i := 0; i < g.steps; i++ {
		names[i] = fmt.Sprintf("x%d", i)
	}
	names[g.steps] = "s0"
	fs := fiatshamir.NewTranscript(sha256.New(), names...)
	var salt fr.Element
	if err := fs.Bind(names[0], salt.Marshal()); err != nil {
		fatal("c17: fri bind: %v", err)
	}
	xi = make([]fr.Element, g.steps)
	for i := 0; i < g.steps; i++ {
		xi[i] = d.fsChallenge(fs, names[i], rd.Interactions[i][0].MerkleRoot)
	}
	fs.Bind(names[g.steps], rd.Evaluation.Marshal())
	b, err := fs.ComputeChallenge(names[g.steps])
	if err != nil {
		fatal("c17: fri challenge: %v", err)
	}
	pos := int(new(big.Int).Mod(new(big.Int).SetBytes(b), big.NewInt(int64(g.N))).Int64())
	si = make([]int, g.steps)
	si[0] = pos
	sz := g.N / 2
	for i := 1; i < g.steps; i++ {
		t := (si[i-1] - si[i-1]%2) / 2
		si[i] = c17FriSorted(t, sz)
		sz /= 2
	}
	return
}

func (d *c17d_bn254) friHash(parts ...[]byte) []byte {
	h := sha256.New()
	for _, p := range parts {
		h.Write(p)
	}
	return h.Sum(nil)
}

// root of the (power-of-two) tree from a leaf, its audit path and its index (merkletree: leaf = H(data), node = H(l || r))
func (d *c17d_bn254) friRoot(leaf []byte, path [][]byte, idx int) []byte {
	s := d.friHash(leaf)
	for k, sib := range path {
		if (idx>>uint(k))&1 == 0 {
			s = d.friHash(s, sib)
		} else {
			s = d.friHash(sib, s)
		}
	}
	return s
}

// friEvals: the evaluations the library prover starts from (FFT of the coefficients on the domain of size N)
func (d *c17d_bn254) friEvals(p []fr.Element, N int) []fr.Element {
	e := make([]fr.Element, N)
	copy(e, p)
	dom := fft.NewDomain(uint64(N))
	dom.FFT(e, fft.DIF)
	fft.BitReverse(e)
	return e
}

// friProve is fri.buildProofOfProximitySingleRound rebuilt from the public pieces (merkletree, fiat-shamir), with a hook
// that lets the forger alter the folded evaluations of a level before they are committed.
func (d *c17d_bn254) friProve(g c17FriGeom_bn254, evals []fr.Element, corrupt func(level int, folded []fr.Element)) fri.ProofOfProximity {
	names := make([]string, g.steps+1)
	for i := 0; i < g.steps; i++ {
		names[i] = fmt.Sprintf("x%d", i)
	}
	names[g.steps] = "s0"
	fs := fiatshamir.NewTranscript(sha256.New(), names...)
	var salt fr.Element
	fs.Bind(names[0], salt.Marshal())
	dom := fft.NewDomain(uint64(g.N))
	gInv := dom.GeneratorInv
	var twoInv fr.Element
	twoInv.SetUint64(2).Inverse(&twoInv)
	cur := append([]fr.Element{}, evals...)
	levels := make([][]fr.Element, g.steps)
	for i := 0; i < g.steps; i++ {
		n := len(cur) / 2
		srt := make([]fr.Element, len(cur))
		for k := 0; k < n; k++ {
			srt[2*k], srt[2*k+1] = cur[k], cur[k+n]
		}
		levels[i] = srt
		t := merkletree.New(sha256.New())
		for k := range srt {
			t.Push(srt[k].Marshal())
		}
		x := d.fsChallenge(fs, names[i], t.Root())
		next := make([]fr.Element, n)
		acc := fr.One()
		for k := 0; k < n; k++ {
			var p1, p2 fr.Element
			p1.Add(&srt[2*k], &srt[2*k+1])
			p2.Sub(&srt[2*k], &srt[2*k+1]).Mul(&p2, &acc)
			next[k].Mul(&p2, &x).Add(&next[k], &p1).Mul(&next[k], &twoInv)
			acc.Mul(&acc, &gInv)
		}
		if corrupt != nil {
			corrupt(i, next)
		}
		cur = next
		gInv.Square(&gInv)
	}
	var rd fri.Round
	rd.Evaluation = cur[0]
	rd.Interactions = make([][2]fri.MerkleProof, g.steps)
	fs.Bind(names[g.steps], rd.Evaluation.Marshal())
	b, _ := fs.ComputeChallenge(names[g.steps])
	pos := int(new(big.Int).Mod(new(big.Int).SetBytes(b), big.NewInt(int64(g.N))).Int64())
	sz := g.N / 2
	for i := 0; i < g.steps; i++ {
		if i > 0 {
			pos = c17FriSorted((pos-pos%2)/2, sz)
			sz /= 2
		}
		t := merkletree.New(sha256.New())
		t.SetIndex(uint64(pos))
		for k := range levels[i] {
			t.Push(levels[i][k].Marshal())
		}
		mr, ps, _, nl := t.Prove()
		c := pos % 2
		rd.Interactions[i][c] = fri.MerkleProof{MerkleRoot: mr, ProofSet: ps}
		*c17field[uint64](&rd.Interactions[i][c], "numLeaves") = nl
		rd.Interactions[i][1-c] = fri.MerkleProof{MerkleRoot: mr, ProofSet: [][]byte{levels[i][pos+1-2*c].Marshal(), d.friHash(ps[0])}}
		*c17field[uint64](&rd.Interactions[i][1-c], "numLeaves") = nl
	}
	return fri.ProofOfProximity{Rounds: []fri.Round{rd}}
}

// friFreeEntry1 (F21): rewrite, from the last level down, the leaf of entry [1] of every interaction so that each folding
// relation (and the final one) holds, and recompute the root of entry [1] - which nothing binds - from that leaf.
func (d *c17d_bn254) friFreeEntry1(g c17FriGeom_bn254, pp *fri.ProofOfProximity) {
	rd := &pp.Rounds[0]
	xi, si := d.friReplay(g, rd)
	dom := fft.NewDomain(uint64(g.N))
	ginv := make([]fr.Element, g.steps)
	ginv[0] = dom.GeneratorInv
	for i := 1; i < g.steps; i++ {
		ginv[i].Square(&ginv[i-1])
	}
	one := fr.One()
	var two fr.Element
	two.SetUint64(2)
	target := rd.Evaluation
	for i := g.steps - 1; i >= 0; i-- {
		var l, A, num, den, r, t fr.Element
		l.SetBytes(rd.Interactions[i][0].ProofSet[0])
		A.Exp(ginv[i], big.NewInt(int64(si[i]/2))).Mul(&A, &xi[i])
		num.Mul(&two, &target).Sub(&num, t.Add(&one, &A).Mul(&t, &l))
		den.Sub(&one, &A)
		r.Div(&num, &den)
		c := si[i] % 2
		e1 := &rd.Interactions[i][1]
		e1.ProofSet = append([][]byte{}, e1.ProofSet...)
		e1.ProofSet[0] = r.Marshal()
		path := append([][]byte{e1.ProofSet[1]}, rd.Interactions[i][c].ProofSet[2:]...)
		e1.MerkleRoot = d.friRoot(e1.ProofSet[0], path, si[i]-c+1)
		target.SetBytes(rd.Interactions[i][c].ProofSet[0])
	}
}

func (d *c17d_bn254) friFamily() {
	tr := c17NewTrace(d.cfg, "fri", d.name, Ev{"fr": d.name + "/fr"})
	defer tr.close(d.cfg)
	cs := c17Case[c17Fri_bn254]{
		clone:  func(p *c17Fri_bn254) *c17Fri_bn254 { return &c17Fri_bn254{iopp: p.iopp, proof: c17clone(p.proof)} },
		fn:     "fri.VerifyProofOfProximity",
		verify: func(p *c17Fri_bn254) error { return p.iopp.VerifyProofOfProximity(p.proof) },
		args:   func(p *c17Fri_bn254) []any { return []any{&p.proof} },
	}
	co := c17Case[c17FriOpen_bn254]{
		clone: func(p *c17FriOpen_bn254) *c17FriOpen_bn254 {
			return &c17FriOpen_bn254{iopp: p.iopp, position: p.position, op: c17clone(p.op), pp: c17clone(p.pp)}
		},
		fn:     "fri.VerifyOpening",
		verify: func(p *c17FriOpen_bn254) error { return p.iopp.VerifyOpening(p.position, p.op, p.pp) },
		args:   func(p *c17FriOpen_bn254) []any { return []any{&p.position, &p.op, &p.pp} },
		extra: func(p *c17FriOpen_bn254) Ev {
			e := Ev{"cv": d.raw(p.op.ClaimedValue), "position": int(p.position)}
			if len(p.op.ProofSet) > 0 {
				e["leaf"] = bytesToInts(p.op.ProofSet[0])
			} else {
				e["leaf"] = []int{}
			}
			return e
		},
	}
	sizes := []int{2, 3, 8}
	if d.cfg.thorough() {
		sizes = append(sizes, 5, 16, 64)
	}
	for _, size := range sizes {
		g := d.friGeom(size)
		iopp := fri.RADIX_2_FRI.New(uint64(size), sha256.New())
		mk := func(p []fr.Element, note string) *c17Fri_bn254 {
			tr.scenario("fripp")
			e := Ev{"fn": "fri.BuildProofOfProximity", "size": size, "n": len(p), "note": note}
			pp, err := iopp.BuildProofOfProximity(append([]fr.Element{}, p...))
			if err != nil {
				e["err"] = c17msg(err)
				tr.emit("Prove", e)
				return nil
			}
			tr.emit("Prove", e)
			return &c17Fri_bn254{iopp: iopp, proof: pp}
		}
		poly := d.rndVec(size)
		a := mk(poly, "lowdegree")
		if a == nil {
			continue
		}
		c17Honest(tr, cs, a)
		bb, _ := iopp.BuildProofOfProximity(d.rndVec(size))
		b := &c17Fri_bn254{iopp: iopp, proof: bb}
		_, si := d.friReplay(g, &a.proof.Rounds[0])
		levels := []int{0}
		if g.steps > 1 {
			levels = append(levels, g.steps-1)
		}
		for _, i := range levels {
			i := i
			c := si[i] % 2
			ent := func(p *c17Fri_bn254, e int) *fri.MerkleProof { return &p.proof.Rounds[0].Interactions[i][e] }
			accB := []c17Acc[c17Fri_bn254, []byte]{
				{"root0", []int{i}, func(p *c17Fri_bn254) *[]byte { return &ent(p, 0).MerkleRoot }},
				{"root1", []int{i}, func(p *c17Fri_bn254) *[]byte { return &ent(p, 1).MerkleRoot }},
				{"leaffull", []int{i}, func(p *c17Fri_bn254) *[]byte { return &ent(p, c).ProofSet[0] }},
				{"leafnb", []int{i}, func(p *c17Fri_bn254) *[]byte { return &ent(p, 1-c).ProofSet[0] }},
				{"sibfull", []int{i}, func(p *c17Fri_bn254) *[]byte { return &ent(p, c).ProofSet[1] }},
				{"sibnb", []int{i}, func(p *c17Fri_bn254) *[]byte { return &ent(p, 1-c).ProofSet[1] }},
				{"path", []int{i, 2}, func(p *c17Fri_bn254) *[]byte { return &ent(p, c).ProofSet[2] }},
				{"path", []int{i, -1}, func(p *c17Fri_bn254) *[]byte { ps := ent(p, c).ProofSet; return &ps[len(ps)-1] }},
			}
			// "other": the other honest proof has other query positions, so its bytes at the same place are unrelated values
			c17Subs(tr, cs, a, b, accB, c17SubBytes(d.r), c17Kinds)
			c17Subs(tr, cs, a, b, []c17Acc[c17Fri_bn254, uint64]{
				{"numleaves", []int{i, 0}, func(p *c17Fri_bn254) *uint64 { return c17field[uint64](ent(p, 0), "numLeaves") }},
				{"numleaves", []int{i, 1}, func(p *c17Fri_bn254) *uint64 { return c17field[uint64](ent(p, 1), "numLeaves") }},
			}, c17SubU64(d.r), []string{"random", "zero", "shift"})
		}
		c17Subs(tr, cs, a, b, []c17Acc[c17Fri_bn254, fr.Element]{
			{"evaluation", nil, func(p *c17Fri_bn254) *fr.Element { return &p.proof.Rounds[0].Evaluation }},
		}, d.subFr(), c17Kinds)
		c17Subs(tr, cs, a, nil, []c17Acc[c17Fri_bn254, []byte]{{"id", nil, func(p *c17Fri_bn254) *[]byte { return &p.proof.ID }}},
			func(dst, other *[]byte, kind string) bool { *dst = d.r.Bytes(8); return true }, []string{"random"})

		// ---- targeted ----
		{
			// shiftevaluation: Evaluation + k for the first k that leaves the derived query position unchanged
			p := cs.cp(a)
			rd := &p.proof.Rounds[0]
			one := fr.One()
			for k := 0; k < 100000; k++ {
				rd.Evaluation.Add(&rd.Evaluation, &one)
				if _, s2 := d.friReplay(g, rd); s2[0] == si[0] {
					c17Forged(tr, cs, "shiftevaluation", p)
					break
				}
			}
		}
		if g.steps >= 2 {
			// corruptlevel: every Merkle tree is honest, every later level folds correctly, the final value is constant,
			// but level 1 is not the folding of level 0 (a constant was added to it before it was committed)
			tr.scenario("fripp")
			delta := d.rnd()
			pp := d.friProve(g, d.friEvals(poly, g.N), func(level int, folded []fr.Element) {
				if level == 0 {
					for k := range folded {
						folded[k].Add(&folded[k], &delta)
					}
				}
			})
			tr.emit("Prove", Ev{"fn": "forger", "size": size, "n": len(poly), "note": "corruptlevel"})
			// control: the same rebuilt prover without corruption must be accepted
			ctl := d.friProve(g, d.friEvals(poly, g.N), nil)
			tr.verify(cs.fn, nil, nil, []any{&ctl}, func() error { return iopp.VerifyProofOfProximity(ctl) })
			c17Forged(tr, cs, "corruptlevel", &c17Fri_bn254{iopp: iopp, proof: pp})
		}
		{
			// a function far from every polynomial of the claimed degree: the library prover's own proof (rejected unless
			// its single query hits position 0 of the final level), then the F21 forgery on top of it
			far := d.rndVec(g.N)
			if f := mk(far, "far"); f != nil {
				c17Forged(tr, cs, "farfunction", cs.cp(f))
				p := cs.cp(f)
				d.friFreeEntry1(g, &p.proof)
				c17Forged(tr, cs, "freeentry1", p)
			}
		}

		// ---- openings ----
		positions := []uint64{0, uint64(g.N - 1), uint64(d.r.Intn(g.N))}
		for pi, pos := range positions {
			tr.scenario("friopen")
			e := Ev{"fn": "fri.Open", "size": size, "n": len(poly), "position": int(pos), "poly": d.raws(poly)}
			op, err := iopp.Open(append([]fr.Element{}, poly...), pos)
			if err != nil {
				e["err"] = c17msg(err)
				tr.emit("Prove", e)
				continue
			}
			e["cv"] = d.raw(op.ClaimedValue)
			tr.emit("Prove", e)
			o := &c17FriOpen_bn254{iopp: iopp, position: pos, op: op, pp: a.proof}
			c17Honest(tr, co, o)
			if pi > 0 && !d.cfg.thorough() {
				// the claimed value alone on the other positions
				c17Subs(tr, co, o, nil, []c17Acc[c17FriOpen_bn254, fr.Element]{
					{"claimedvalue", nil, func(p *c17FriOpen_bn254) *fr.Element { return &p.op.ClaimedValue }}}, d.subFr(), []string{"random"})
				continue
			}
			op2, _ := iopp.Open(d.rndVec(size), pos)
			o2 := &c17FriOpen_bn254{iopp: iopp, position: pos, op: op2, pp: a.proof}
			c17Subs(tr, co, o, o2, []c17Acc[c17FriOpen_bn254, fr.Element]{
				{"claimedvalue", nil, func(p *c17FriOpen_bn254) *fr.Element { return &p.op.ClaimedValue }}}, d.subFr(), c17Kinds)
			c17Subs(tr, co, o, o2, []c17Acc[c17FriOpen_bn254, []byte]{
				{"merkleroot", nil, func(p *c17FriOpen_bn254) *[]byte { return c17field[[]byte](&p.op, "merkleRoot") }},
				{"leaf", nil, func(p *c17FriOpen_bn254) *[]byte { return &p.op.ProofSet[0] }},
				{"sibling", []int{1}, func(p *c17FriOpen_bn254) *[]byte { return &p.op.ProofSet[1] }},
				{"sibling", []int{-1}, func(p *c17FriOpen_bn254) *[]byte { return &p.op.ProofSet[len(p.op.ProofSet)-1] }},
			}, c17SubBytes(d.r), c17Kinds)
			c17Subs(tr, co, o, nil, []c17Acc[c17FriOpen_bn254, uint64]{
				{"numleaves", nil, func(p *c17FriOpen_bn254) *uint64 { return c17field[uint64](&p.op, "numLeaves") }},
				{"index", nil, func(p *c17FriOpen_bn254) *uint64 { return c17field[uint64](&p.op, "index") }},
			}, c17SubU64(d.r), []string{"random", "zero", "shift"})
			c17Subs(tr, co, o, nil, []c17Acc[c17FriOpen_bn254, uint64]{
				{"position", nil, func(p *c17FriOpen_bn254) *uint64 { return &p.position }},
			}, func(dst, other *uint64, kind string) bool {
				switch kind {
				case "random":
					*dst = uint64(d.r.Intn(g.N))
				case "zero":
					*dst = 0
				case "other":
					*dst = (*dst + uint64(g.N/2)) % uint64(g.N)
				case "shift":
					*dst = (*dst + 1) % uint64(g.N)
				}
				return true
			}, c17Kinds)
			// otherpolynomial: a complete, internally consistent opening of another polynomial
			c17Forged(tr, co, "otherpolynomial", co.cp(o2))
		}
	}
}

// ---------------------------------------------------------------------------------------
// points with their discrete logarithms (known trapdoor), points outside the subgroup

type c17P1_bn254 struct {
	P curve.G1Affine
	S *big.Int // P = [S] G1 generator (nil: not a known multiple)
}
type c17P2_bn254 struct {
	P curve.G2Affine
	S *big.Int
}

func (d *c17d_bn254) p1(k *big.Int) c17P1_bn254 {
	k = new(big.Int).Mod(k, d.q)
	return c17P1_bn254{P: d.mulG1(k), S: k}
}
func (d *c17d_bn254) p2(k *big.Int) c17P2_bn254 {
	k = new(big.Int).Mod(k, d.q)
	return c17P2_bn254{P: d.mulG2(k), S: k}
}
func (d *c17d_bn254) ev1(p c17P1_bn254) Ev {
	e := Ev{"pt": enc(reflect.ValueOf(&p.P)), "known": p.S != nil}
	if p.S != nil {
		e["s"] = digits(p.S)
	}
	return e
}
func (d *c17d_bn254) ev2(p c17P2_bn254) Ev {
	e := Ev{"pt": enc(reflect.ValueOf(&p.P)), "known": p.S != nil}
	if p.S != nil {
		e["s"] = digits(p.S)
	}
	return e
}
func (d *c17d_bn254) evs1(ps []c17P1_bn254) []Ev {
	out := make([]Ev, len(ps))
	for i := range ps {
		out[i] = d.ev1(ps[i])
	}
	return out
}
func (d *c17d_bn254) evs2(ps []c17P2_bn254) []Ev {
	out := make([]Ev, len(ps))
	for i := range ps {
		out[i] = d.ev2(ps[i])
	}
	return out
}

// a point of the curve outside the r-torsion subgroup if the group has a cofactor, else a point off the curve
func (d *c17d_bn254) off1() c17P1_bn254 {
	if p, ok := d.curveOff1(); ok {
		return c17P1_bn254{P: p}
	}
	f := reflect.ValueOf(curve.MapToCurve1)
	for k := uint64(3); k < 40; k++ {
		p := c17CallMap(f, k).Interface().(curve.G1Affine)
		if !p.IsInSubGroup() {
			return c17P1_bn254{P: p}
		}
	}
	p := d.g1
	var one = p.Y
	one.SetOne()
	p.Y.Add(&p.Y, &one)
	return c17P1_bn254{P: p}
}
// curveOff1 searches x = 1, 2, ... for a point of the curve y^2 = x^3 + b outside the prime-order subgroup (b is read off
// the generator; the map-to-curve functions of some curves land on an isogenous curve and are of no use here)
func (d *c17d_bn254) curveOff1() (curve.G1Affine, bool) {
	g := d.g1
	b, t := g.Y, g.X
	b.Square(&g.Y)
	t.Square(&g.X).Mul(&t, &g.X)
	b.Sub(&b, &t)
	for k := uint64(1); k < 200; k++ {
		var p curve.G1Affine
		p.X.SetUint64(k)
		rhs := p.X
		rhs.Square(&p.X).Mul(&rhs, &p.X).Add(&rhs, &b)
		if p.Y.Sqrt(&rhs) == nil {
			continue
		}
		if p.IsOnCurve() && !p.IsInSubGroup() {
			return p, true
		}
	}
	return g, false
}

// a non-trivial point of the cofactor torsion ([r]U for a curve point U outside the subgroup); none on cofactor-1 curves.
// Adding it to a group element changes no pairing value: only a subgroup test notices.
func (d *c17d_bn254) torsion1() (curve.G1Affine, bool) {
	u, ok := d.curveOff1()
	if !ok {
		return u, false
	}
	var t curve.G1Affine
	t.ScalarMultiplication(&u, fr.Modulus())
	return t, !t.IsInfinity()
}

func (d *c17d_bn254) off2() c17P2_bn254 {
	f := reflect.ValueOf(curve.MapToCurve2)
	for k := uint64(3); k < 40; k++ {
		p := c17CallMap(f, k).Interface().(curve.G2Affine)
		if !p.IsInSubGroup() {
			return c17P2_bn254{P: p}
		}
	}
	p := d.g2
	p.Y.Double(&p.Y)
	return c17P2_bn254{P: p}
}

func (d *c17d_bn254) sub1(src []c17P1_bn254) func(dst, other *c17P1_bn254, kind string) bool {
	return func(dst, other *c17P1_bn254, kind string) bool {
		switch kind {
		case "random":
			*dst = d.p1(d.r.Below(d.q))
		case "zero":
			*dst = d.p1(big.NewInt(0))
		case "other":
			*dst = *other
		case "shift":
			if dst.S == nil {
				return false
			}
			*dst = d.p1(new(big.Int).Add(dst.S, big.NewInt(1)))
		}
		return true
	}
}
func (d *c17d_bn254) sub2() func(dst, other *c17P2_bn254, kind string) bool {
	return func(dst, other *c17P2_bn254, kind string) bool {
		switch kind {
		case "random":
			*dst = d.p2(d.r.Below(d.q))
		case "zero":
			*dst = d.p2(big.NewInt(0))
		case "other":
			*dst = *other
		case "shift":
			if dst.S == nil {
				return false
			}
			*dst = d.p2(new(big.Int).Add(dst.S, big.NewInt(1)))
		}
		return true
	}
}

// ---------------------------------------------------------------------------------------
// Pedersen commitments with proofs of knowledge

type c17PedKey_bn254 struct {
	G, GS c17P2_bn254 // vk.G = [g] G2, vk.GSigmaNeg = [gs] G2
}

func (k c17PedKey_bn254) vk() pedersen.VerifyingKey {
	return pedersen.VerifyingKey{G: k.G.P, GSigmaNeg: k.GS.P}
}

type c17Ped_bn254 struct {
	keys []c17PedKey_bn254
	C, P []c17P1_bn254
	rho  fr.Element
}

func (d *c17d_bn254) pedEv(p *c17Ped_bn254) Ev {
	ks := make([]Ev, len(p.keys))
	for i, k := range p.keys {
		ks[i] = Ev{"G": d.ev2(k.G), "GS": d.ev2(k.GS)}
	}
	return Ev{"keys": ks, "C": d.evs1(p.C), "P": d.evs1(p.P), "rho": d.raw(p.rho)}
}

func (d *c17d_bn254) pedersenFamily() {
	tr := c17NewTrace(d.cfg, "pedersen", d.name, Ev{"fr": d.name + "/fr"})
	defer tr.close(d.cfg)
	single := c17Case[c17Ped_bn254]{
		fn: "pedersen.Verify",
		verify: func(p *c17Ped_bn254) error {
			vk := p.keys[0].vk()
			return vk.Verify(p.C[0].P, p.P[0].P)
		},
		args:  func(p *c17Ped_bn254) []any { return []any{p} },
		extra: d.pedEv,
	}
	batch := c17Case[c17Ped_bn254]{
		fn: "pedersen.BatchVerifyMultiVk",
		verify: func(p *c17Ped_bn254) error {
			vks := make([]pedersen.VerifyingKey, len(p.keys))
			for i := range vks {
				vks[i] = p.keys[i].vk()
			}
			cs := make([]curve.G1Affine, len(p.C))
			for i := range cs {
				cs[i] = p.C[i].P
			}
			ps := make([]curve.G1Affine, len(p.P))
			for i := range ps {
				ps[i] = p.P[i].P
			}
			return pedersen.BatchVerifyMultiVk(vks, cs, ps, p.rho)
		},
		args:  func(p *c17Ped_bn254) []any { return []any{p} },
		extra: d.pedEv,
	}
	neg := func(x *big.Int) *big.Int { return new(big.Int).Mod(new(big.Int).Neg(x), d.q) }
	mul := func(x, y *big.Int) *big.Int { return new(big.Int).Mod(new(big.Int).Mul(x, y), d.q) }
	g := d.r.Below(d.q)
	nk := 3
	sigma := make([]*big.Int, nk)
	keys := make([]c17PedKey_bn254, nk)
	for j := range keys {
		sigma[j] = d.r.Below(d.q)
		keys[j] = c17PedKey_bn254{G: d.p2(g), GS: d.p2(neg(mul(sigma[j], g)))}
	}
	gOther := d.r.Below(d.q)
	keyOtherG := c17PedKey_bn254{G: d.p2(gOther), GS: d.p2(neg(mul(sigma[0], gOther)))} // same sigma, another G2 point
	// proving keys with known basis scalars
	sizes := []int{1, 3, 2}
	bsc := make([][]*big.Int, nk)
	pks := make([]pedersen.ProvingKey, nk)
	for j := range pks {
		tr.scenario("pedersen")
		var B, BS []c17P1_bn254
		for i := 0; i < sizes[j]; i++ {
			b := d.r.Below(d.q)
			bsc[j] = append(bsc[j], b)
			B = append(B, d.p1(b))
			BS = append(BS, d.p1(mul(b, sigma[j])))
			pks[j].Basis = append(pks[j].Basis, B[i].P)
			pks[j].BasisExpSigma = append(pks[j].BasisExpSigma, BS[i].P)
		}
		tr.emit("PedSetup", Ev{"j": j, "sigma": digits(sigma[j]), "key": Ev{"G": d.ev2(keys[j].G), "GS": d.ev2(keys[j].GS)}, "B": d.evs1(B), "BS": d.evs1(BS)})
	}
	// honest commitments / proofs by the library on these keys: logged with the scalars so that TLC recomputes them
	type item struct{ C, P c17P1_bn254 }
	items := make([][]item, nk)
	vals := make([][][]fr.Element, nk)
	for j := 0; j < nk; j++ {
		for rep := 0; rep < 2; rep++ {
			v := d.rndVec(sizes[j])
			if j == 1 && rep == 1 {
				v = make([]fr.Element, sizes[j]) // the zero vector: commitment and proof are the point at infinity
			}
			c, err1 := pks[j].Commit(v)
			pk, err2 := pks[j].ProveKnowledge(v)
			acc := new(big.Int)
			for i := range v {
				acc.Add(acc, mul(d.big(v[i]), bsc[j][i]))
			}
			acc.Mod(acc, d.q)
			e := Ev{"j": j, "v": d.raws(v), "c": digits(acc), "C": enc(reflect.ValueOf(&c)), "Pk": enc(reflect.ValueOf(&pk))}
			if err1 != nil {
				e["errC"] = c17msg(err1)
			}
			if err2 != nil {
				e["errP"] = c17msg(err2)
			}
			tr.emit("PedCommit", e)
			items[j] = append(items[j], item{c17P1_bn254{P: c, S: acc}, c17P1_bn254{P: pk, S: mul(acc, sigma[j])}})
			vals[j] = append(vals[j], v)
		}
	}
	// ---- single verification ----
	for j := 0; j < nk; j++ {
		for rep, it := range items[j] {
			tr.scenario("pedersen")
			a := &c17Ped_bn254{keys: []c17PedKey_bn254{keys[j]}, C: []c17P1_bn254{it.C}, P: []c17P1_bn254{it.P}}
			o := items[(j+1)%nk][0]
			b := &c17Ped_bn254{keys: []c17PedKey_bn254{keys[(j+1)%nk]}, C: []c17P1_bn254{o.C}, P: []c17P1_bn254{o.P}}
			c17Honest(tr, single, a)
			if rep == 1 && j != 1 && !d.cfg.thorough() {
				continue
			}
			c17Subs(tr, single, a, b, []c17Acc[c17Ped_bn254, c17P1_bn254]{
				{"commitment", nil, func(p *c17Ped_bn254) *c17P1_bn254 { return &p.C[0] }},
				{"pok", nil, func(p *c17Ped_bn254) *c17P1_bn254 { return &p.P[0] }},
			}, d.sub1(nil), c17Kinds)
			c17Subs(tr, single, a, b, []c17Acc[c17Ped_bn254, c17P2_bn254]{
				{"vkG", nil, func(p *c17Ped_bn254) *c17P2_bn254 { return &p.keys[0].G }},
				{"vkGSigmaNeg", nil, func(p *c17Ped_bn254) *c17P2_bn254 { return &p.keys[0].GS }},
			}, d.sub2(), []string{"random", "other", "shift"})
			// offgroup: commitment / proof outside the subgroup (or off the curve when the group has no cofactor)
			p := single.cp(a)
			p.C[0] = d.off1()
			c17Forged(tr, single, "offgroup", p)
			p = single.cp(a)
			p.P[0] = d.off1()
			c17Forged(tr, single, "offgroup", p)
			if t, ok := d.torsion1(); ok {
				p = single.cp(a)
				p.C[0].P.Add(&p.C[0].P, &t)
				p.C[0].S = nil // outside the subgroup: no discrete logarithm
				c17Forged(tr, single, "offgroup", p)
				p = single.cp(a)
				p.P[0].P.Add(&p.P[0].P, &t)
				p.P[0].S = nil
				c17Forged(tr, single, "offgroup", p)
			}
			// wrongsigma: the proof of knowledge made with another trapdoor
			p = single.cp(a)
			p.P[0] = d.p1(mul(it.C.S, sigma[(j+1)%nk]))
			c17Forged(tr, single, "wrongsigma", p)
		}
	}
	// ---- batch verification ----
	for n := 0; n <= nk; n++ {
		for _, folded := range []bool{false, true} {
			if n == 0 && !folded {
				continue
			}
			tr.scenario("pedersenbatch")
			a := &c17Ped_bn254{rho: d.rnd()}
			var vv [][]fr.Element
			for j := 0; j < n; j++ {
				a.keys = append(a.keys, keys[j])
				a.C = append(a.C, items[j][0].C)
				a.P = append(a.P, items[j][0].P)
				vv = append(vv, vals[j][0])
			}
			if folded {
				pok, err := pedersen.BatchProve(pks[:n], vv, a.rho)
				// the folded proof: sum_i rho^i sigma_i c_i
				acc, pw := new(big.Int), big.NewInt(1)
				for j := 0; j < n; j++ {
					acc.Add(acc, mul(pw, a.P[j].S))
					pw = mul(pw, d.big(a.rho))
				}
				acc.Mod(acc, d.q)
				e := Ev{"js": n, "rho": d.raw(a.rho), "p": digits(acc), "Pk": enc(reflect.ValueOf(&pok))}
				if err != nil {
					e["err"] = c17msg(err)
				}
				tr.emit("PedBatchProve", e)
				a.P = []c17P1_bn254{{P: pok, S: acc}}
			}
			c17Honest(tr, batch, a)
			if n == 0 {
				continue
			}
			b := &c17Ped_bn254{rho: d.rnd()}
			for j := 0; j < n; j++ {
				b.keys = append(b.keys, keys[(j+1)%nk])
				b.C = append(b.C, items[(j+1)%nk][1].C)
				b.P = append(b.P, items[(j+1)%nk][1].P)
			}
			last := n - 1
			lp := len(a.P) - 1
			kinds := c17Kinds
			if n == 2 && !d.cfg.thorough() {
				kinds = []string{"random", "shift"}
			}
			c17Subs(tr, batch, a, b, []c17Acc[c17Ped_bn254, c17P1_bn254]{
				{"commitment", []int{0}, func(p *c17Ped_bn254) *c17P1_bn254 { return &p.C[0] }},
				{"commitment", []int{last}, func(p *c17Ped_bn254) *c17P1_bn254 { return &p.C[last] }},
				{"pok", []int{lp}, func(p *c17Ped_bn254) *c17P1_bn254 { return &p.P[lp] }},
			}, d.sub1(nil), kinds)
			if n > 1 {
				c17Subs(tr, batch, a, b, []c17Acc[c17Ped_bn254, fr.Element]{{"coeff", nil, func(p *c17Ped_bn254) *fr.Element { return &p.rho }}}, d.subFr(), kinds)
				c17Subs(tr, batch, a, b, []c17Acc[c17Ped_bn254, c17P2_bn254]{
					{"vkGi", []int{last}, func(p *c17Ped_bn254) *c17P2_bn254 { return &p.keys[last].G }},
				}, d.sub2(), []string{"random", "shift"})
				p := batch.cp(a)
				p.keys[last] = keyOtherG
				tr.verify(batch.fn, []c17Op{{K: "sub", C: "vkGi", S: "other", At: []int{last}, Old: c17snap(&a.keys[last]), New: c17snap(&p.keys[last])}}, d.pedEv(p), batch.args(p), func() error { return batch.verify(p) })
			}
			c17Subs(tr, batch, a, b, []c17Acc[c17Ped_bn254, c17P2_bn254]{
				{"vkGSigmaNeg", []int{last}, func(p *c17Ped_bn254) *c17P2_bn254 { return &p.keys[last].GS }},
				{"vkG0", nil, func(p *c17Ped_bn254) *c17P2_bn254 { return &p.keys[0].G }},
			}, d.sub2(), []string{"random", "shift"})
			p := batch.cp(a)
			p.C = p.C[:last]
			c17Forged(tr, batch, "lencommitments", p)
			if n == 3 && !folded {
				p = batch.cp(a)
				p.P = p.P[:2]
				c17Forged(tr, batch, "lenpok", p)
			}
			p = batch.cp(a)
			p.C[last] = d.off1()
			c17Forged(tr, batch, "offgroup", p)
			p = batch.cp(a)
			p.P[lp] = d.off1()
			c17Forged(tr, batch, "offgroup", p)
			if t, ok := d.torsion1(); ok {
				// honest elements shifted by a cofactor-torsion point, at the first and at the last position
				for _, i := range []int{0, last} {
					p = batch.cp(a)
					p.C[i].P.Add(&p.C[i].P, &t)
					p.C[i].S = nil // outside the subgroup: no discrete logarithm
					c17Forged(tr, batch, "offgroup", p)
				}
				p = batch.cp(a)
				p.P[lp].P.Add(&p.P[lp].P, &t)
				p.P[lp].S = nil
				c17Forged(tr, batch, "offgroup", p)
			}
		}
	}
	// ---- the library's own Setup (trapdoor unknown): judged by the operator table only ----
	{
		tr.scenario("pedersen")
		bases := [][]curve.G1Affine{{d.mulG1(d.r.Below(d.q)), d.mulG1(d.r.Below(d.q))}, {d.mulG1(d.r.Below(d.q))}}
		lpk, lvk, err := pedersen.Setup(bases)
		if err != nil {
			tr.emit("Prove", Ev{"fn": "pedersen.Setup", "err": c17msg(err)})
			return
		}
		tr.emit("Prove", Ev{"fn": "pedersen.Setup", "lib": true})
		vs := [][]fr.Element{d.rndVec(2), d.rndVec(1)}
		var cs, ps []c17P1_bn254
		for i := range lpk {
			c, _ := lpk[i].Commit(vs[i])
			p, _ := lpk[i].ProveKnowledge(vs[i])
			cs, ps = append(cs, c17P1_bn254{P: c}), append(ps, c17P1_bn254{P: p})
		}
		lk := c17PedKey_bn254{G: c17P2_bn254{P: lvk.G}, GS: c17P2_bn254{P: lvk.GSigmaNeg}}
		for i := range lpk {
			a := &c17Ped_bn254{keys: []c17PedKey_bn254{lk}, C: cs[i : i+1], P: ps[i : i+1]}
			b := &c17Ped_bn254{keys: []c17PedKey_bn254{lk}, C: cs[1-i : 2-i], P: ps[1-i : 2-i]}
			c17Honest(tr, single, a)
			c17Subs(tr, single, a, b, []c17Acc[c17Ped_bn254, c17P1_bn254]{
				{"commitment", nil, func(p *c17Ped_bn254) *c17P1_bn254 { return &p.C[0] }},
				{"pok", nil, func(p *c17Ped_bn254) *c17P1_bn254 { return &p.P[0] }},
			}, d.sub1(nil), []string{"random", "zero", "other"})
		}
		tr.scenario("pedersenbatch")
		rho := d.rnd()
		a := &c17Ped_bn254{keys: []c17PedKey_bn254{lk, lk}, C: cs, P: ps, rho: rho}
		c17Honest(tr, batch, a)
		if pok, err := pedersen.BatchProve(lpk, vs, rho); err == nil {
			a2 := &c17Ped_bn254{keys: []c17PedKey_bn254{lk, lk}, C: cs, P: []c17P1_bn254{{P: pok}}, rho: rho}
			c17Honest(tr, batch, a2)
			c17Subs(tr, batch, a2, nil, []c17Acc[c17Ped_bn254, fr.Element]{{"coeff", nil, func(p *c17Ped_bn254) *fr.Element { return &p.rho }}}, d.subFr(), []string{"random", "shift"})
		}
	}
}

// ---------------------------------------------------------------------------------------
// setup ceremony: update proofs, same-ratio checks, KZG ceremony

type c17Upd_bn254 struct {
	proof     mpcsetup.UpdateProof
	x         *big.Int // dlog of the contribution commitment in the proof (nil: unknown)
	challenge []byte
	dst       byte
	g1p, g1n  []c17P1_bn254 // single G1 representation (0 or 1 element), previous / next
	g2p, g2n  []c17P2_bn254
	v1p, v1n  []c17P1_bn254 // vector representation in G1
	v2p, v2n  []c17P2_bn254
}

func (d *c17d_bn254) pts1(v []c17P1_bn254) []curve.G1Affine {
	out := make([]curve.G1Affine, len(v))
	for i := range v {
		out[i] = v[i].P
	}
	return out
}
func (d *c17d_bn254) pts2(v []c17P2_bn254) []curve.G2Affine {
	out := make([]curve.G2Affine, len(v))
	for i := range v {
		out[i] = v[i].P
	}
	return out
}

func (d *c17d_bn254) updReprs(p *c17Upd_bn254) []mpcsetup.ValueUpdate {
	var r []mpcsetup.ValueUpdate
	// a single value may be handed over by value or by pointer (both documented); the form is fixed per case by the challenge
	form := byte(0)
	if len(p.challenge) > 0 {
		form = p.challenge[0]
	}
	if len(p.g1p) > 0 {
		a, b := p.g1p[0].P, p.g1n[0].P
		if form&1 == 0 {
			r = append(r, mpcsetup.ValueUpdate{Previous: &a, Next: &b})
		} else {
			r = append(r, mpcsetup.ValueUpdate{Previous: a, Next: b})
		}
	}
	if len(p.g2p) > 0 {
		a, b := p.g2p[0].P, p.g2n[0].P
		if form&2 == 0 {
			r = append(r, mpcsetup.ValueUpdate{Previous: &a, Next: &b})
		} else {
			r = append(r, mpcsetup.ValueUpdate{Previous: a, Next: b})
		}
	}
	if len(p.v1p) > 0 {
		r = append(r, mpcsetup.ValueUpdate{Previous: d.pts1(p.v1p), Next: d.pts1(p.v1n)})
	}
	if len(p.v2p) > 0 {
		r = append(r, mpcsetup.ValueUpdate{Previous: d.pts2(p.v2p), Next: d.pts2(p.v2n)})
	}
	return r
}

func (d *c17d_bn254) updEv(p *c17Upd_bn254) Ev {
	cm := *c17field[curve.G1Affine](&p.proof, "contributionCommitment")
	pk := *c17field[curve.G2Affine](&p.proof, "contributionPok")
	// the base of the proof of knowledge, as mpcsetup.pokBase derives it (hash to G2 of commitment || challenge)
	R, err := curve.HashToG2(append(append([]byte{}, cm.Marshal()...), p.challenge...), []byte{p.dst})
	e := Ev{"commit": d.ev1(c17P1_bn254{P: cm, S: p.x}), "pok": enc(reflect.ValueOf(&pk)), "R": enc(reflect.ValueOf(&R)),
		"g1p": d.evs1(append(append([]c17P1_bn254{}, p.g1p...), p.v1p...)), "g1n": d.evs1(append(append([]c17P1_bn254{}, p.g1n...), p.v1n...)),
		"g2p": d.evs2(append(append([]c17P2_bn254{}, p.g2p...), p.v2p...)), "g2n": d.evs2(append(append([]c17P2_bn254{}, p.g2n...), p.v2n...)),
		"lens": []int{len(p.g1p), len(p.g1n), len(p.g2p), len(p.g2n), len(p.v1p), len(p.v1n), len(p.v2p), len(p.v2n)}}
	if err != nil {
		e["Rerr"] = c17msg(err)
	}
	return e
}

type c17Ratio_bn254 struct {
	g1 [][]c17P1_bn254
	g2 [][]c17P2_bn254
}

type c17Kzg_bn254 struct {
	prev, next *kzg.MpcSetup
}

func (d *c17d_bn254) kzgClone(s *kzg.MpcSetup) *kzg.MpcSetup {
	n := c17clone(*s)
	return &n
}
func (d *c17d_bn254) kzgSrs(s *kzg.MpcSetup) *kzg.SRS { return c17field[kzg.SRS](s, "srs") }

func (d *c17d_bn254) mpcFamily() {
	tr := c17NewTrace(d.cfg, "mpcsetup", d.name, Ev{"fr": d.name + "/fr"})
	defer tr.close(d.cfg)
	mulq := func(x, y *big.Int) *big.Int { return new(big.Int).Mod(new(big.Int).Mul(x, y), d.q) }

	// ---- UpdateProof.Verify ----
	cu := c17Case[c17Upd_bn254]{
		fn:     "mpcsetup.UpdateProof.Verify",
		verify: func(p *c17Upd_bn254) error { return p.proof.Verify(p.challenge, p.dst, d.updReprs(p)...) },
		args:   func(p *c17Upd_bn254) []any { return []any{p} },
		extra:  d.updEv,
	}
	type ushape struct{ g1, g2, v1, v2 int }
	ushapes := []ushape{{1, 1, 0, 0}, {0, 1, 0, 0}, {1, 0, 2, 0}, {0, 1, 3, 2}}
	mkUpd := func(sh ushape) *c17Upd_bn254 {
		p := &c17Upd_bn254{challenge: d.r.Bytes(32), dst: byte(d.r.Intn(4))}
		x := d.r.Below(d.q)
		p.x = x
		rp1 := func(n int) (a, b []c17P1_bn254) {
			for i := 0; i < n; i++ {
				k := d.r.Below(d.q)
				a, b = append(a, d.p1(k)), append(b, c17P1_bn254{S: mulq(k, x)})
			}
			return
		}
		rp2 := func(n int) (a, b []c17P2_bn254) {
			for i := 0; i < n; i++ {
				k := d.r.Below(d.q)
				a, b = append(a, d.p2(k)), append(b, c17P2_bn254{S: mulq(k, x)})
			}
			return
		}
		p.g1p, p.g1n = rp1(sh.g1)
		p.g2p, p.g2n = rp2(sh.g2)
		p.v1p, p.v1n = rp1(sh.v1)
		p.v2p, p.v2n = rp2(sh.v2)
		// the library updates copies of the previous values in place
		var reprs []any
		n1 := d.pts1(p.g1p)
		n2 := d.pts2(p.g2p)
		w1 := d.pts1(p.v1p)
		w2 := d.pts2(p.v2p)
		if sh.g1 > 0 {
			reprs = append(reprs, &n1[0])
		}
		if sh.g2 > 0 {
			reprs = append(reprs, &n2[0])
		}
		if sh.v1 > 0 {
			reprs = append(reprs, w1)
		}
		if sh.v2 > 0 {
			reprs = append(reprs, w2)
		}
		var xe fr.Element
		xe.SetBigInt(x)
		p.proof = mpcsetup.UpdateValues(&xe, p.challenge, p.dst, reprs...)
		for i := range p.g1n {
			p.g1n[i].P = n1[i]
		}
		for i := range p.g2n {
			p.g2n[i].P = n2[i]
		}
		for i := range p.v1n {
			p.v1n[i].P = w1[i]
		}
		for i := range p.v2n {
			p.v2n[i].P = w2[i]
		}
		return p
	}
	for si, sh := range ushapes {
		tr.scenario("mpcupdate")
		a, b := mkUpd(sh), mkUpd(sh)
		tr.emit("Prove", Ev{"fn": "mpcsetup.UpdateValues", "x": digits(a.x)})
		c17Honest(tr, cu, a)
		kinds := []string{"random", "shift"}
		if si == 0 || d.cfg.thorough() {
			kinds = c17Kinds
		}
		// the contribution commitment [x]G1 and the proof of knowledge [x]R
		for _, kind := range kinds {
			p := cu.cp(a)
			cm := c17field[curve.G1Affine](&p.proof, "contributionCommitment")
			old := c17snap(cm)
			switch kind {
			case "random":
				p.x = d.r.Below(d.q)
			case "zero":
				p.x = big.NewInt(0)
			case "other":
				p.x = b.x
			case "shift":
				p.x = new(big.Int).Add(a.x, big.NewInt(1))
			}
			*cm = d.mulG1(p.x)
			tr.verify(cu.fn, []c17Op{{K: "sub", C: "commitment", S: kind, Old: old, New: c17snap(cm)}}, d.updEv(p), cu.args(p), func() error { return cu.verify(p) })
		}
		c17Subs(tr, cu, a, b, []c17Acc[c17Upd_bn254, curve.G2Affine]{
			{"pok", nil, func(p *c17Upd_bn254) *curve.G2Affine { return c17field[curve.G2Affine](&p.proof, "contributionPok") }},
		}, d.subG2(), kinds)
		c17Subs(tr, cu, a, b, []c17Acc[c17Upd_bn254, []byte]{{"challenge", nil, func(p *c17Upd_bn254) *[]byte { return &p.challenge }}}, c17SubBytes(d.r), []string{"random", "shift"})
		{
			p := cu.cp(a)
			p.dst++
			tr.verify(cu.fn, []c17Op{{K: "sub", C: "dst", S: "shift", Old: c17snap(a.dst), New: c17snap(p.dst)}}, d.updEv(p), cu.args(p), func() error { return cu.verify(p) })
		}
		var a1 []c17Acc[c17Upd_bn254, c17P1_bn254]
		var a2 []c17Acc[c17Upd_bn254, c17P2_bn254]
		if sh.g1 > 0 {
			a1 = append(a1, c17Acc[c17Upd_bn254, c17P1_bn254]{"g1next", []int{0}, func(p *c17Upd_bn254) *c17P1_bn254 { return &p.g1n[0] }},
				c17Acc[c17Upd_bn254, c17P1_bn254]{"g1prev", []int{0}, func(p *c17Upd_bn254) *c17P1_bn254 { return &p.g1p[0] }})
		}
		if sh.v1 > 0 {
			l := sh.v1 - 1
			a1 = append(a1, c17Acc[c17Upd_bn254, c17P1_bn254]{"g1next", []int{1, l}, func(p *c17Upd_bn254) *c17P1_bn254 { return &p.v1n[l] }},
				c17Acc[c17Upd_bn254, c17P1_bn254]{"g1prev", []int{1, 0}, func(p *c17Upd_bn254) *c17P1_bn254 { return &p.v1p[0] }})
		}
		if sh.g2 > 0 {
			a2 = append(a2, c17Acc[c17Upd_bn254, c17P2_bn254]{"g2next", []int{0}, func(p *c17Upd_bn254) *c17P2_bn254 { return &p.g2n[0] }},
				c17Acc[c17Upd_bn254, c17P2_bn254]{"g2prev", []int{0}, func(p *c17Upd_bn254) *c17P2_bn254 { return &p.g2p[0] }})
		}
		if sh.v2 > 0 {
			l := sh.v2 - 1
			a2 = append(a2, c17Acc[c17Upd_bn254, c17P2_bn254]{"g2next", []int{1, l}, func(p *c17Upd_bn254) *c17P2_bn254 { return &p.v2n[l] }})
		}
		c17Subs(tr, cu, a, b, a1, d.sub1(nil), kinds)
		c17Subs(tr, cu, a, b, a2, d.sub2(), kinds)
		// targeted
		{
			p := cu.cp(a) // proof of knowledge outside the subgroup
			*c17field[curve.G2Affine](&p.proof, "contributionPok") = d.off2().P
			c17Forged(tr, cu, "offgroup", p)
			p = cu.cp(a) // the contribution commitment outside the subgroup / off the curve
			*c17field[curve.G1Affine](&p.proof, "contributionCommitment") = d.off1().P
			p.x = nil
			c17Forged(tr, cu, "offgroup", p)
			if tor, ok := d.torsion1(); ok {
				// the contribution commitment shifted by a cofactor-torsion point. (The updated values themselves are not shifted:
				// UpdateProof.Verify documents that it does not subgroup check the representations - its callers do, see the
				// torsion-shifted powers handed to kzg.MpcSetup.Verify.)
				p = cu.cp(a)
				cc := c17field[curve.G1Affine](&p.proof, "contributionCommitment")
				cc.Add(cc, &tor)
				p.x = nil
				c17Forged(tr, cu, "offgroup", p)
			}
			if sh.v1 > 1 {
				p = cu.cp(a)
				p.v1n = p.v1n[:sh.v1-1]
				c17Forged(tr, cu, "lenmismatch", p)
			}
			// wrongpok: a consistent update by x' with the commitment [x'] but the proof of knowledge of x
			o := cu.cp(b)
			*c17field[curve.G2Affine](&o.proof, "contributionPok") = *c17field[curve.G2Affine](&a.proof, "contributionPok")
			c17Forged(tr, cu, "wrongpok", o)
		}
	}

	// ---- SameRatioMany ----
	cr := c17Case[c17Ratio_bn254]{
		fn: "mpcsetup.SameRatioMany",
		verify: func(p *c17Ratio_bn254) error {
			var sl []any
			for i := range p.g1 {
				sl = append(sl, d.pts1(p.g1[i]))
			}
			for i := range p.g2 {
				sl = append(sl, d.pts2(p.g2[i]))
			}
			return mpcsetup.SameRatioMany(sl...)
		},
		args: func(p *c17Ratio_bn254) []any { return []any{p} },
		extra: func(p *c17Ratio_bn254) Ev {
			g1 := make([][]Ev, len(p.g1))
			for i := range p.g1 {
				g1[i] = d.evs1(p.g1[i])
			}
			g2 := make([][]Ev, len(p.g2))
			for i := range p.g2 {
				g2[i] = d.evs2(p.g2[i])
			}
			return Ev{"g1": g1, "g2": g2}
		},
	}
	geo1 := func(a, rho *big.Int, n int) []c17P1_bn254 {
		out := make([]c17P1_bn254, n)
		for i := range out {
			out[i] = d.p1(a)
			a = mulq(a, rho)
		}
		return out
	}
	geo2 := func(a, rho *big.Int, n int) []c17P2_bn254 {
		out := make([]c17P2_bn254, n)
		for i := range out {
			out[i] = d.p2(a)
			a = mulq(a, rho)
		}
		return out
	}
	type rshape struct {
		l1, l2     []int
		honestOnly bool
	}
	// admissible shapes: every slice has at least two elements. The last two start a group with a slice of length two.
	rshapes := []rshape{{[]int{2}, []int{2}, false}, {[]int{4, 2}, []int{3}, false}, {[]int{3}, []int{3, 2}, false},
		{[]int{3}, []int{2, 3}, false}, {[]int{2, 2}, []int{2}, true}, {[]int{3}, []int{3}, false}, {[]int{4}, []int{4}, false}}
	for _, sh := range rshapes {
		tr.scenario("mpcratio")
		rho, rho2 := d.r.Below(d.q), d.r.Below(d.q)
		mk := func(rh *big.Int) *c17Ratio_bn254 {
			p := &c17Ratio_bn254{}
			for _, l := range sh.l1 {
				p.g1 = append(p.g1, geo1(d.r.Below(d.q), rh, l))
			}
			for _, l := range sh.l2 {
				p.g2 = append(p.g2, geo2(d.r.Below(d.q), rh, l))
			}
			return p
		}
		a, b := mk(rho), mk(rho2)
		c17Honest(tr, cr, a)
		if sh.honestOnly {
			continue
		}
		i1, i2 := len(sh.l1)-1, len(sh.l2)-1
		e1, e2 := sh.l1[i1]-1, sh.l2[i2]-1
		c17Subs(tr, cr, a, b, []c17Acc[c17Ratio_bn254, c17P1_bn254]{
			{"g1elem", []int{i1, e1}, func(p *c17Ratio_bn254) *c17P1_bn254 { return &p.g1[i1][e1] }},
			{"g1elem", []int{0, 0}, func(p *c17Ratio_bn254) *c17P1_bn254 { return &p.g1[0][0] }},
		}, d.sub1(nil), []string{"random", "other", "shift"})
		c17Subs(tr, cr, a, b, []c17Acc[c17Ratio_bn254, c17P2_bn254]{
			{"g2elem", []int{i2, e2}, func(p *c17Ratio_bn254) *c17P2_bn254 { return &p.g2[i2][e2] }},
		}, d.sub2(), []string{"random", "other", "shift"})
		p := cr.cp(a)
		p.g1[i1] = p.g1[i1][:1]
		c17Forged(tr, cr, "shortslice", p)
		p = cr.cp(a)
		p.g2 = nil
		c17Forged(tr, cr, "onegroup", p)
		p = cr.cp(a)
		p.g1 = nil
		c17Forged(tr, cr, "onegroup", p)
		p = cr.cp(a) // every G2 sequence starts with the point at infinity
		for i := range p.g2 {
			p.g2[i] = geo2(big.NewInt(0), rho, len(p.g2[i]))
		}
		c17Forged(tr, cr, "zerofirst", p)
		if len(sh.l1) == 1 && len(sh.l2) == 1 && sh.l1[0] == sh.l2[0] && sh.l1[0] >= 3 {
			// mirrored: the same non-geometric exponents (1, 2, 5, 7) in both groups - each sequence alone is refused, and
			// so must the pair be (a verifier that folds both groups with the same random weights accepts it)
			p = cr.cp(a)
			mults := []int64{1, 2, 5, 7}
			a1, a2 := d.r.Below(d.q), d.r.Below(d.q)
			for i := range p.g1[0] {
				p.g1[0][i] = d.p1(mulq(a1, big.NewInt(mults[i])))
				p.g2[0][i] = d.p2(mulq(a2, big.NewInt(mults[i])))
			}
			c17Forged(tr, cr, "mirrored", p)
		}
		p = cr.cp(a) // one sequence is geometric with another ratio
		p.g1[i1] = geo1(d.r.Below(d.q), rho2, len(p.g1[i1]))
		c17Forged(tr, cr, "otherratio", p)
		p = cr.cp(a)
		p.g2[i2] = geo2(d.r.Below(d.q), rho2, len(p.g2[i2]))
		c17Forged(tr, cr, "otherratio", p)
	}

	// ---- KZG ceremony: MpcSetup.Verify(next) ----
	ck := c17Case[c17Kzg_bn254]{
		clone: func(p *c17Kzg_bn254) *c17Kzg_bn254 {
			return &c17Kzg_bn254{prev: d.kzgClone(p.prev), next: d.kzgClone(p.next)}
		},
		fn:     "kzg.MpcSetup.Verify",
		verify: func(p *c17Kzg_bn254) error { return p.prev.Verify(p.next) },
		// Verify stores the recomputed challenge in next: only the srs and the proof of next are compared
		args: func(p *c17Kzg_bn254) []any {
			return []any{p.prev, d.kzgSrs(p.next), c17field[mpcsetup.UpdateProof](p.next, "proof")}
		},
	}
	for _, N := range []int{2, 5} {
		s0 := kzg.InitializeSetup(N)
		chain := []*kzg.MpcSetup{&s0}
		for k := 0; k < 2; k++ {
			nx := d.kzgClone(chain[k])
			nx.Contribute()
			chain = append(chain, nx)
		}
		other := kzg.InitializeSetup(N)
		o1 := d.kzgClone(&other)
		o1.Contribute()
		o2 := d.kzgClone(o1)
		o2.Contribute()
		for k := 0; k < 2; k++ {
			tr.scenario("mpckzg")
			tr.emit("Prove", Ev{"fn": "kzg.MpcSetup.Contribute", "N": N, "step": k})
			a := &c17Kzg_bn254{prev: chain[k], next: chain[k+1]}
			b := &c17Kzg_bn254{prev: o1, next: o2}
			c17Honest(tr, ck, a)
			if k == 0 && !d.cfg.thorough() {
				continue
			}
			l := N - 1
			c17Subs(tr, ck, a, b, []c17Acc[c17Kzg_bn254, curve.G1Affine]{
				{"g1power", []int{1}, func(p *c17Kzg_bn254) *curve.G1Affine { return &d.kzgSrs(p.next).Pk.G1[1] }},
				{"g1power", []int{l}, func(p *c17Kzg_bn254) *curve.G1Affine { return &d.kzgSrs(p.next).Pk.G1[l] }},
				{"proofcommitment", nil, func(p *c17Kzg_bn254) *curve.G1Affine {
					return c17field[curve.G1Affine](c17field[mpcsetup.UpdateProof](p.next, "proof"), "contributionCommitment")
				}},
			}, d.subG1(), c17Kinds)
			c17Subs(tr, ck, a, b, []c17Acc[c17Kzg_bn254, curve.G2Affine]{
				{"g2", nil, func(p *c17Kzg_bn254) *curve.G2Affine { return &d.kzgSrs(p.next).Vk.G2[1] }},
				{"proofpok", nil, func(p *c17Kzg_bn254) *curve.G2Affine {
					return c17field[curve.G2Affine](c17field[mpcsetup.UpdateProof](p.next, "proof"), "contributionPok")
				}},
			}, d.subG2(), c17Kinds)
			c17Subs(tr, ck, a, b, []c17Acc[c17Kzg_bn254, []byte]{
				{"challenge", nil, func(p *c17Kzg_bn254) *[]byte { return c17field[[]byte](p.next, "challenge") }},
			}, func(dst, other *[]byte, kind string) bool {
				if kind == "zero" {
					*dst = nil // "not provided"
					return true
				}
				return c17SubBytes(d.r)(dst, other, kind)
			}, c17Kinds)
			p := ck.cp(a)
			sr := d.kzgSrs(p.next)
			sr.Pk.G1 = sr.Pk.G1[:l]
			c17Forged(tr, ck, "sizemismatch", p)
			p = ck.cp(a)
			d.kzgSrs(p.next).Pk.G1[l] = d.off1().P
			c17Forged(tr, ck, "offgroup", p)
			p = ck.cp(a)
			d.kzgSrs(p.next).Vk.G2[1] = d.off2().P
			c17Forged(tr, ck, "offgroup", p)
			if tor, ok := d.torsion1(); ok {
				// an honest power shifted by a cofactor-torsion point (the pairings are blind to the shift), at the first
				// updated power, in the middle and at the last one
				g1s := d.kzgSrs(a.next).Pk.G1
				for _, i := range []int{1, len(g1s) / 2, len(g1s) - 1} {
					if i < 1 || i >= len(g1s) {
						continue
					}
					p = ck.cp(a)
					q := &d.kzgSrs(p.next).Pk.G1[i]
					q.Add(q, &tor)
					c17Forged(tr, ck, "offgroup", p)
				}
			}
			if N > 2 {
				p = ck.cp(a) // two powers exchanged: every element stays in the subgroup, the sequence is not geometric
				sr = d.kzgSrs(p.next)
				sr.Pk.G1[1], sr.Pk.G1[2] = sr.Pk.G1[2], sr.Pk.G1[1]
				c17Forged(tr, ck, "notgeometric", p)
			}
			{
				// rescaled: a consistent srs for y*tau, with the update proof of the honest contribution
				p = ck.cp(a)
				sr = d.kzgSrs(p.next)
				y := d.rnd()
				yb := d.big(y)
				sr.Vk.G2[1].ScalarMultiplication(&sr.Vk.G2[1], yb)
				mpcsetup.UpdateMonomialsG1(sr.Pk.G1, &y)
				c17Forged(tr, ck, "rescaled", p)
			}
		}
	}
}
