package main

// Construction of cyclotomic-subgroup elements with a VANISHING middle coordinate at cryptographic size
// (input construction only; the trace specification re-verifies membership and judges every reply).
//
// The top level of every pairing tower is K^6 for K = F_{p^m} (m = n/6): x = (g0 + g1 v + g2 v^2) + (g3 + g4 v + g5 v^2) w.
// The easy part of the final exponentiation, e(y) = (conj(y)/y)^(p^m + 1), maps into the cyclotomic subgroup, and both
// conj and s = Frobenius^m are K-linear. For y(t) = A + t B with t in K:
//     e(y(t)) = N(t) / D(t),   N(t) = conj(y(t)) s(conj(y(t))),   D(t) = y(t) s(y(t))         (quadratic in t)
//             = N(t) adj(D(t)) / Nm(D(t)),   adj(D) = prod_{k=1..5} s^k(D)  (degree 10),  Nm(D(t)) in K[t].
// Hence  P_i(t) = g_i(e(y(t))) * Nm(D(t))  is a polynomial of degree <= 12 over K; it is recovered by interpolation at 13
// points (with the library's own arithmetic) and a root t0 in K - found with gcd(T^|K| - T, P) and equal-degree splitting -
// gives the cyclotomic element e(y(t0)) whose coordinate g_i is exactly zero. These are the operands on which the degenerate
// branches of Karabina's decompression are taken; random elements never reach them.

import (
	"fmt"
	"math/big"
	"os"
	"reflect"
)

// c06KField: arithmetic of the coordinate field K through the methods of its Go type (fp.Element, E2 or E4)
type c06KField struct {
	t reflect.Type
	q *big.Int // |K|
	c *c06Ctx
}

func (k c06KField) op(name string, args ...reflect.Value) reflect.Value {
	z := reflect.New(k.t)
	z.MethodByName(name).Call(args)
	return z
}
func (k c06KField) zero() reflect.Value         { return reflect.New(k.t) }
func (k c06KField) one() reflect.Value          { return k.c.konst(k.t, 1) }
func (k c06KField) isZero(a reflect.Value) bool { return a.MethodByName("IsZero").Call(nil)[0].Bool() }
func (k c06KField) add(a, b reflect.Value) reflect.Value { return k.op("Add", a, b) }
func (k c06KField) sub(a, b reflect.Value) reflect.Value { return k.op("Sub", a, b) }
func (k c06KField) mul(a, b reflect.Value) reflect.Value { return k.op("Mul", a, b) }
func (k c06KField) inv(a reflect.Value) reflect.Value    { return k.op("Inverse", a) }
func (k c06KField) neg(a reflect.Value) reflect.Value    { return k.op("Neg", a) }

type c06KPoly []reflect.Value // coefficient of T^i at index i, no trailing zero coefficient

func (k c06KField) trim(a c06KPoly) c06KPoly {
	for len(a) > 0 && k.isZero(a[len(a)-1]) {
		a = a[:len(a)-1]
	}
	return a
}

func (k c06KField) padd(a, b c06KPoly, sub bool) c06KPoly {
	n := len(a)
	if len(b) > n {
		n = len(b)
	}
	out := make(c06KPoly, n)
	for i := range out {
		x, y := k.zero(), k.zero()
		if i < len(a) {
			x = a[i]
		}
		if i < len(b) {
			y = b[i]
		}
		if sub {
			out[i] = k.sub(x, y)
		} else {
			out[i] = k.add(x, y)
		}
	}
	return k.trim(out)
}

func (k c06KField) pmul(a, b c06KPoly) c06KPoly {
	if len(a) == 0 || len(b) == 0 {
		return nil
	}
	out := make(c06KPoly, len(a)+len(b)-1)
	for i := range out {
		out[i] = k.zero()
	}
	for i := range a {
		for j := range b {
			out[i+j] = k.add(out[i+j], k.mul(a[i], b[j]))
		}
	}
	return k.trim(out)
}

func (k c06KField) monic(a c06KPoly) c06KPoly {
	a = k.trim(a)
	if len(a) == 0 {
		return a
	}
	li := k.inv(a[len(a)-1])
	out := make(c06KPoly, len(a))
	for i := range a {
		out[i] = k.mul(a[i], li)
	}
	return out
}

// pmod: a mod m for a monic m
func (k c06KField) pmod(a, m c06KPoly) c06KPoly {
	a = append(c06KPoly{}, k.trim(a)...)
	d := len(m) - 1
	for len(a)-1 >= d && len(a) > 0 {
		lc := a[len(a)-1]
		sh := len(a) - 1 - d
		for i := 0; i <= d; i++ {
			a[sh+i] = k.sub(a[sh+i], k.mul(lc, m[i]))
		}
		a = k.trim(a)
	}
	return a
}

func (k c06KField) pgcd(a, b c06KPoly) c06KPoly {
	a, b = k.trim(a), k.trim(b)
	for len(b) > 0 {
		b = k.monic(b)
		a, b = b, k.pmod(a, b)
	}
	return k.monic(a)
}

// ppow: base^e mod m (m monic)
func (k c06KField) ppow(base c06KPoly, e *big.Int, m c06KPoly) c06KPoly {
	res := c06KPoly{k.one()}
	base = k.pmod(base, m)
	for i := e.BitLen() - 1; i >= 0; i-- {
		res = k.pmod(k.pmul(res, res), m)
		if e.Bit(i) == 1 {
			res = k.pmod(k.pmul(res, base), m)
		}
	}
	return res
}

func (k c06KField) eval(p c06KPoly, x reflect.Value) reflect.Value {
	acc := k.zero()
	for i := len(p) - 1; i >= 0; i-- {
		acc = k.add(k.mul(acc, x), p[i])
	}
	return acc
}

// interpolate returns the polynomial of degree < len(xs) through (xs[i], ys[i]) (Lagrange)
func (k c06KField) interpolate(xs, ys []reflect.Value) c06KPoly {
	var out c06KPoly
	for i := range xs {
		num := c06KPoly{k.one()}
		den := k.one()
		for j := range xs {
			if j == i {
				continue
			}
			num = k.pmul(num, c06KPoly{k.neg(xs[j]), k.one()})
			den = k.mul(den, k.sub(xs[i], xs[j]))
		}
		sc := k.mul(ys[i], k.inv(den))
		term := make(c06KPoly, len(num))
		for t := range num {
			term[t] = k.mul(num[t], sc)
		}
		out = k.padd(out, k.trim(term), false)
	}
	return out
}

// root returns a root of p in K, if any
func (k c06KField) root(p c06KPoly) (reflect.Value, bool) {
	p = k.monic(p)
	if len(p) < 2 {
		return reflect.Value{}, false
	}
	T := c06KPoly{k.zero(), k.one()}
	h := k.ppow(T, k.q, p)
	g := k.pgcd(k.padd(h, T, true), p) // product of the distinct linear factors of p
	half := new(big.Int).Rsh(new(big.Int).Sub(k.q, big.NewInt(1)), 1)
	for tries := 0; len(g) > 2 && tries < 64; tries++ {
		delta := k.c.rnd(k.t)
		s := k.ppow(c06KPoly{delta, k.one()}, half, g)
		f := k.pgcd(k.padd(s, c06KPoly{k.one()}, true), g)
		if len(f) >= 2 && len(f) < len(g) {
			g = f
		}
	}
	if len(g) != 2 {
		return reflect.Value{}, false
	}
	return k.neg(g[0]), true // g = T + g0
}

// cycloWitness returns an element of the cyclotomic subgroup of the top level whose middle coordinate `coord` (0..5) is zero.
func (c *c06Ctx) cycloWitness(coord int) (reflect.Value, bool) {
	ty := c.top
	kt := c06Mid(reflect.New(ty), 0).Type()
	m := c06Leaves(kt) // K = F_{p^m}
	k := c06KField{t: kt, q: new(big.Int).Exp(c.base.Q, big.NewInt(int64(m)), nil), c: c}
	call1 := func(name string, args ...reflect.Value) reflect.Value {
		z := reflect.New(ty)
		z.MethodByName(name).Call(args)
		return z
	}
	sigmaName := "Frobenius"
	if reflect.New(ty).MethodByName("FrobeniusQuad").IsValid() {
		sigmaName = "FrobeniusQuad"
	} else if reflect.New(ty).MethodByName("FrobeniusSquare").IsValid() {
		sigmaName = "FrobeniusSquare"
	}
	sigma := func(x reflect.Value) reflect.Value { return call1(sigmaName, x) }
	scale := func(x, t reflect.Value) reflect.Value { // t * x, coordinate-wise over K
		z := reflect.New(ty)
		for i := 0; i < 6; i++ {
			c06Mid(z, i).Set(k.mul(c06Mid(x, i).Addr(), t).Elem())
		}
		return z
	}
	easy := func(y reflect.Value) reflect.Value {
		a := call1("Mul", call1("Conjugate", y), call1("Inverse", y))
		return call1("Mul", sigma(a), a)
	}
	for trial := 0; trial < 16; trial++ {
		A, B := c.rnd(ty), c.rnd(ty)
		yOf := func(t reflect.Value) reflect.Value { return call1("Add", A, scale(B, t)) }
		val := func(t reflect.Value) (reflect.Value, bool) { // P(t) = g_coord(e(y(t))) * Nm(y(t) s(y(t)))
			y := yOf(t)
			d := call1("Mul", y, sigma(y))
			nm, s := clonePtr(d), d
			for i := 1; i < 6; i++ {
				s = sigma(s)
				nm = call1("Mul", nm, s)
			}
			for i := 1; i < 6; i++ { // the norm lies in K
				if !k.isZero(c06Mid(nm, i).Addr()) {
					return reflect.Value{}, false
				}
			}
			x := easy(y)
			return k.mul(c06Mid(x, coord).Addr(), c06Mid(nm, 0).Addr()), true
		}
		const npts = 14
		xs, ys := make([]reflect.Value, npts), make([]reflect.Value, npts)
		ok := true
		for i := range xs {
			xs[i] = c.rnd(kt)
			ys[i], ok = val(xs[i])
			if !ok {
				break
			}
		}
		if !ok {
			continue
		}
		p := k.interpolate(xs[:13], ys[:13])
		// the 14th point checks that the reply of the library is indeed a polynomial of degree <= 12 in t
		chk := k.sub(k.eval(p, xs[13]), ys[13])
		if !k.isZero(chk) {
			if os.Getenv("C06_DEBUG") != "" {
				fmt.Fprintf(os.Stderr, "witness %s coord %d: not a polynomial of degree <= 12\n", c.name, coord)
			}
			return reflect.Value{}, false
		}
		t0, found := k.root(p)
		if os.Getenv("C06_DEBUG") != "" {
			fmt.Fprintf(os.Stderr, "witness %s coord %d trial %d: deg %d root %v\n", c.name, coord, trial, len(p)-1, found)
		}
		if !found {
			continue
		}
		y0 := yOf(t0)
		if y0.MethodByName("IsZero").Call(nil)[0].Bool() {
			continue
		}
		x0 := easy(y0)
		if !k.isZero(c06Mid(x0, coord).Addr()) {
			continue
		}
		return x0, true
	}
	return reflect.Value{}, false
}
