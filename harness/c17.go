package main

// C17 driver: argument-system verifiers accept honest proofs and reject well-formed forgeries.
//
// For each of the eight proof systems the real prover produces proofs for admissible statements
// (minimal, non-power-of-two where allowed, seeded random), the real Verify entry point is called on
//   - the honest object,
//   - every single-component substitution of the catalogue (component x {random, zero/identity,
//     value from another honest proof, shifted value}), applied to a deep copy,
//   - named multi-component forgeries built with the real prover's pieces (kzg.Commit / Open,
//     fiat-shamir transcript, merkletree, ...) that keep every verifier check but one true,
// and ONE event per call is logged with the raw observation: accepted or not, error text, panic,
// digests of every argument before and after the call, the digests of the replaced component.
// Statements are logged raw (Montgomery limbs) so that the TLA+ side decides their truth; for the
// schemes with a known trapdoor (Pedersen, mpcsetup) the scalars behind every point are logged and
// TLC recomputes the points and decides the algebraic relation in the exponent.
// Nothing is judged here: spec/C17_verifiers/TraceVerifiers.tla is the judge.
//
// Files: c17.go (infrastructure, Vortex over koalabear), c17_bn254.go (the seven curve-based
// schemes, typed on bn254), c17_gen_<curve>.go (the same driver for the other pairing curves,
// generated from c17_bn254.go by tools/c17gen.py).

import (
	"crypto/sha256"
	"encoding/binary"
	"encoding/hex"
	"flag"
	"fmt"
	"hash"
	"math/big"
	"reflect"
	"sort"
	"strings"
	"unsafe"

	"github.com/consensys/gnark-crypto/field/koalabear"
	fext "github.com/consensys/gnark-crypto/field/koalabear/extensions"
	kbfft "github.com/consensys/gnark-crypto/field/koalabear/fft"
	"github.com/consensys/gnark-crypto/field/koalabear/sis"
	"github.com/consensys/gnark-crypto/field/koalabear/vortex"
)

func init() { register("c17", runC17) }

// per-curve drivers register themselves here (c17_bn254.go and the generated copies)
var c17Curves = map[string]func(cfg *c17Cfg){}

type c17Cfg struct {
	out     string
	seed    uint64
	tier    string
	schemes map[string]bool
	total   int
	files   []string
}

func (c *c17Cfg) want(s string) bool { return len(c.schemes) == 0 || c.schemes[s] }
func (c *c17Cfg) thorough() bool     { return c.tier == "thorough" }

// ---------------------------------------------------------------------------------------
// canonical dump of any value (unexported fields included) -> sha256, used for the before /
// after digests of the arguments and for the old / new digests of a replaced component

func c17dump(h hash.Hash, v reflect.Value) {
	if !v.IsValid() {
		h.Write([]byte{0xfe})
		return
	}
	var b [8]byte
	switch v.Kind() {
	case reflect.Ptr, reflect.Interface:
		if v.IsNil() {
			h.Write([]byte{0xff})
			return
		}
		h.Write([]byte{0x01})
		c17dump(h, v.Elem())
	case reflect.Struct:
		for i := 0; i < v.NumField(); i++ {
			c17dump(h, v.Field(i))
		}
	case reflect.Slice:
		if v.IsNil() {
			h.Write([]byte{0xfd})
			return
		}
		fallthrough
	case reflect.Array:
		binary.LittleEndian.PutUint64(b[:], uint64(v.Len()))
		h.Write(b[:])
		if v.Len() > 0 && v.Index(0).Kind() == reflect.Uint8 {
			bs := make([]byte, v.Len())
			for i := range bs {
				bs[i] = byte(v.Index(i).Uint())
			}
			h.Write(bs)
			return
		}
		for i := 0; i < v.Len(); i++ {
			c17dump(h, v.Index(i))
		}
	case reflect.Uint8, reflect.Uint16, reflect.Uint32, reflect.Uint64, reflect.Uint, reflect.Uintptr:
		binary.LittleEndian.PutUint64(b[:], v.Uint())
		h.Write(b[:])
	case reflect.Int8, reflect.Int16, reflect.Int32, reflect.Int64, reflect.Int:
		binary.LittleEndian.PutUint64(b[:], uint64(v.Int()))
		h.Write(b[:])
	case reflect.Bool:
		if v.Bool() {
			h.Write([]byte{1})
		} else {
			h.Write([]byte{0})
		}
	case reflect.String:
		h.Write([]byte(v.String()))
	case reflect.Map:
		keys := v.MapKeys()
		sort.Slice(keys, func(i, j int) bool { return fmt.Sprint(keys[i]) < fmt.Sprint(keys[j]) })
		for _, k := range keys {
			c17dump(h, k)
			c17dump(h, v.MapIndex(k))
		}
	case reflect.Func, reflect.Chan, reflect.UnsafePointer:
		// not data
	default:
		fatal("c17dump: unsupported kind %s", v.Kind())
	}
}

// c17snap returns a short hex digest of the canonical dump of its arguments.
func c17snap(vals ...any) string {
	h := sha256.New()
	for _, x := range vals {
		c17dump(h, reflect.ValueOf(x))
	}
	return hex.EncodeToString(h.Sum(nil)[:12])
}

// c17field gives read/write access to a (possibly unexported) struct field: p is a pointer to the struct.
func c17field[T any](p any, name string) *T {
	v := reflect.ValueOf(p).Elem()
	f := v.FieldByName(name)
	if !f.IsValid() {
		fatal("c17field: %s has no field %s", v.Type(), name)
	}
	return (*T)(unsafe.Pointer(f.UnsafeAddr()))
}

// c17clone deep-copies a value (slices, arrays, structs, pointers; unexported fields included).
func c17clone[T any](x T) T {
	var out T
	c17copy(reflect.ValueOf(&out).Elem(), reflect.ValueOf(&x).Elem())
	return out
}

func c17copy(dst, src reflect.Value) {
	if !dst.CanSet() {
		dst = reflect.NewAt(dst.Type(), unsafe.Pointer(dst.UnsafeAddr())).Elem()
	}
	if src.CanAddr() && !src.CanInterface() {
		src = reflect.NewAt(src.Type(), unsafe.Pointer(src.UnsafeAddr())).Elem()
	}
	switch src.Kind() {
	case reflect.Ptr:
		if src.IsNil() {
			return
		}
		n := reflect.New(src.Type().Elem())
		c17copy(n.Elem(), src.Elem())
		dst.Set(n)
	case reflect.Slice:
		if src.IsNil() {
			return
		}
		n := reflect.MakeSlice(src.Type(), src.Len(), src.Len())
		for i := 0; i < src.Len(); i++ {
			c17copy(n.Index(i), src.Index(i))
		}
		dst.Set(n)
	case reflect.Array:
		for i := 0; i < src.Len(); i++ {
			c17copy(dst.Index(i), src.Index(i))
		}
	case reflect.Struct:
		for i := 0; i < src.NumField(); i++ {
			c17copy(dst.Field(i), src.Field(i))
		}
	case reflect.Interface:
		if src.IsNil() {
			return
		}
		n := reflect.New(src.Elem().Type()).Elem()
		c17copy(n, src.Elem())
		dst.Set(n)
	default:
		dst.Set(src)
	}
}

// ---------------------------------------------------------------------------------------
// forgery operators and the event writer

// c17Op is one forgery operator instance: k = "sub" (single-component substitution: c = component
// class of the spec's table, s = random|zero|other|shift, at = position) or "tgt" (named forgery).
type c17Op struct {
	K, C, S  string
	N        string // name of the replaced field when the class groups several fields
	At       []int
	Old, New string // digests of the component before / after (substitutions)
}

func (o c17Op) ev() Ev {
	e := Ev{"k": o.K, "c": o.C, "s": o.S, "old": o.Old, "new": o.New}
	if o.N != "" {
		e["n"] = o.N
	}
	if o.At == nil {
		e["at"] = []int{}
	} else {
		e["at"] = o.At
	}
	return e
}

func c17MaxInt(v []int) int {
	m := v[0]
	for _, x := range v {
		if x > m {
			m = x
		}
	}
	return m
}

// c17Pad extends v with copies of its last element to the next power of two >= n.
func c17Pad[E any](v []E, n int) []E {
	m := 1
	for m < n {
		m <<= 1
	}
	out := append([]E{}, v...)
	for len(out) < m {
		out = append(out, v[len(v)-1])
	}
	return out
}

func c17FriSorted(i, n int) int { // fri.convertCanonicalSorted
	if i < n/2 {
		return 2 * i
	}
	return n - 2*(n-(i+1)) - 1
}

// setSmall writes small integers into the leaves of a (tower) field element through reflection (input construction)
func c17SetSmall(v reflect.Value, k *uint64) {
	if isElem(v.Type()) {
		m := v.Addr().MethodByName("SetUint64")
		m.Call([]reflect.Value{reflect.ValueOf(*k)})
		*k += 7
		return
	}
	for i := 0; i < v.NumField(); i++ {
		c17SetSmall(v.Field(i), k)
	}
}

// c17CallMap calls a MapToCurve function (argument by pointer or by value, depending on the curve) on a small field element
func c17CallMap(f reflect.Value, k uint64) reflect.Value {
	at := f.Type().In(0)
	if at.Kind() == reflect.Ptr {
		u := reflect.New(at.Elem())
		c17SetSmall(u.Elem(), &k)
		return f.Call([]reflect.Value{u})[0]
	}
	u := reflect.New(at)
	c17SetSmall(u.Elem(), &k)
	return f.Call([]reflect.Value{u.Elem()})[0]
}

func c17Tgt(name string) []c17Op { return []c17Op{{K: "tgt", C: name}} }

var c17Kinds = []string{"random", "zero", "other", "shift"}

type c17Trace struct {
	t      *TraceWriter
	scheme string
	sc     int
	stats  map[string]int
}

func c17NewTrace(cfg *c17Cfg, family, curve string, hdr Ev) *c17Trace {
	hdr["property"] = "C17"
	hdr["family"] = family
	hdr["curve"] = curve
	hdr["seed"] = int(cfg.seed % (1 << 30))
	hdr["tier"] = cfg.tier
	t := newTrace(cfg.out, "c17_"+family+"_"+curve, hdr)
	cfg.files = append(cfg.files, t.path)
	return &c17Trace{t: t, stats: map[string]int{}}
}

func (c *c17Trace) close(cfg *c17Cfg) { cfg.total += c.t.Close() }

// scenario starts a new scenario (one statement, one honest proof) of entry point `scheme`.
func (c *c17Trace) scenario(scheme string) {
	c.sc++
	c.scheme = scheme
}

func c17msg(r any) string {
	m := strings.SplitN(fmt.Sprint(r), "\n", 2)[0]
	if len(m) > 160 {
		m = m[:160]
	}
	return m
}

// emit writes a non-Verify event (Setup / Prove / Commit ...) of the current scenario.
func (c *c17Trace) emit(op string, e Ev) {
	e["op"] = op
	e["sc"] = c.sc
	e["scheme"] = c.scheme
	c.t.Emit(e)
}

// verify calls the real verifier entry point and logs the raw observation.
// args: every argument of the call (pointers), digested before and after.
func (c *c17Trace) verify(fn string, ops []c17Op, extra Ev, args []any, call func() error) (accepted bool) {
	e := Ev{"op": "Verify", "fn": fn, "sc": c.sc, "scheme": c.scheme}
	for k, v := range extra {
		e[k] = v
	}
	fo := make([]Ev, len(ops))
	for i, o := range ops {
		fo[i] = o.ev()
	}
	e["forge"] = fo
	e["pre"] = c17snap(args...)
	func() {
		defer func() {
			if r := recover(); r != nil {
				e["panic"] = c17msg(r)
			}
		}()
		err := call()
		e["acc"] = err == nil
		if err != nil {
			e["err"] = c17msg(err)
		}
		accepted = err == nil
	}()
	e["post"] = c17snap(args...)
	c.t.Emit(e)
	key := "honest"
	if len(ops) > 0 {
		key = ops[0].K
	}
	c.stats[c.scheme+"/"+key]++
	return
}

// ---------------------------------------------------------------------------------------
// generic single-substitution driver
//
// P is the object under test (statement + proof + keys), E the type of one component.
// An accessor returns a pointer to the component inside (a copy of) the object.

type c17Acc[P any, E any] struct {
	class string
	at    []int
	get   func(*P) *E
}

type c17Case[P any] struct {
	clone  func(*P) *P // deep copy of the object (default: c17clone)
	fn     string
	verify func(*P) error
	args   func(*P) []any // arguments digested before/after the call
	extra  func(*P) Ev    // statement-level raw data logged with every Verify event
}

// c17Subs applies each substitution kind to each accessor on a deep copy of a (b = another honest
// object of the same entry point, the source of "other" values) and logs the real verdict.
func c17Subs[P any, E any](tr *c17Trace, cs c17Case[P], a, b *P, accs []c17Acc[P, E], sub func(dst *E, other *E, kind string) bool, kinds []string) {
	for _, acc := range accs {
		for _, kind := range kinds {
			pp := cs.cp(a)
			dst := c17safeGet(acc.get, pp)
			if dst == nil {
				continue
			}
			var other *E
			if b != nil {
				other = c17safeGet(acc.get, b)
			}
			if kind == "other" && other == nil {
				continue
			}
			old := c17snap(dst)
			if !sub(dst, other, kind) {
				continue
			}
			// an accessor class "class:field" names the field inside a class that groups several
			op := c17Op{K: "sub", C: acc.class, S: kind, At: acc.at, Old: old, New: c17snap(dst)}
			if i := strings.IndexByte(acc.class, ':'); i >= 0 {
				op.C, op.N = acc.class[:i], acc.class[i+1:]
			}
			var extra Ev
			if cs.extra != nil {
				extra = cs.extra(pp)
			}
			tr.verify(cs.fn, []c17Op{op}, extra, cs.args(pp), func() error { return cs.verify(pp) })
		}
	}
}

func c17safeGet[P any, E any](get func(*P) *E, p *P) (e *E) {
	defer func() {
		if r := recover(); r != nil {
			e = nil
		}
	}()
	return get(p)
}

func (cs c17Case[P]) cp(a *P) *P {
	if cs.clone != nil {
		return cs.clone(a)
	}
	p := c17clone(*a)
	return &p
}

// c17Honest logs the verdict on the unmodified object.
func c17Honest[P any](tr *c17Trace, cs c17Case[P], a *P) bool {
	p := cs.cp(a)
	var extra Ev
	if cs.extra != nil {
		extra = cs.extra(p)
	}
	return tr.verify(cs.fn, nil, extra, cs.args(p), func() error { return cs.verify(p) })
}

// c17Forged logs the verdict on a named multi-component forgery.
func c17Forged[P any](tr *c17Trace, cs c17Case[P], name string, p *P) bool {
	var extra Ev
	if cs.extra != nil {
		extra = cs.extra(p)
	}
	return tr.verify(cs.fn, c17Tgt(name), extra, cs.args(p), func() error { return cs.verify(p) })
}

// substitution of plain values -------------------------------------------------------------

func c17SubBytes(r *Rng) func(dst, other *[]byte, kind string) bool {
	return func(dst, other *[]byte, kind string) bool {
		n := len(*dst)
		switch kind {
		case "random":
			*dst = r.Bytes(n)
		case "zero":
			*dst = make([]byte, n)
		case "other":
			*dst = append([]byte{}, (*other)...)
		case "shift":
			if n == 0 {
				return false
			}
			b := append([]byte{}, (*dst)...)
			b[n-1]++
			*dst = b
		}
		return true
	}
}

func c17SubU64(r *Rng) func(dst, other *uint64, kind string) bool {
	return func(dst, other *uint64, kind string) bool {
		switch kind {
		case "random":
			*dst = 2 + r.U64()%(1<<20)
		case "zero":
			*dst = 0
		case "other":
			*dst = *other
		case "shift":
			*dst++
		}
		return true
	}
}

func c17SubInt(r *Rng) func(dst, other *int, kind string) bool {
	return func(dst, other *int, kind string) bool {
		switch kind {
		case "random":
			*dst = 2 + int(r.U64()%(1<<20))
		case "zero":
			*dst = 0
		case "other":
			*dst = *other
		case "shift":
			*dst++
		}
		return true
	}
}

// ---------------------------------------------------------------------------------------
// Vortex (koalabear): Params.Verify

type c17Vx struct {
	params *vortex.Params
	in     vortex.VerifierInput
}

func c17kbRaw(e koalabear.Element) int { return int(e[0]) }
func c17e4Raw(e fext.E4) []int {
	return []int{c17kbRaw(e.B0.A0), c17kbRaw(e.B0.A1), c17kbRaw(e.B1.A0), c17kbRaw(e.B1.A1)}
}

func c17kbRand(r *Rng) (e koalabear.Element) {
	e.SetUint64(r.U64() % 2130706433)
	return
}
// c17UsedHash hands out SHA-256 objects; every other one has been written to before (input never summed). The schemes own
// the hasher they are given: what it held before is not part of any challenge.
var c17HashCount int

func c17UsedHash() hash.Hash {
	h := sha256.New()
	c17HashCount++
	if c17HashCount%2 == 0 {
		h.Write([]byte("an earlier use of this hash object"))
	}
	return h
}

func c17e4Rand(r *Rng) fext.E4 {
	return fext.E4{B0: fext.E2{A0: c17kbRand(r), A1: c17kbRand(r)}, B1: fext.E2{A0: c17kbRand(r), A1: c17kbRand(r)}}
}

func c17SubKb(r *Rng) func(dst, other *koalabear.Element, kind string) bool {
	return func(dst, other *koalabear.Element, kind string) bool {
		switch kind {
		case "random":
			*dst = c17kbRand(r)
		case "zero":
			dst.SetZero()
		case "other":
			*dst = *other
		case "shift":
			one := koalabear.One()
			dst.Add(dst, &one)
		}
		return true
	}
}

func c17SubE4(r *Rng) func(dst, other *fext.E4, kind string) bool {
	return func(dst, other *fext.E4, kind string) bool {
		switch kind {
		case "random":
			*dst = c17e4Rand(r)
		case "zero":
			*dst = fext.E4{}
		case "other":
			*dst = *other
		case "shift":
			one := koalabear.One()
			dst.B0.A0.Add(&dst.B0.A0, &one)
		}
		return true
	}
}

func c17SubVxHash(r *Rng) func(dst, other *vortex.Hash, kind string) bool {
	return func(dst, other *vortex.Hash, kind string) bool {
		switch kind {
		case "random":
			for i := range dst {
				dst[i] = c17kbRand(r)
			}
		case "zero":
			*dst = vortex.Hash{}
		case "other":
			*dst = *other
		case "shift":
			one := koalabear.One()
			dst[0].Add(&dst[0], &one)
		}
		return true
	}
}

// c17VxMake commits to a seeded random matrix, opens it at (x, alpha) on the selected columns with the
// real prover and returns the verifier input with the true claimed values.
// c17VxPoint: evaluation points by their position relative to the codeword domain <g> of size N (the verifier interpolates a
// word given on that domain and special-cases "x is a point of the domain"):
//
//	"rand"    a random element of the extension
//	"domain"  g^i itself (in the base field)
//	"near"    g^i (1 + e) with e in the extension and a zero base coordinate: x / g^i - 1 = e is not zero, its first coordinate is
//	"base"    a base-field element off the domain
func c17VxPoint(r *Rng, kind string, N int) fext.E4 {
	g, _ := kbfft.Generator(uint64(N))
	var gi koalabear.Element
	gi.Exp(g, big.NewInt(int64(1+r.Intn(N-1))))
	switch kind {
	case "domain":
		return fext.E4{B0: fext.E2{A0: gi}}
	case "near":
		e := c17e4Rand(r)
		e.B0.A0.SetOne() // 1 + e with e.B0.A0 = 0
		var x fext.E4
		x.MulByElement(&e, &gi)
		return x
	case "base":
		return fext.E4{B0: fext.E2{A0: c17kbRand(r)}}
	}
	return c17e4Rand(r)
}

func c17VxMake(r *Rng, numCol, numRow, rate int, sel []int, zeroRows bool, xkind ...string) (*c17Vx, [][]koalabear.Element, error) {
	sisParams, err := sis.NewRSis(int64(r.U64()%1000), 9, 16, numRow)
	if err != nil {
		return nil, nil, err
	}
	params, err := vortex.NewParams(numCol, numRow, sisParams, rate, len(sel))
	if err != nil {
		return nil, nil, err
	}
	m := make([][]koalabear.Element, numRow)
	x, alpha := c17e4Rand(r), c17e4Rand(r)
	if len(xkind) > 0 {
		x = c17VxPoint(r, xkind[0], numCol*rate)
	}
	ys := make([]fext.E4, numRow)
	for i := range m {
		m[i] = make([]koalabear.Element, numCol)
		for j := range m[i] {
			if !zeroRows {
				m[i][j] = c17kbRand(r)
			}
		}
		if ys[i], err = vortex.EvalBasePolyLagrange(m[i], x); err != nil {
			return nil, nil, err
		}
	}
	ps, err := vortex.Commit(params, m)
	if err != nil {
		return nil, nil, err
	}
	ps.OpenLinComb(alpha)
	proof, err := ps.OpenColumns(sel)
	if err != nil {
		return nil, nil, err
	}
	return &c17Vx{params: params, in: vortex.VerifierInput{MerkleRoot: ps.GetCommitment(), ClaimedValues: ys, EvaluationPoint: x,
		SelectedColumns: append([]int{}, sel...), Alpha: alpha, Proof: proof}}, m, nil
}

// c17VxPolyOnDomain evaluates sum_k coef[k] X^k (E4 coefficients) on the codeword domain <w_N>, natural order.
func c17VxPolyOnDomain(coef []fext.E4, N int) []fext.E4 {
	w, _ := kbfft.Generator(uint64(N))
	out := make([]fext.E4, N)
	var pt koalabear.Element
	pt.SetOne()
	for k := 0; k < N; k++ {
		var acc fext.E4
		for i := len(coef) - 1; i >= 0; i-- {
			acc.MulByElement(&acc, &pt)
			acc.Add(&acc, &coef[i])
		}
		out[k] = acc
		pt.Mul(&pt, &w)
	}
	return out
}

// polynomial product in E4[X]
func c17VxPolyMul(a, b []fext.E4) []fext.E4 {
	out := make([]fext.E4, len(a)+len(b)-1)
	var t fext.E4
	for i := range a {
		for j := range b {
			t.Mul(&a[i], &b[j])
			out[i+j].Add(&out[i+j], &t)
		}
	}
	return out
}

func c17Vortex(cfg *c17Cfg) {
	tr := c17NewTrace(cfg, "vortex", "koalabear", Ev{"field": "koalabear"})
	defer tr.close(cfg)
	r := newRng(cfg.seed*7919 + 17)
	type size struct {
		numCol, numRow, rate int
		sel                  []int
		zero                 bool
		xkind                string
	}
	sizes := []size{
		{2, 1, 2, []int{0, 3}, false, ""},          // minimal: two columns, one row
		{4, 3, 4, []int{1, 6, 15}, false, ""},      // non-power-of-two number of rows
		{16, 8, 2, []int{0, 5, 9, 31}, false, ""},  // the size of the package's own tests
		{8, 5, 8, []int{2, 63, 17, 40}, false, ""}, // rate 8
		{16, 8, 2, []int{0, 1, 2, 3}, true, ""},    // zero matrix
		// evaluation points on, next to and off the codeword domain
		{4, 3, 4, []int{1, 6, 15}, false, "near"},
		{4, 2, 2, []int{0, 5}, false, "domain"},
		{8, 2, 2, []int{3, 12}, false, "base"},
		{8, 3, 4, []int{2, 30}, false, "near"},
	}
	if cfg.thorough() {
		for i := 0; i < 6; i++ {
			nc := 1 << (1 + r.Intn(5))
			rate := []int{2, 4, 8}[r.Intn(3)]
			ns := 1 + r.Intn(5)
			sel := make([]int, ns)
			for k := range sel {
				sel[k] = r.Intn(nc * rate)
			}
			sizes = append(sizes, size{nc, 1 + r.Intn(9), rate, sel, false, ""})
		}
		sizes = append(sizes, size{64, 16, 2, []int{0, 127, 64, 33, 90, 5}, false, ""})
	}
	cs := c17Case[c17Vx]{
		fn:     "vortex.Params.Verify",
		clone:  func(p *c17Vx) *c17Vx { return &c17Vx{params: p.params, in: c17clone(p.in)} },
		verify: func(p *c17Vx) error { return p.params.Verify(p.in) },
		args:   func(p *c17Vx) []any { return []any{&p.in} },
	}
	for _, sz := range sizes {
		tr.scenario("vortex")
		var xk []string
		if sz.xkind != "" {
			xk = []string{sz.xkind}
		}
		a, m, err := c17VxMake(r, sz.numCol, sz.numRow, sz.rate, sz.sel, sz.zero, xk...)
		if err != nil {
			tr.emit("Prove", Ev{"err": c17msg(err), "numCol": sz.numCol, "numRow": sz.numRow, "rate": sz.rate})
			continue
		}
		b, _, _ := c17VxMake(r, sz.numCol, sz.numRow, sz.rate, sz.sel, false)
		N := sz.numCol * sz.rate
		rows := make([][]int, len(m))
		for i := range m {
			rows[i] = make([]int, len(m[i]))
			for j := range m[i] {
				rows[i][j] = c17kbRaw(m[i][j])
			}
		}
		ys := make([][]int, len(a.in.ClaimedValues))
		for i := range ys {
			ys[i] = c17e4Raw(a.in.ClaimedValues[i])
		}
		tr.emit("Prove", Ev{"numCol": sz.numCol, "numRow": sz.numRow, "rate": sz.rate, "sel": sz.sel, "m": rows,
			"x": c17e4Raw(a.in.EvaluationPoint), "alpha": c17e4Raw(a.in.Alpha), "ys": ys})
		c17Honest(tr, cs, a)
		if sz.zero {
			// every column, leaf and codeword entry of the zero matrix is the same: most substitutions give
			// another true statement with a valid proof; only the honest verdict is recorded
			continue
		}
		kinds := c17Kinds
		isSel := map[int]bool{}
		for _, c := range sz.sel {
			isSel[c] = true
		}
		// UAlpha entries: one opened position, one unopened
		var accE4 []c17Acc[c17Vx, fext.E4]
		unsel := -1
		for k := 0; k < N; k++ {
			if !isSel[k] {
				unsel = k
			}
		}
		selK := sz.sel[len(sz.sel)/2]
		accE4 = append(accE4, c17Acc[c17Vx, fext.E4]{"ualphasel", []int{selK}, func(p *c17Vx) *fext.E4 { return &p.in.Proof.UAlpha[selK] }})
		if unsel >= 0 {
			accE4 = append(accE4, c17Acc[c17Vx, fext.E4]{"ualphaunsel", []int{unsel}, func(p *c17Vx) *fext.E4 { return &p.in.Proof.UAlpha[unsel] }})
		}
		for _, i := range []int{0, sz.numRow - 1} {
			i := i
			accE4 = append(accE4, c17Acc[c17Vx, fext.E4]{"cv", []int{i}, func(p *c17Vx) *fext.E4 { return &p.in.ClaimedValues[i] }})
			if sz.numRow == 1 {
				break
			}
		}
		accE4 = append(accE4,
			c17Acc[c17Vx, fext.E4]{"x", nil, func(p *c17Vx) *fext.E4 { return &p.in.EvaluationPoint }},
			c17Acc[c17Vx, fext.E4]{"alpha", nil, func(p *c17Vx) *fext.E4 { return &p.in.Alpha }})
		// the verifier copies the *Proof pointer: deep copies are made by c17clone
		c17Subs(tr, cs, a, b, accE4, c17SubE4(r), kinds)
		// opened column entries
		ci, cj := len(sz.sel)-1, sz.numRow/2
		c17Subs(tr, cs, a, b, []c17Acc[c17Vx, koalabear.Element]{
			{"column", []int{0, 0}, func(p *c17Vx) *koalabear.Element { return &p.in.Proof.OpenedColumns[0][0] }},
			{"column", []int{ci, cj}, func(p *c17Vx) *koalabear.Element { return &p.in.Proof.OpenedColumns[ci][cj] }},
		}, c17SubKb(r), kinds)
		// Merkle proof siblings and the root
		accH := []c17Acc[c17Vx, vortex.Hash]{{"merkleroot", nil, func(p *c17Vx) *vortex.Hash { return &p.in.MerkleRoot }}}
		depth := len(a.in.Proof.MerkleProofOpenedColumns[0])
		for _, k := range []int{0, depth - 1} {
			k := k
			accH = append(accH, c17Acc[c17Vx, vortex.Hash]{"merkleproof", []int{ci, k}, func(p *c17Vx) *vortex.Hash { return &p.in.Proof.MerkleProofOpenedColumns[ci][k] }})
			if depth == 1 {
				break
			}
		}
		c17Subs(tr, cs, a, b, accH, c17SubVxHash(r), kinds)
		// selected column index: random in range, 0, another selected one, shifted by the codeword size
		c17Subs(tr, cs, a, nil, []c17Acc[c17Vx, int]{{"selected", []int{ci}, func(p *c17Vx) *int { return &p.in.SelectedColumns[ci] }}},
			func(dst, other *int, kind string) bool {
				switch kind {
				case "random":
					*dst = r.Intn(N)
				case "zero":
					*dst = 0
				case "other":
					*dst = sz.sel[0]
				case "shift":
					*dst += N
				}
				return true
			}, kinds)

		// ---- targeted forgeries ----
		x := a.in.EvaluationPoint
		lam := c17e4Rand(r)
		var negx fext.E4
		negx.Neg(&x)
		var one fext.E4
		one.SetOne()
		if sz.numCol >= 2 {
			// shiftcodeword: UAlpha + c, c the codeword of lam*(X - x): claim, RS and Merkle checks stay true,
			// the opened columns no longer combine to UAlpha at the opened positions
			var c0 fext.E4
			c0.Mul(&lam, &negx)
			cw := c17VxPolyOnDomain([]fext.E4{c0, lam}, N)
			p := *cs.cp(a)
			for k := range cw {
				p.in.Proof.UAlpha[k].Add(&p.in.Proof.UAlpha[k], &cw[k])
			}
			c17Forged(tr, cs, "shiftcodeword", &p)
		}
		{
			// shiftconstantclaim: claim ys[0] + delta (a false statement) and add the constant codeword delta to UAlpha
			delta := c17e4Rand(r)
			p := *cs.cp(a)
			p.in.ClaimedValues[0].Add(&p.in.ClaimedValues[0], &delta)
			for k := range p.in.Proof.UAlpha {
				p.in.Proof.UAlpha[k].Add(&p.in.Proof.UAlpha[k], &delta)
			}
			c17Forged(tr, cs, "shiftconstantclaim", &p)
		}
		{
			// noncodeword: UAlpha + e, e = lam (X - x) X^numCol prod_{c selected}(X - w^c): vanishes at x and at the
			// opened positions, degree >= numCol: only the Reed-Solomon membership check fails
			w, _ := kbfft.Generator(uint64(N))
			poly := []fext.E4{one}
			poly[0].Mul(&poly[0], &lam)
			poly = c17VxPolyMul(poly, []fext.E4{negx, one})
			seen := map[int]bool{}
			for _, c := range sz.sel {
				if seen[c] {
					continue
				}
				seen[c] = true
				var wc koalabear.Element
				wc.Exp(w, big.NewInt(int64(c)))
				var root fext.E4
				root.B0.A0.Neg(&wc)
				poly = c17VxPolyMul(poly, []fext.E4{root, one})
			}
			shiftd := make([]fext.E4, sz.numCol+len(poly))
			copy(shiftd[sz.numCol:], poly)
			if len(shiftd) <= N {
				ev := c17VxPolyOnDomain(shiftd, N)
				p := *cs.cp(a)
				for k := range ev {
					p.in.Proof.UAlpha[k].Add(&p.in.Proof.UAlpha[k], &ev[k])
				}
				c17Forged(tr, cs, "noncodeword", &p)
			}
		}
	}
}

// ---------------------------------------------------------------------------------------

func runC17(args []string) {
	fs := flag.NewFlagSet("c17", flag.ExitOnError)
	out := fs.String("out", ".", "output directory")
	seed := fs.Uint64("seed", 1, "seed")
	tier := fs.String("tier", "quick", "quick|thorough")
	only := fs.String("curves", "", "comma separated curve names (default: bn254 in quick, all pairing curves in thorough)")
	schemes := fs.String("schemes", "", "comma separated families (pedersen,shplonk,permutation,plookup,fri,mpcsetup,vortex)")
	fs.Parse(args)
	cfg := &c17Cfg{out: *out, seed: *seed, tier: *tier, schemes: map[string]bool{}}
	if *schemes != "" {
		for _, s := range strings.Split(*schemes, ",") {
			cfg.schemes[s] = true
		}
	}
	names := []string{"bn254"}
	if *tier == "thorough" {
		names = nil
		for n := range c17Curves {
			names = append(names, n)
		}
		sort.Strings(names)
	}
	if *only == "-" {
		names = nil
	} else if *only != "" {
		names = strings.Split(*only, ",")
	}
	if cfg.want("vortex") {
		c17Vortex(cfg)
	}
	for _, n := range names {
		run, ok := c17Curves[n]
		if !ok {
			fatal("c17: no driver for curve %s", n)
		}
		run(cfg)
	}
	if *tier != "thorough" && *only == "" && len(cfg.schemes) == 0 {
		// quick tier: bn254 has cofactor 1, so forgeries that leave the prime-order subgroup degenerate to off-curve points
		// there; every scheme also runs on a curve with a cofactor, rotating with the seed (the thorough tier runs all)
		cof := []string{"bls12-381", "bls12-377", "bw6-761", "bls24-315", "bls24-317", "bw6-633"}
		n := cof[int(*seed)%len(cof)]
		if run, ok := c17Curves[n]; ok {
			run(cfg) // all schemes: the other pairing curves are generated from the same templates but are separate code
			names = append(names, n)
		}
	}
	fmt.Printf("c17: %d events in %d traces (curves %v)\n", cfg.total, len(cfg.files), names)
}
