package main

// C07 driver (part 1: single-point codecs of the short-Weierstrass groups, GT, command entry).
//
// Drives the real gnark-crypto encoders / decoders and logs raw observations only: the bytes
// handed in and out, the limbs of decoded values, returned errors, recovered panics, byte
// counters and the number of bytes the reader really delivered. The judge is
// spec/C07_codec/TraceCodec.tla (and TraceCodecEd.tla for the twisted Edwards companions).
//
// Inputs: (i) derived from the model PointCodec - every flag pattern x payload class
// (x of a subgroup point, of a curve point outside the subgroup, of a point of order two,
// x without a root, = p, > p, all payload bits set, zero, non-zero padding of infinity
// encodings) in compressed and raw length, every buffer length; (ii) seeded random byte strings
// and bit flips of valid encodings. The harness knows square roots only to *propose* witnesses
// ("Know" events); the specification verifies each of them.

import (
	"flag"
	"fmt"
	"math/big"
	"reflect"
	"strings"
)

func init() { register("c07", runC07) }

// ---------------------------------------------------------------------------------------
// generic helpers

// c07enc is enc() extended to the integer kinds the stream codecs carry.
func c07enc(v reflect.Value) any {
	for v.Kind() == reflect.Ptr {
		v = v.Elem()
	}
	switch v.Kind() {
	case reflect.Uint64, reflect.Uint32:
		return digits(new(big.Int).SetUint64(v.Uint()))
	case reflect.Slice:
		if !isElem(v.Type()) {
			out := make([]any, v.Len())
			for i := range out {
				out[i] = c07enc(v.Index(i))
			}
			return out
		}
	}
	return enc(v)
}

func c07ArrayBytes(v reflect.Value) []byte {
	if v.Kind() == reflect.Slice {
		return append([]byte{}, v.Bytes()...)
	}
	b := make([]byte, v.Len())
	reflect.Copy(reflect.ValueOf(b), v)
	return b
}

func c07ErrOf(v reflect.Value) (string, bool) {
	if v.IsNil() {
		return "", false
	}
	s := v.Interface().(error).Error()
	if len(s) > 100 {
		s = s[:100]
	}
	return s, true
}

// leaves of a coordinate (fp.Element / E2 / E4) in natural order (X^0 first)
func c07Leaves(v reflect.Value, out *[]reflect.Value) {
	if isElem(v.Type()) {
		*out = append(*out, v)
		return
	}
	for i := 0; i < v.NumField(); i++ {
		c07Leaves(v.Field(i), out)
	}
}

// ---------------------------------------------------------------------------------------
// one group of one curve with its codec geometry and point pool

type c07Pt struct {
	label string
	p     reflect.Value // *G?Affine
}

type c07G struct {
	*Group
	cs, rs   int // compressed / raw size
	nB, d    int
	fb       int // flag bits
	hasBytes bool
	pool     []c07Pt
	noroot   reflect.Value // *Coord x such that x^3+ax+b has no root
	seen     map[string]bool
}

func c07Group(c *Curve, gn string, r *Rng, nRandom int) *c07G {
	gr := c.Group(gn)
	if gr == nil {
		return nil
	}
	g := &c07G{Group: gr}
	g.nB = c.Fp.NBytes
	var lv []reflect.Value
	c07Leaves(reflect.New(g.CoordT).Elem(), &lv)
	g.d = len(lv)
	g.rs = 2 * g.nB * g.d
	g.cs = g.nB * g.d
	g.hasBytes = g.NewAff().MethodByName("Bytes").IsValid()
	switch c.Name {
	case "bn254", "grumpkin", "stark-curve":
		g.fb = 2
	case "secp256k1":
		g.fb = 0
	default:
		g.fb = 3
	}
	// pool
	neg := func(a reflect.Value) reflect.Value {
		n := g.NewAff()
		method(n, "Neg").Call([]reflect.Value{a})
		return n
	}
	G1 := g.MulGen(big.NewInt(1))
	g.pool = append(g.pool, c07Pt{"O", g.NewAff()}, c07Pt{"G", G1}, c07Pt{"-G", neg(G1)}, c07Pt{"2G", g.MulGen(big.NewInt(2))})
	for i := 0; i < nRandom; i++ {
		g.pool = append(g.pool, c07Pt{"kG", g.MulGen(r.Below(c.Fr.Q))})
	}
	N := g.RandOnCurve(r)
	g.pool = append(g.pool, c07Pt{"N", N}, c07Pt{"-N", neg(N)})
	if t2 := g.findOrderTwo(r); t2.IsValid() {
		g.pool = append(g.pool, c07Pt{"T2", t2})
	}
	if yfp := g.findOrdinateInBaseField(); yfp.IsValid() {
		// a point of the twist whose ordinate lies in the base field (second coordinate of y is zero): the sign rule of the
		// compressed form has to fall back on the first coordinate
		g.pool = append(g.pool, c07Pt{"YFp", yfp}, c07Pt{"-YFp", neg(yfp)})
	}
	for {
		x := g.RandCoord(r)
		if method(g.curveRHS(x), "Legendre").Call(nil)[0].Int() == -1 {
			g.noroot = x
			break
		}
	}
	return g
}

// findOrdinateInBaseField (quadratic-extension coordinates only): y = 1, 2, ... in the base field, x a cube root of
// y^2 - b' in the extension when one exists and the 3-part of q - 1 is 3 (then a cube c has the root c^((t+1)/3) or
// c^((2t+1)/3), q - 1 = 3t). Input construction only; the specification re-checks the point.
func (g *c07G) findOrdinateInBaseField() reflect.Value {
	var lv []reflect.Value
	c07Leaves(reflect.New(g.CoordT).Elem(), &lv)
	if len(lv) != 2 || g.C.Name == "stark-curve" {
		return reflect.Value{}
	}
	if !reflect.New(g.CoordT).MethodByName("Exp").IsValid() {
		return reflect.Value{}
	}
	p := g.C.Fp.Q
	q1 := new(big.Int).Sub(new(big.Int).Mul(p, p), big.NewInt(1))
	three := big.NewInt(3)
	if new(big.Int).Mod(q1, three).Sign() != 0 {
		return reflect.Value{}
	}
	t := new(big.Int).Div(q1, three)
	if new(big.Int).Mod(t, three).Sign() == 0 {
		return reflect.Value{} // 9 | q - 1: a general cube-root algorithm would be needed
	}
	e := new(big.Int).Add(t, big.NewInt(1))
	if new(big.Int).Mod(e, three).Sign() != 0 {
		e = new(big.Int).Add(new(big.Int).Lsh(t, 1), big.NewInt(1))
	}
	e.Div(e, three)
	zero := reflect.New(g.CoordT)
	bp := g.curveRHS(zero) // b' = rhs(0)
	f := g.C.Fp
	for k := int64(1); k < 400; k++ {
		y := reflect.New(g.CoordT)
		var yl []reflect.Value
		c07Leaves(y.Elem(), &yl)
		f.SetRaw(yl[0].Addr(), f.ToMont(big.NewInt(k)))
		c := reflect.New(g.CoordT)
		coordCall(c, "Square", y)
		coordCall(c, "Sub", c, bp)
		x := reflect.New(g.CoordT)
		method(x, "Exp").Call([]reflect.Value{c.Elem(), reflect.ValueOf(e)})
		chk := reflect.New(g.CoordT)
		coordCall(chk, "Square", x)
		coordCall(chk, "Mul", chk, x)
		if !method(chk, "Equal").Call([]reflect.Value{c})[0].Bool() {
			continue // c is not a cube
		}
		pt := g.NewAff()
		pt.Elem().Field(0).Set(x.Elem())
		pt.Elem().Field(1).Set(y.Elem())
		if method(pt, "IsOnCurve").Call(nil)[0].Bool() {
			return pt
		}
	}
	return reflect.Value{}
}

// findOrderTwo looks for a point with y = 0 among the small integer abscissae (x^3 + a x + b = 0 has the root -1 for
// b = 1, 1 for b = -1, -2 for b = 8: bls12-377, bls24-315, bw6-761 G1, bw6-633 G2). Input construction only; the
// specification re-checks the point.
func (g *c07G) findOrderTwo(r *Rng) reflect.Value {
	f := g.C.Fp
	for k := int64(1); k <= 16; k++ {
		for _, v := range []*big.Int{big.NewInt(k), new(big.Int).Sub(f.Q, big.NewInt(k))} {
			ch := make([]*big.Int, g.d)
			for i := range ch {
				ch[i] = new(big.Int)
			}
			ch[g.d-1] = v
			x := g.coordOf(ch)
			if method(g.curveRHS(x), "IsZero").Call(nil)[0].Bool() {
				p := g.NewAff()
				p.Elem().Field(0).Set(x.Elem())
				return p
			}
		}
	}
	return reflect.Value{}
}

func (g *c07G) pt(label string) reflect.Value {
	for _, p := range g.pool {
		if p.label == label {
			return p.p
		}
	}
	return reflect.Value{}
}

// canonical values of the coefficients of a coordinate, wire order (highest coefficient first)
func (g *c07G) chunks(coord reflect.Value) []*big.Int {
	var lv []reflect.Value
	c07Leaves(coord, &lv)
	out := make([]*big.Int, len(lv))
	f := g.C.Fp
	for i, l := range lv {
		x := new(big.Int).Mul(rawOfElem(l), f.Rinv)
		out[len(lv)-1-i] = x.Mod(x, f.Q)
	}
	return out
}

// coordinate from canonical wire-order coefficient values (all < p)
func (g *c07G) coordOf(ch []*big.Int) reflect.Value {
	z := reflect.New(g.CoordT)
	var lv []reflect.Value
	c07Leaves(z.Elem(), &lv)
	for i, l := range lv {
		g.C.Fp.SetRaw(l.Addr(), g.C.Fp.ToMont(ch[len(lv)-1-i]))
	}
	return z
}

// build concatenates coordinates given as wire-order coefficient lists and sets the flag bits
func (g *c07G) build(flag int, coords ...[]*big.Int) []byte {
	var b []byte
	for _, co := range coords {
		for _, v := range co {
			buf := make([]byte, g.nB)
			v.FillBytes(buf)
			b = append(b, buf...)
		}
	}
	if g.fb > 0 {
		b[0] |= byte(flag << (8 - g.fb))
	}
	return b
}

func (g *c07G) know(t *TraceWriter, pts ...reflect.Value) {
	var l []any
	for _, p := range pts {
		if !p.IsValid() || method(p, "IsInfinity").Call(nil)[0].Bool() {
			continue
		}
		m := enc(p).(map[string]any)
		m["g"] = g.G
		l = append(l, m)
	}
	if len(l) > 0 {
		t.Emit(Ev{"op": "Know", "pts": l})
	}
}

// classify looks at the compressed payload b (flag bits ignored): when x is canonical it proposes either the point
// (x, sqrt(x^3+ax+b)) ("Know") or x as having no point above it ("KnowNot"). Proposals only: the specification
// verifies both kinds, the table just saves it recomputation.
func (g *c07G) classify(t *TraceWriter, b []byte) {
	if len(b) < g.cs {
		return
	}
	ch := make([]*big.Int, g.d)
	key := ""
	for i := range ch {
		bb := append([]byte{}, b[i*g.nB:(i+1)*g.nB]...)
		if i == 0 && g.fb > 0 {
			bb[0] &= byte(0xff >> g.fb)
		}
		ch[i] = new(big.Int).SetBytes(bb)
		if ch[i].Cmp(g.C.Fp.Q) >= 0 {
			return
		}
		key += ch[i].Text(62) + ","
	}
	if g.seen == nil {
		g.seen = map[string]bool{}
	}
	if g.seen[key] {
		return
	}
	g.seen[key] = true
	x := g.coordOf(ch)
	rhs := g.curveRHS(x)
	switch method(rhs, "Legendre").Call(nil)[0].Int() {
	case 1:
		y := reflect.New(g.CoordT)
		method(y, "Sqrt").Call([]reflect.Value{rhs})
		p := g.NewAff()
		p.Elem().Field(0).Set(x.Elem())
		p.Elem().Field(1).Set(y.Elem())
		g.know(t, p)
	case -1:
		t.Emit(Ev{"op": "KnowNot", "g": g.G, "xs": []any{enc(x)}})
	}
}

// ---------------------------------------------------------------------------------------
// events of the single-point methods

func (g *c07G) evBytes(t *TraceWriter, op string, p reflect.Value, label string) []byte {
	q := clonePtr(p)
	e := Ev{"op": op, "g": g.G, "p": enc(q), "label": label}
	out, pm, pk := call(method(q, op))
	var b []byte
	if pk {
		e["panic"] = pm
	} else {
		b = c07ArrayBytes(out[0])
		e["out"] = bytesToInts(b)
		e["pa"] = enc(q)
	}
	t.Emit(e)
	return b
}

func (g *c07G) evSetBytes(t *TraceWriter, op string, buf []byte, cls string) {
	p := clonePtr(g.pt("2G")) // a receiver that holds an unrelated valid point
	b := append([]byte{}, buf...)
	e := Ev{"op": op, "g": g.G, "buf": bytesToInts(buf), "cls": cls}
	out, pm, pk := call(method(p, op), reflect.ValueOf(b))
	if pk {
		e["panic"] = pm
	} else {
		errv := out[len(out)-1]
		if op == "SetBytes" {
			e["n"] = int(out[0].Int())
		}
		if s, isErr := c07ErrOf(errv); isErr {
			e["err"] = s
		} else {
			e["out"] = enc(p)
		}
		e["bufa"] = bytesToInts(b)
	}
	t.Emit(e)
}

// every way of handing one byte string to the point decoders
func (g *c07G) feed(t *TraceWriter, b []byte, cls string, withStream bool) {
	g.evSetBytes(t, "SetBytes", b, cls)
	if g.NewAff().MethodByName("Unmarshal").IsValid() {
		g.evSetBytes(t, "Unmarshal", b, cls)
	}
	if withStream && g.C.Funcs["NewDecoder"].IsValid() {
		ty := strings.ToLower(g.G)
		for _, sg := range []bool{true, false} {
			d := newC07Dec(t, g.C, Ev{"k": "bytes"}, b, "full", sg)
			d.decode(ty, reflect.New(g.AffT), Ev{"cls": cls})
		}
	}
}

func (g *c07G) flags() []int {
	n := 1 << g.fb
	out := make([]int, n)
	for i := range out {
		out[i] = i
	}
	return out
}

func (g *c07G) runPoints(t *TraceWriter, r *Rng, tier string, nFuzz int) {
	f := g.C.Fp
	var all []reflect.Value
	for _, p := range g.pool {
		all = append(all, p.p)
	}
	g.know(t, all...)

	// (1) round trips of every pool point through Bytes / RawBytes / Marshal and back
	for _, p := range g.pool {
		var outs [][]byte
		for _, op := range []string{"Bytes", "RawBytes", "Marshal"} {
			if !p.p.MethodByName(op).IsValid() {
				continue
			}
			if b := g.evBytes(t, op, p.p, p.label); b != nil {
				outs = append(outs, b)
			}
		}
		for _, b := range outs {
			g.feed(t, b, "rt:"+p.label, true)
			g.feed(t, append(append([]byte{}, b...), r.Bytes(3)...), "rt+tail:"+p.label, false)
		}
	}

	// (2) the lattice flag pattern x payload class
	one := big.NewInt(1)
	zeroC := make([]*big.Int, g.d)
	oneC := make([]*big.Int, g.d)
	for i := range zeroC {
		zeroC[i] = new(big.Int)
		oneC[i] = new(big.Int)
	}
	oneC[g.d-1] = big.NewInt(1)
	maxC := append([]*big.Int{}, zeroC...)
	maxC[0] = new(big.Int).Sub(new(big.Int).Lsh(one, uint(8*g.nB-g.fb)), one)
	G := g.pt("G")
	gx, gy := g.chunks(G.Elem().Field(0)), g.chunks(G.Elem().Field(1))
	type cls struct {
		name string
		c    []*big.Int
	}
	xs := []cls{{"xG", gx}, {"xN", g.chunks(g.pt("N").Elem().Field(0))}, {"noroot", g.chunks(g.noroot.Elem())},
		{"zero", zeroC}, {"one", oneC}, {"max", maxC}}
	if t2 := g.pt("T2"); t2.IsValid() {
		xs = append(xs, cls{"xT2", g.chunks(t2.Elem().Field(0))})
	}
	with := func(base []*big.Int, i int, v *big.Int) []*big.Int {
		o := append([]*big.Int{}, base...)
		o[i] = v
		return o
	}
	pPlus := new(big.Int).Add(f.Q, one)
	for i := 0; i < g.d; i++ {
		xs = append(xs, cls{fmt.Sprintf("x=p@%d", i), with(gx, i, f.Q)})
	}
	if pPlus.BitLen() <= 8*g.nB-g.fb {
		xs = append(xs, cls{"x=p+1@0", with(gx, 0, pPlus)})
	}
	// the x of the "one" / "zero" classes may be on the curve: propose witnesses
	for _, c := range xs {
		g.classify(t, g.build(0, c.c))
	}
	if g.hasBytes {
		for _, c := range xs {
			for _, fl := range g.flags() {
				g.feed(t, g.build(fl, c.c), fmt.Sprintf("c:%s/f%d", c.name, fl), true)
			}
		}
	}
	// raw strings
	N := g.pt("N")
	nx, ny := g.chunks(N.Elem().Field(0)), g.chunks(N.Elem().Field(1))
	negy := g.chunks(g.pt("-G").Elem().Field(1))
	gy1 := append([]*big.Int{}, gy...)
	gy1[g.d-1] = new(big.Int).Add(gy1[g.d-1], one)
	if gy1[g.d-1].Cmp(f.Q) >= 0 {
		gy1[g.d-1] = new(big.Int)
	}
	type rcls struct {
		name string
		x, y []*big.Int
	}
	rs := []rcls{{"G", gx, gy}, {"-G", gx, negy}, {"N", nx, ny}, {"G.y+1", gx, gy1}, {"0,0", zeroC, zeroC}, {"0,1", zeroC, oneC},
		{"1,0", oneC, zeroC}, {"G.x,0", gx, zeroC}, {"max,y", maxC, gy}}
	if t2 := g.pt("T2"); t2.IsValid() {
		rs = append(rs, rcls{"T2", g.chunks(t2.Elem().Field(0)), g.chunks(t2.Elem().Field(1))})
	}
	for i := 0; i < g.d; i++ {
		rs = append(rs, rcls{fmt.Sprintf("x=p@%d", i), with(gx, i, f.Q), gy}, rcls{fmt.Sprintf("y=p@%d", i), gx, with(gy, i, f.Q)})
	}
	if pPlus.BitLen() <= 8*g.nB {
		rs = append(rs, rcls{"y=p+1@0", gx, with(gy, 0, pPlus)})
	}
	for _, c := range rs {
		for _, fl := range g.flags() {
			b := g.build(fl, c.x, c.y)
			g.classify(t, b)
			g.feed(t, b, fmt.Sprintf("r:%s/f%d", c.name, fl), true)
		}
	}

	// (3) every buffer length for a compressed, a raw and an infinity encoding
	var lens []int
	if tier == "thorough" {
		for k := 0; k <= g.rs+1; k++ {
			lens = append(lens, k)
		}
	} else {
		lens = []int{0, 1, g.cs - 1, g.cs, g.cs + 1, g.rs - g.cs/2, g.rs - 1}
	}
	var bases [][]byte
	rawG := c07ArrayBytes(method(G, "RawBytes").Call(nil)[0])
	bases = append(bases, rawG, c07ArrayBytes(method(g.pt("O"), "RawBytes").Call(nil)[0]))
	if g.hasBytes {
		bases = append(bases, append(c07ArrayBytes(method(G, "Bytes").Call(nil)[0]), r.Bytes(g.cs)...))
	}
	for bi, b := range bases {
		for _, k := range lens {
			if k >= 0 && k <= len(b) {
				g.feed(t, b[:k], fmt.Sprintf("len%d:%d", bi, k), k%7 == 0 || k >= g.cs-1)
			}
		}
	}

	// (4) slices of points with one bad entry at every position (two-phase decoding)
	if g.hasBytes && g.C.Funcs["NewDecoder"].IsValid() {
		good := c07ArrayBytes(method(g.pt("2G"), "Bytes").Call(nil)[0])
		goodRaw := c07ArrayBytes(method(g.pt("-G"), "RawBytes").Call(nil)[0])
		inval := 0
		if g.fb == 3 {
			inval = 7
		}
		small := 2 // flag "smallest" in the 2-bit scheme
		if g.fb == 3 {
			small = 4
		}
		bads := map[string][]byte{
			"noroot":   g.build(small, g.chunks(g.noroot.Elem())),
			"N":        c07ArrayBytes(method(N, "Bytes").Call(nil)[0]),
			"Nraw":     c07ArrayBytes(method(N, "RawBytes").Call(nil)[0]),
			"x=p":      g.build(small, with(gx, 0, f.Q)),
			"offcurve": g.build(0, gx, gy1),
			"infpad":   g.build(map[int]int{2: 1, 3: 6}[g.fb], oneC),
		}
		if inval != 0 {
			bads["flag"] = g.build(inval, gx)
		}
		names := []string{"noroot", "N", "Nraw", "x=p", "offcurve", "infpad", "flag"}
		ty := "s" + strings.ToLower(g.G)
		for _, nm := range names {
			bad, ok := bads[nm]
			if !ok {
				continue
			}
			for pos := 0; pos < 3; pos++ {
				items := [][]byte{good, goodRaw, good}
				items[pos] = bad
				wire := []byte{0, 0, 0, 3}
				for _, it := range items {
					wire = append(wire, it...)
				}
				for _, sg := range []bool{true, false} {
					d := newC07Dec(t, g.C, Ev{"k": "bytes"}, wire, []string{"full", "7", "1"}[pos], sg)
					tgt := reflect.New(reflect.SliceOf(g.AffT))
					if pos == 1 { // a preallocated slice of the right length is reused by the decoder
						tgt.Elem().Set(reflect.MakeSlice(reflect.SliceOf(g.AffT), 3, 3))
					}
					d.decode(ty, tgt, Ev{"cls": fmt.Sprintf("slice:%s@%d", nm, pos)})
				}
			}
		}
	}

	// (5) seeded random strings and bit flips of valid encodings
	for i := 0; i < nFuzz; i++ {
		var b []byte
		cl := "rand"
		switch {
		case !g.hasBytes || i%4 == 3:
			b = r.Bytes(g.rs)
			if i%8 == 3 { // keep the coordinates below p more often
				for k := 0; k < 2*g.d; k++ {
					b[k*g.nB] &= 0
				}
				b[0] |= byte(r.Intn(1<<g.fb)) << (8 - g.fb) & 0xff
			}
			cl = "rand-raw"
		case i%4 == 0:
			b = r.Bytes(g.cs)
			cl = "rand-c"
		case i%4 == 1: // random x below p with a random flag
			ch := make([]*big.Int, g.d)
			for k := range ch {
				ch[k] = r.Below(f.Q)
			}
			b = g.build(r.Intn(1<<g.fb), ch)
			cl = "rand-x"
		default: // one flipped bit in the encoding of a random subgroup point
			p := g.MulGen(r.Below(g.C.Fr.Q))
			g.know(t, p)
			op := "Bytes"
			if i%8 == 6 {
				op = "RawBytes"
			}
			b = c07ArrayBytes(method(p, op).Call(nil)[0])
			bit := r.Intn(8 * len(b))
			b[bit/8] ^= 1 << uint(bit%8)
			cl = "flip-" + op
		}
		g.classify(t, b)
		g.feed(t, b, cl, i%2 == 0)
	}
}

// ---------------------------------------------------------------------------------------
// GT

func c07RunGT(t *TraceWriter, c *Curve, r *Rng, n int) {
	T := c.Types["GT"]
	f := c.Fp
	sz := 0
	randGT := func() reflect.Value {
		z := reflect.New(T)
		var lv []reflect.Value
		c07Leaves(z.Elem(), &lv)
		for _, l := range lv {
			f.SetRaw(l.Addr(), r.Below(f.Q))
		}
		sz = len(lv) * f.NBytes
		return z
	}
	set := func(op string, buf []byte, cls string) {
		z := randGT()
		if !z.MethodByName(op).IsValid() {
			return
		}
		b := append([]byte{}, buf...)
		e := Ev{"op": "GT" + op, "buf": bytesToInts(buf), "cls": cls}
		out, pm, pk := call(method(z, op), reflect.ValueOf(b))
		if pk {
			e["panic"] = pm
		} else {
			if s, isErr := c07ErrOf(out[0]); isErr {
				e["err"] = s
			} else {
				e["out"] = enc(z)
			}
			e["bufa"] = bytesToInts(b)
		}
		t.Emit(e)
	}
	for i := 0; i < n; i++ {
		z := randGT()
		if i == 0 {
			z = reflect.New(T)
		}
		var enc0 []byte
		for _, op := range []string{"Bytes", "Marshal"} {
			if !z.MethodByName(op).IsValid() {
				continue
			}
			q := clonePtr(z)
			e := Ev{"op": "GT" + op, "v": enc(q)}
			out, pm, pk := call(method(q, op))
			if pk {
				e["panic"] = pm
			} else {
				enc0 = c07ArrayBytes(out[0])
				e["out"] = bytesToInts(enc0)
				e["va"] = enc(q)
			}
			t.Emit(e)
		}
		if enc0 == nil {
			continue
		}
		for _, op := range []string{"SetBytes", "Unmarshal"} {
			set(op, enc0, "rt")
		}
		// one coefficient = p, p+1, all ones; wrong lengths
		k := r.Intn(sz / f.NBytes)
		for ci, v := range []*big.Int{f.Q, new(big.Int).Add(f.Q, big.NewInt(1)), nil} {
			b := append([]byte{}, enc0...)
			if v == nil {
				for j := 0; j < f.NBytes; j++ {
					b[k*f.NBytes+j] = 0xff
				}
			} else {
				v.FillBytes(b[k*f.NBytes : (k+1)*f.NBytes])
			}
			set("SetBytes", b, fmt.Sprintf("noncanon%d@%d", ci, k))
		}
		set("SetBytes", enc0[:sz-1], "short")
		set("SetBytes", append(append([]byte{}, enc0...), 0), "long")
		set("SetBytes", nil, "empty")
		set("SetBytes", r.Bytes(sz), "rand")
	}
}

// ---------------------------------------------------------------------------------------

func runC07(args []string) {
	fs := flag.NewFlagSet("c07", flag.ExitOnError)
	out := fs.String("out", ".", "output directory")
	seed := fs.Uint64("seed", 1, "seed")
	tier := fs.String("tier", "quick", "quick|thorough")
	only := fs.String("curves", "", "comma separated curve names (default all)")
	parts := fs.String("parts", "pt,st,gt,ed", "pt (points), st (streams), gt, ed (twisted Edwards)")
	fs.Parse(args)
	names := curveNames
	if *only != "" {
		names = strings.Split(*only, ",")
	}
	has := func(p string) bool { return strings.Contains(","+*parts+",", ","+p+",") }
	nRandom, nFuzz, nGT := 2, 60, 3
	if *tier == "thorough" {
		nRandom, nFuzz, nGT = 5, 400, 12
	}
	total := 0
	for _, name := range names {
		c := curves[name]
		if c == nil {
			fatal("unknown curve %s", name)
		}
		for _, gn := range []string{"G1", "G2"} {
			r := newRng(*seed*6151 + uint64(len(name))*977 + uint64(name[len(name)-1])*31 + uint64(gn[1]))
			g := c07Group(c, gn, r, nRandom)
			if g == nil {
				continue
			}
			if has("pt") {
				nf := nFuzz
				if g.d >= 4 && *tier != "thorough" {
					nf = nFuzz / 2
				}
				t := newTrace(*out, "c07_pt_"+name+"_"+gn, Ev{"property": "C07", "kind": "pt", "curve": name, "g": gn, "seed": int(*seed % (1 << 30))})
				g.runPoints(t, r, *tier, nf)
				total += t.Close()
			}
		}
		if has("st") && c.Funcs["NewEncoder"].IsValid() {
			total += c07RunStreams(*out, c, *seed, *tier)
			total += c07RunObjects(*out, c, *seed, *tier)
		}
		if has("gt") && c.Types["GT"] != nil {
			r := newRng(*seed*523 + uint64(len(name))*7 + uint64(name[len(name)-1]))
			t := newTrace(*out, "c07_gt_"+name, Ev{"property": "C07", "kind": "gt", "curve": name, "seed": int(*seed % (1 << 30))})
			c07RunGT(t, c, r, nGT)
			total += t.Close()
		}
	}
	if has("ed") && *only == "" {
		total += c07RunEdwards(*out, *seed, *tier)
	}
	fmt.Printf("c07: %d events\n", total)
}
