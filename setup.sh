#!/bin/sh
# MANIFEST.setup_cmd: builds the framework offline from files on disk.
set -e
V=$(cd "$(dirname "$0")" && pwd)
cd "$V"
export GOFLAGS=-mod=mod GOPROXY=off GOSUMDB=off GOTOOLCHAIN=local
mkdir -p accel/classes evidence replays
javac -cp /opt/veriftools/tla/tla2tools.jar -d accel/classes accel/tlc2/module/*.java
# accelerator vs pure TLA+ definitions (exit non-zero on disagreement)
T=$(mktemp -d)
trap 'rm -rf "$T"' EXIT
(cd spec/lib && timeout 900 "$V/bin/vtlc" -metadir "$T/m" -workers 1 -config BigNatSelfCheck.cfg BigNatSelfCheck.tla > "$T/selfcheck.log" 2>&1) || { tail -30 "$T/selfcheck.log"; echo "BigNat self-check failed"; exit 1; }
grep -q "No error has been found" "$T/selfcheck.log" || { tail -30 "$T/selfcheck.log"; exit 1; }
echo "BigNat accelerator self-check ok"
# warm the Go build cache with the harness (default and purego)
cp /repo/go.sum harness/go.sum
python3 - <<'PY'
import sys
sys.path.insert(0, ".")
from vlib import core
import tempfile, shutil, os
w = tempfile.mkdtemp()
ov = core.make_overlay(w)
for tags in ("verif", "verif,purego"):
    core.sh(["go", "build", "-tags", tags, "-overlay", ov, "-o", os.path.join(w, "h"), "."], cwd="harness", timeout=1800)
shutil.rmtree(w)
print("harness builds ok")
PY
