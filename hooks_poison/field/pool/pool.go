// Poisoned variant of field/pool, substituted by /verif with `go build -overlay` for one build of the
// C18 check: every Get returns a *big.Int holding garbage, as if another caller had just Put it back, and every Put
// scrambles the value it releases.
// Correct users overwrite the value before reading it, so results must not change.
package pool

import (
	"math/big"
	"sync"
	"sync/atomic"
)

// BigInt is a shared *big.Int memory pool
var BigInt bigIntPool

var _bigIntPool = sync.Pool{
	New: func() interface{} {
		return new(big.Int)
	},
}

type bigIntPool struct{}

var poisonCtr atomic.Uint64

func (bigIntPool) Get() *big.Int {
	v := _bigIntPool.Get().(*big.Int)
	n := poisonCtr.Add(1)
	v.SetUint64(0xDEADBEEFCAFEF00D ^ n)
	v.Lsh(v, uint(300+n%700))
	v.Add(v, big.NewInt(int64(n)|1))
	if n%2 == 0 {
		v.Neg(v)
	}
	return v
}

func (bigIntPool) Put(v *big.Int) {
	if v == nil {
		return // see https://github.com/Consensys/gnark-crypto/issues/316
	}
	// the object belongs to the pool from here on: a caller that still reads it after Put (use after release) sees
	// garbage deterministically, not only when another goroutine happens to take it
	n := poisonCtr.Add(1)
	v.SetUint64(0xFEEDFACE0BADF00D ^ n)
	v.Lsh(v, uint(200+n%500))
	_bigIntPool.Put(v)
}
