// Package verifhook is injected by /verif (go build -overlay); it does not exist in the repository.
// Instrumented copies of concurrent code report their synchronisation points here.
package verifhook

import (
	"reflect"
	"runtime"
	"strconv"
	"strings"
	"sync"
	"sync/atomic"
)

type Event struct {
	Seq   int
	Gid   int
	Kind  string
	Fn    string
	Label string
	Obj   uintptr
	Cap   int
}

var (
	enabled atomic.Bool
	mu      sync.Mutex
	log     []Event
	yield   atomic.Uint64 // 0: never; otherwise seed of the schedule perturbation
	ctr     atomic.Uint64
)

// Start begins recording; seed != 0 additionally yields the processor at pseudo-random points.
func Start(seed uint64) {
	mu.Lock()
	log = log[:0]
	mu.Unlock()
	yield.Store(seed)
	enabled.Store(true)
}

// Stop ends recording and returns the events in their logged (total) order.
func Stop() []Event {
	enabled.Store(false)
	mu.Lock()
	defer mu.Unlock()
	out := make([]Event, len(log))
	copy(out, log)
	return out
}

func gid() int {
	var buf [64]byte
	n := runtime.Stack(buf[:], false)
	f := strings.Fields(string(buf[:n]))
	if len(f) >= 2 {
		id, _ := strconv.Atoi(f[1])
		return id
	}
	return -1
}

// Point records one synchronisation point. obj is the channel / *WaitGroup operated on (or nil).
func Point(kind, fn, label string, obj any) {
	if !enabled.Load() {
		return
	}
	e := Event{Gid: gid(), Kind: kind, Fn: fn, Label: label}
	if obj != nil {
		v := reflect.ValueOf(obj)
		switch v.Kind() {
		case reflect.Chan:
			e.Obj = v.Pointer()
			e.Cap = v.Cap()
		case reflect.Ptr:
			e.Obj = v.Pointer()
		}
	}
	mu.Lock()
	e.Seq = len(log)
	log = append(log, e)
	mu.Unlock()
	if s := yield.Load(); s != 0 {
		x := (ctr.Add(1) + s) * 0x9E3779B97F4A7C15
		if (x>>29)%3 == 0 {
			runtime.Gosched()
		}
	}
}
