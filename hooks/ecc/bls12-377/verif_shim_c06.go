//go:build verif

// Injected by /verif (go build -overlay), property C06. Exposes the package-level functions and the
// unexported helpers of internal/fptower to the conformance harness.

package bls12377

import (
	"github.com/consensys/gnark-crypto/ecc/bls12-377/internal/fptower"
)

// VerifShimC06 maps names to functions of internal/fptower.
var VerifShimC06 = map[string]any{
	"BatchCompressTorus": fptower.BatchCompressTorus,
	"BatchDecompressKarabina": fptower.BatchDecompressKarabina,
	"BatchDecompressTorus": fptower.BatchDecompressTorus,
	"BatchInvertE12": fptower.BatchInvertE12,
	"BatchInvertE2": fptower.BatchInvertE2,
	"BatchInvertE6": fptower.BatchInvertE6,
	"Mul034By034": fptower.Mul034By034,
	"Mul34By34": fptower.Mul34By34,
	"new.E12": func() *fptower.E12 { return new(fptower.E12) },
	"new.E2": func() *fptower.E2 { return new(fptower.E2) },
	"new.E6": func() *fptower.E6 { return new(fptower.E6) },
	"E12.nSquare": func(z *fptower.E12, n int) { for i := 0; i < n; i++ { z.CyclotomicSquare(z) } },
	"E12.nSquareCompressed": func(z *fptower.E12, n int) { for i := 0; i < n; i++ { z.CyclotomicSquareCompressed(z) } },
}
