//go:build verif

// Injected by /verif (go build -overlay). Exposes unexported methods to the conformance harness.

package bw6761

import (
	"math/big"
)

var _ = big.NewInt

// VerifShim maps names to closures over unexported functionality.
var VerifShim = map[string]any{
	"new.g1JacExtended": func() *g1JacExtended { return new(g1JacExtended) },
	"g1JacExtended.add": func(p *g1JacExtended, q *g1JacExtended) *g1JacExtended { return p.add(q) },
	"g1JacExtended.double": func(p *g1JacExtended, q *g1JacExtended) *g1JacExtended { return p.double(q) },
	"g1JacExtended.addMixed": func(p *g1JacExtended, a *G1Affine) *g1JacExtended { return p.addMixed(a) },
	"g1JacExtended.subMixed": func(p *g1JacExtended, a *G1Affine) *g1JacExtended { return p.subMixed(a) },
	"g1JacExtended.doubleNegMixed": func(p *g1JacExtended, a *G1Affine) *g1JacExtended { return p.doubleNegMixed(a) },
	"g1JacExtended.doubleMixed": func(p *g1JacExtended, a *G1Affine) *g1JacExtended { return p.doubleMixed(a) },
	"g1JacExtended.Set": func(p *g1JacExtended, q *g1JacExtended) *g1JacExtended { return p.Set(q) },
	"g1JacExtended.SetInfinity": func(p *g1JacExtended) *g1JacExtended { return p.SetInfinity() },
	"g1JacExtended.IsInfinity": func(p *g1JacExtended) bool { return p.IsInfinity() },
	"new.g2JacExtended": func() *g2JacExtended { return new(g2JacExtended) },
	"g2JacExtended.add": func(p *g2JacExtended, q *g2JacExtended) *g2JacExtended { return p.add(q) },
	"g2JacExtended.double": func(p *g2JacExtended, q *g2JacExtended) *g2JacExtended { return p.double(q) },
	"g2JacExtended.addMixed": func(p *g2JacExtended, a *G2Affine) *g2JacExtended { return p.addMixed(a) },
	"g2JacExtended.subMixed": func(p *g2JacExtended, a *G2Affine) *g2JacExtended { return p.subMixed(a) },
	"g2JacExtended.doubleNegMixed": func(p *g2JacExtended, a *G2Affine) *g2JacExtended { return p.doubleNegMixed(a) },
	"g2JacExtended.doubleMixed": func(p *g2JacExtended, a *G2Affine) *g2JacExtended { return p.doubleMixed(a) },
	"g2JacExtended.Set": func(p *g2JacExtended, q *g2JacExtended) *g2JacExtended { return p.Set(q) },
	"g2JacExtended.SetInfinity": func(p *g2JacExtended) *g2JacExtended { return p.SetInfinity() },
	"g2JacExtended.IsInfinity": func(p *g2JacExtended) bool { return p.IsInfinity() },
	"G1Jac.mulWindowed": func(p *G1Jac, q *G1Jac, s *big.Int) *G1Jac { return p.mulWindowed(q, s) },
	"G1Jac.mulGLV": func(p *G1Jac, q *G1Jac, s *big.Int) *G1Jac { return p.mulGLV(q, s) },
	"G1Jac.phi": func(p *G1Jac, q *G1Jac) *G1Jac { return p.phi(q) },
	"G1Jac.fromJacExtended": func(p *G1Jac, q *g1JacExtended) *G1Jac { return p.fromJacExtended(q) },
	"G1Jac.unsafeFromJacExtended": func(p *G1Jac, q *g1JacExtended) *G1Jac { return p.unsafeFromJacExtended(q) },
	"G1Jac.mulBySeed": func(p *G1Jac, q *G1Jac) *G1Jac { return p.mulBySeed(q) },
	"G2Jac.mulWindowed": func(p *G2Jac, q *G2Jac, s *big.Int) *G2Jac { return p.mulWindowed(q, s) },
	"G2Jac.mulGLV": func(p *G2Jac, q *G2Jac, s *big.Int) *G2Jac { return p.mulGLV(q, s) },
	"G2Jac.phi": func(p *G2Jac, q *G2Jac) *G2Jac { return p.phi(q) },
	"G2Jac.fromJacExtended": func(p *G2Jac, q *g2JacExtended) *G2Jac { return p.fromJacExtended(q) },
	"G2Jac.unsafeFromJacExtended": func(p *G2Jac, q *g2JacExtended) *G2Jac { return p.unsafeFromJacExtended(q) },
	"G2Jac.mulBySeed": func(p *G2Jac, q *G2Jac) *G2Jac { return p.mulBySeed(q) },
	"G1Affine.fromJacExtended": func(p *G1Affine, q *g1JacExtended) *G1Affine { return p.fromJacExtended(q) },
	"G2Affine.fromJacExtended": func(p *G2Affine, q *g2JacExtended) *G2Affine { return p.fromJacExtended(q) },
	"new.g2Proj": func() *g2Proj { return new(g2Proj) },
	"g2Proj.FromAffine": func(p *g2Proj, a *G2Affine) *g2Proj { return p.FromAffine(a) },
	"fn._innerMsmG1": _innerMsmG1,
	"fn._innerMsmG2": _innerMsmG2,
	"fn.partitionScalars": partitionScalars,
	"fn.computeNbChunks": computeNbChunks,
	"fn.lastC": lastC,
}
