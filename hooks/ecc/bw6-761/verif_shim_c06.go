//go:build verif

// Injected by /verif (go build -overlay), property C06. Exposes the package-level functions and the
// unexported helpers of internal/fptower to the conformance harness.

package bw6761

import (
	"github.com/consensys/gnark-crypto/ecc/bw6-761/internal/fptower"
)

// VerifShimC06 maps names to functions of internal/fptower.
var VerifShimC06 = map[string]any{
	"BatchCompressTorus": fptower.BatchCompressTorus,
	"BatchDecompressTorus": fptower.BatchDecompressTorus,
	"BatchInvertE3": fptower.BatchInvertE3,
	"BatchInvertE6": fptower.BatchInvertE6,
	"Mul014By014": fptower.Mul014By014,
	"Mul01By01": fptower.Mul01By01,
	"new.E3": func() *fptower.E3 { return new(fptower.E3) },
	"new.E6": func() *fptower.E6 { return new(fptower.E6) },
	"new.E6D": func() *fptower.E6D { return new(fptower.E6D) },
	"E6.nSquare": func(z *fptower.E6, n int) { for i := 0; i < n; i++ { z.CyclotomicSquare(z) } },
	"E6.nSquareCompressed": func(z *fptower.E6, n int) { for i := 0; i < n; i++ { z.CyclotomicSquareCompressed(z) } },
	"FromTower": fptower.FromTower,
	"ToTower": fptower.ToTower,
}
