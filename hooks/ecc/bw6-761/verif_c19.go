//go:build verif

// Injected by /verif (go build -overlay) for property C19: reflect handles on exported types of the
// internal tower package that no exported alias of this package reaches.

package bw6761

import (
	"reflect"

	"github.com/consensys/gnark-crypto/ecc/bw6-761/internal/fptower"
)

// VerifC19Types lists internal arithmetic types for the aliasing driver.
var VerifC19Types = map[string]reflect.Type{
	"E6D": reflect.TypeOf(fptower.E6D{}),
}
