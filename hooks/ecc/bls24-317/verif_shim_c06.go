//go:build verif

// Injected by /verif (go build -overlay), property C06. Exposes the package-level functions and the
// unexported helpers of internal/fptower to the conformance harness.

package bls24317

import (
	"github.com/consensys/gnark-crypto/ecc/bls24-317/internal/fptower"
)

// VerifShimC06 maps names to functions of internal/fptower.
var VerifShimC06 = map[string]any{
	"BatchCompressTorus": fptower.BatchCompressTorus,
	"BatchDecompressTorus": fptower.BatchDecompressTorus,
	"BatchInvertE12": fptower.BatchInvertE12,
	"BatchInvertE24": fptower.BatchInvertE24,
	"BatchInvertE4": fptower.BatchInvertE4,
	"Mul014By014": fptower.Mul014By014,
	"Mul01By01": fptower.Mul01By01,
	"new.E12": func() *fptower.E12 { return new(fptower.E12) },
	"new.E2": func() *fptower.E2 { return new(fptower.E2) },
	"new.E24": func() *fptower.E24 { return new(fptower.E24) },
	"new.E4": func() *fptower.E4 { return new(fptower.E4) },
	"E24.nSquare": func(z *fptower.E24, n int) { for i := 0; i < n; i++ { z.CyclotomicSquare(z) } },
	"E24.nSquareCompressed": func(z *fptower.E24, n int) { for i := 0; i < n; i++ { z.CyclotomicSquareCompressed(z) } },
}
