//go:build verif

// Injected by /verif (go build -overlay). Exposes unexported methods to the conformance harness.

package starkcurve

import (
	"math/big"
)

var _ = big.NewInt

// VerifShim maps names to closures over unexported functionality.
var VerifShim = map[string]any{
	"new.g1JacExtended": func() *g1JacExtended { return new(g1JacExtended) },
	"g1JacExtended.add": func(p *g1JacExtended, q *g1JacExtended) *g1JacExtended { return p.add(q) },
	"g1JacExtended.double": func(p *g1JacExtended, q *g1JacExtended) *g1JacExtended { return p.double(q) },
	"g1JacExtended.addMixed": func(p *g1JacExtended, a *G1Affine) *g1JacExtended { return p.addMixed(a) },
	"g1JacExtended.subMixed": func(p *g1JacExtended, a *G1Affine) *g1JacExtended { return p.subMixed(a) },
	"g1JacExtended.doubleNegMixed": func(p *g1JacExtended, q *G1Affine) *g1JacExtended { return p.doubleNegMixed(q) },
	"g1JacExtended.doubleMixed": func(p *g1JacExtended, q *G1Affine) *g1JacExtended { return p.doubleMixed(q) },
	"g1JacExtended.Set": func(p *g1JacExtended, a *g1JacExtended) *g1JacExtended { return p.Set(a) },
	"G1Jac.mulWindowed": func(p *G1Jac, a *G1Jac, s *big.Int) *G1Jac { return p.mulWindowed(a, s) },
	"G1Jac.fromJacExtended": func(p *G1Jac, Q *g1JacExtended) *G1Jac { return p.fromJacExtended(Q) },
	"G1Affine.fromJacExtended": func(p *G1Affine, Q *g1JacExtended) *G1Affine { return p.fromJacExtended(Q) },
}
